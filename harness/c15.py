"""C15 — `py` delivers arguments faithfully and never evaluates literals."""
from __future__ import annotations

import ast
import functools
import inspect
import io
import json
import keyword
import os
import shutil
import subprocess
import sys
import tempfile
import textwrap
import warnings

from vcommon import Prop, REPO, VERIF
import gen_c15 as G


# ----------------------------------------------------------------------------
# sentinels crossing the implementation
# ----------------------------------------------------------------------------

class Default:
    """The default value object of a generated parameter."""
    def __init__(self, name):
        self.name = name

    def __repr__(self):
        return "Default(%r)" % (self.name,)


class Evaluated:
    """What the stub namespace returns instead of evaluating."""
    def __init__(self, text):
        self.text = text

    def __repr__(self):
        return "Evaluated(%r)" % (self.text,)


class DefaultStr(str):
    """A parameter default that is a string (expression-like text): a literal that must never be evaluated."""
    pname = None


LIT_DEFAULTS = {"None": None, "0": 0, "False": False, "()": ()}


def make_default(sig, name):
    spec = (sig.get("defvals") or {}).get(name)
    if spec is None:
        return Default(name)
    if spec[0] == "str":
        d = DefaultStr(spec[1])
        d.pname = name
        return d
    return LIT_DEFAULTS[spec[1]]


def canon_param(sig, name, v):
    """Canonical form of the value a named parameter received (falsy literal defaults are recognised per parameter:
    the stub evaluator never produces None / 0 / False / (), and cases run with the real evaluator get no None default)."""
    spec = (sig.get("defvals") or {}).get(name)
    if spec is not None and spec[0] == "lit":
        d = LIT_DEFAULTS[spec[1]]
        if type(v) is type(d) and v == d:
            return ["default", name]
    return canon_val(v)


def canon_val(v):
    if isinstance(v, DefaultStr):
        return ["default", v.pname]
    if isinstance(v, str):
        return ["raw", v]
    if isinstance(v, Evaluated):
        return ["eval", v.text]
    if isinstance(v, Default):
        return ["default", v.name]
    return ["other", repr(v)[:80]]


def build_function(sig):
    """The generated signature as a real Python function (returns its locals)."""
    P, D = _param_list(sig)
    src = "def f(%s):\n    return dict(locals())\n" % (P,)
    ns = {"_D": D}
    exec(compile(src, "<c15sig>", "exec"), ns)
    return ns["f"], src


def canon_bound(sig, bound):
    """bound: dict param -> value (from locals() or BoundArguments.arguments) -> canonical JSON."""
    out = {}
    for a in list(sig["args"]) + list(sig["kwonly"]):
        out[a] = canon_param(sig, a, bound[a])
    if sig["varargs"]:
        out["*"] = [canon_val(v) for v in bound.get(sig["varargs"], ())]
    if sig["varkw"]:
        out["**"] = sorted([k, canon_val(v)] for k, v in bound.get(sig["varkw"], {}).items())
    return out


def _param_list(sig):
    """(parameter list as source text, table of default objects) of a generated signature."""
    D = {}
    params = []
    n, nd = len(sig["args"]), sig["ndefaults"]
    for i, a in enumerate(sig["args"]):
        if i < n - nd:
            params.append(a)
        else:
            D[a] = make_default(sig, a)
            params.append("%s=_D[%r]" % (a, a))
    if sig["varargs"]:
        params.append("*" + sig["varargs"])
    elif sig["kwonly"]:
        params.append("*")
    for a in sig["kwonly"]:
        if a in sig["kwdefaults"]:
            D[a] = make_default(sig, a)
            params.append("%s=_D[%r]" % (a, a))
        else:
            params.append(a)
    if sig["varkw"]:
        params.append("**" + sig["varkw"])
    return ", ".join(params), D


_REC = "_REC.append(dict(locals()))"
TARGET_TEMPLATES = {
    "function": "def t({P}):\n    {R}\n",
    "lambda": "t = lambda {P}: {R}\n",
    "method": "class K:\n    def m({S}):\n        {R}\nt = K().m\n",
    "classmethod": "class K:\n    @classmethod\n    def m({C}):\n        {R}\nt = K.m\n",
    "classmethod_via_instance": "class K:\n    @classmethod\n    def m({C}):\n        {R}\nt = K().m\n",
    "staticmethod": "class K:\n    @staticmethod\n    def m({P}):\n        {R}\nt = K.m\n",
    "class_init": "class K:\n    def __init__({S}):\n        {R}\nt = K\n",
    "class_new": "class K:\n    def __new__({C}):\n        {R}\n        return object.__new__(cls)\nt = K\n",
    "class_inherit_init": "class B:\n    def __init__({S}):\n        {R}\nclass K(B):\n    pass\nt = K\n",
    "callable_instance": "class K:\n    def __call__({S}):\n        {R}\nt = K()\n",
    "partial": "def g({P}):\n    {R}\nt = functools.partial(g)\n",
    "wrapped": "def g({P}):\n    {R}\n@functools.wraps(g)\ndef t(*c15a, **c15k):\n    return g(*c15a, **c15k)\n",
    "class_generic_new": "class K:\n    def __new__(cls, *c15a, **c15k):\n        return object.__new__(cls)\n"
                         "    def __init__({S}):\n        {R}\nt = K\n",
    "class_exception": "class K(Exception):\n    def __init__({S}):\n        {R}\nt = K\n",
}


def build_target(sig, ckind):
    """The generated signature as a real callable of the given kind; every call appends its locals to the returned list
    (the bound first parameter `self` / `cls` is in there too and is ignored by canon_bound)."""
    P, D = _param_list(sig)
    rec = []
    src = TARGET_TEMPLATES[ckind].format(P=P, S="self" + (", " + P if P else ""), C="cls" + (", " + P if P else ""),
                                         R=_REC)
    ns = {"_D": D, "_REC": rec, "functools": functools}
    exec(compile(src, "<c15target>", "exec"), ns)
    return ns["t"], rec


ERR_PREFIXES = [
    ("Invalid option name", "invalidOption"),
    ("Unknown option name", "unknownOption"),
    ("Ambiguous ", "ambiguous"),
    ("Too many positional", "tooManyPos"),
    ("missing required argument", "missingRequired"),
    ("missing required keyword argument", "missingRequiredKw"),
    ("Error parsing value", "evalError"),
]


def classify_parse_error(msg):
    if msg.startswith("Missing argument to"):
        return "missingArgDashDash" if "If you really want to use" in msg else "missingArgEnd"
    if " specified both as positional argument " in msg:
        return "bothPosKw"
    for p, k in ERR_PREFIXES:
        if msg.startswith(p):
            return k
    return "ParseError:?"


def is_blank(s):
    return not s.strip()


_REAL_VALUES = {}


def real_value(s):
    """Canonical form of what plain Python evaluates a string of gen_c15.REAL_EVALUABLE to (no pyflyby involved)."""
    if s not in _REAL_VALUES:
        assert s in G.REAL_EVALUABLE
        with warnings.catch_warnings():
            warnings.simplefilter("ignore")
            _REAL_VALUES[s] = canon_val(eval(s, {"os": os, "sys": sys}))
    return _REAL_VALUES[s]


def exprability(s):
    """Independent of pyflyby: can `s` be evaluated as an expression?  'yes' / 'no' / 'maybe'."""
    with warnings.catch_warnings():
        warnings.simplefilter("ignore")
        return _exprability(s)


def _exprability(s):
    """'yes': both readings of "is an expression" agree that it is (eval() would take it, and the dedented text is a
    single expression statement); 'no': neither; 'maybe': they differ (leading indentation before a multi-line text,
    `yield`, a starred item, ...) — then either behaviour is accepted."""
    try:
        ast.parse(s.strip(" \t"), mode="eval")
        as_eval = True
    except (SyntaxError, ValueError, MemoryError, RecursionError):
        as_eval = False
    as_stmt = False
    try:
        src = textwrap.dedent(s)
        if not src.endswith("\n"):
            src += "\n"
        m = ast.parse(src, mode="exec")
        as_stmt = len(m.body) == 1 and isinstance(m.body[0], ast.Expr)
    except (SyntaxError, ValueError, MemoryError, RecursionError):
        pass
    # H4: the grammar accepts text that the compiler then rejects ("*1", "(yield)", "lambda x, x: 1"): that cannot be
    # evaluated either.  A reading counts only if compile() to code succeeds; when the compiler gives up with something
    # other than a SyntaxError (RecursionError on deep text) either behaviour is accepted.
    unsure = False
    if as_eval:
        c = _code_stage(s.strip(" \t"), "eval")
        as_eval, unsure = c is True, unsure or c is None
    if as_stmt:
        c = _code_stage(src, "exec")
        as_stmt, unsure = c is True, unsure or c is None
    if as_eval and as_stmt:
        return "yes"
    if not as_eval and not as_stmt and not unsure:
        return "no"
    return "maybe"


def _code_stage(src, mode):
    """True: compile() produces code; False: SyntaxError; None: the compiler gave up otherwise."""
    try:
        compile(src, "<c15>", mode, dont_inherit=True)
        return True
    except SyntaxError:
        return False
    except Exception:
        return None


_CR = {}


def compile_rejected(s):
    """Independent of pyflyby: the text parses as a single expression but compile() rejects it with a SyntaxError."""
    if s not in _CR:
        with warnings.catch_warnings():
            warnings.simplefilter("ignore")
            _CR[s] = _compile_rejected(s)
    return _CR[s]


def _compile_rejected(s):
    if len(s) > 400 or is_blank(s):
        return False
    for src, mode in ((s.strip(" \t"), "eval"), (textwrap.dedent(s) + "\n", "exec")):
        try:
            tree = ast.parse(src, mode=mode)
        except Exception:
            continue
        if mode == "exec" and not (len(tree.body) == 1 and isinstance(tree.body[0], ast.Expr)):
            continue
        if _code_stage(src, mode) is False:
            return True
    return False


_VARIANTS = {}


def tree_variants():
    """Which of the repairs H1-H4 does the tree under test have?  Probed once per process on the real code (one tiny
    call each); the Lean model follows (K), the oracle never looks at it."""
    import pyflyby
    from pyflyby import _py
    key = pyflyby.__file__
    if key in _VARIANTS:
        return _VARIANTS[key]

    class Ns:
        globals = {}

        def auto_import(self, arg):
            return True

        def auto_eval(self, block, **kw):
            return Evaluated(str(block))
    spec = _py._get_argspec(lambda *a, **k: None)
    v = {}
    try:
        _, kw = _py._parse_auto_apply_args(spec, ["--x=", "5"], Ns(), arg_mode="string")
        v["eq_value"] = kw.get("x") == ""
    except Exception:
        v["eq_value"] = False
    try:
        v["compile_first"] = _py.UserExpr("lambda x, x: 1", Ns(), "auto").value == "lambda x, x: 1"
    except Exception:
        v["compile_first"] = False
    try:
        _, kw = _py._parse_auto_apply_args(spec, ["--zeta=1", "--alpha=2"], Ns(), arg_mode="string")
        v["kw_order"] = list(kw) == ["zeta", "alpha"]
    except Exception:
        v["kw_order"] = False
    _VARIANTS[key] = v        # (before the map probe: it runs a case)
    case = dict(kind="apply", ckind="function", route="map", mode="string", stdin="", items=None, map_literal=False,
                sig=dict(args=[], ndefaults=0, varargs="rest", kwonly=[], kwdefaults=[], varkw=None),
                map_dd=1, map_args=["a", "b"], argv=["a", "--", "b"], gopts=["--safe"], form=["--map", G.TARGET_NAME])
    try:
        v["map_dd"] = len(PROP._run_apply(case, probe=True)["calls"]) == 2
    except Exception:
        v["map_dd"] = False
    return v


def compile_raises(s):
    """Independent of pyflyby: CPython's compile() gives up on the text with something other than SyntaxError
    (UnicodeEncodeError for lone surrogates, RecursionError / MemoryError for very long or deep text, ...)."""
    src = textwrap.dedent(s)
    if not src.endswith("\n"):
        src += "\n"
    with warnings.catch_warnings():
        warnings.simplefilter("ignore")
        try:
            compile(src, "<c15>", "exec", ast.PyCF_ONLY_AST, dont_inherit=True)
        except SyntaxError:
            return False
        except Exception:
            return True
    return False


def _enc_str(s):
    # lone surrogates cannot cross the JSON boundary into Lean (Char has no surrogates): U+D800..DFFF <-> U+FD800..FDFFF
    if not any(0xD800 <= ord(c) <= 0xDFFF for c in s):
        return s
    return "".join(chr(ord(c) + 0xF0000) if 0xD800 <= ord(c) <= 0xDFFF else c for c in s)


def _dec_str(s):
    if not any(0xFD800 <= ord(c) <= 0xFDFFF for c in s):
        return s
    return "".join(chr(ord(c) - 0xF0000) if 0xFD800 <= ord(c) <= 0xFDFFF else c for c in s)


def _map_obj(o, f):
    if isinstance(o, str):
        return f(o)
    if isinstance(o, list):
        return [_map_obj(x, f) for x in o]
    if isinstance(o, dict):
        return {k: _map_obj(v, f) for k, v in o.items()}
    return o


def py_is_identifier(s):
    return s.isidentifier() and not keyword.iskeyword(s)


SUBPROC_PRELUDE = '''
import json
class _Default:
    def __init__(self, name):
        self.name = name
class _DD(dict):
    def __missing__(self, k):
        self[k] = _Default(k)
        return self[k]
_D = _DD()
def _canon(v):
    if isinstance(v, str):
        return ["raw", v]
    if isinstance(v, _Default):
        return ["default", v.name]
    return ["other", repr(v)[:80]]
def _emit(b):
    out = {}
    for k, v in b.items():
        if isinstance(v, tuple):
            out["*"] = [_canon(x) for x in v]
        elif isinstance(v, dict):
            out["**"] = sorted([kk, _canon(x)] for kk, x in v.items())
        else:
            out[k] = _canon(v)
    print("C15OUT " + json.dumps(out))
'''


class C15(Prop):
    id = "C15"
    driver = "C15"
    lean_modules = ["Pfb.C15.Props"]
    theorems = ["Pfb.C15." + t for t in [
        "C15_string_exact", "C15_string_noeval", "C15_after_dashdash", "C15_auto",
        "C15_bind_agrees", "C15_binding_partial", "C15_binding", "C15_accepts_only_bindable", "C15_delivered_binds",
        "C15_last_wins",
        "C15_rejects_ambiguous", "C15_rejects_unknown", "C15_rejects_call",
        "C15_D16_witness", "witness_call_binds", "witness_rejected", "witness_fixed",
        "C15_global_opts_suffix", "C15_safe_sets_string",
        "scan_items", "resolve_agree", "dget_dictOf", "evalExpr_user", "evalExpr_auto_raw_reason",
        "evalExpr_auto_compile_raises", "evalExpr_auto_unparsable",
        "witness_H2_swallows", "witness_H2_last", "witness_H2_fixed", "C15_eq_value",
    ]]
    anchors = [
        ("lib/python/pyflyby/_py.py", "_parse_auto_apply_args"),
        ("lib/python/pyflyby/_py.py", "UserExpr.__init__"),
        ("lib/python/pyflyby/_py.py", "UserExpr._infer_and_evaluate"),
        ("lib/python/pyflyby/_py.py", "_interpret_arg_mode"),
        ("lib/python/pyflyby/_py.py", "_PyMain._parse_global_opts"),
        ("lib/python/pyflyby/_py.py", "auto_apply"),
        ("lib/python/pyflyby/_py.py", "_get_argspec"),
        ("lib/python/pyflyby/_py.py", "_PyMain.apply"),
        ("lib/python/pyflyby/_py.py", "_PyMain.heuristic_cmd"),
        ("lib/python/pyflyby/_py.py", "_Namespace.auto_eval"),
        ("lib/python/pyflyby/_util.py", "prefixes"),
        ("lib/python/pyflyby/_idents.py", "is_identifier"),
        ("lib/python/pyflyby/_parse.py", "PythonBlock._ast_node_or_parse_exception"),
        ("lib/python/pyflyby/_parse.py", "PythonBlock.parsable_as_expression"),
        ("lib/python/pyflyby/_parse.py", "PythonBlock.expression_ast_node"),
        ("lib/python/pyflyby/_parse.py", "_parse_ast_nodes"),
    ]
    quick_cases = 10000
    thorough_cases = 250000
    quick_deadline_s = 60
    thorough_deadline_s = 600
    rule = ("generated signatures (positional, defaults, *args, keyword-only, **kwargs, names sharing prefixes, non-ASCII "
            "names) built as real Python functions x command lines (structured: positionals, --k=v, --k v, -k v, -k=v, "
            "`-`, trailing `-- ...`; 'wild' structured; unstructured token soup) x {string, eval, auto} x argument strings "
            "(expression-like, shell-like, empty, blank, leading dashes, control characters; a hostile alphabet: lone "
            "surrogates = undecodable argv bytes, NUL, BOM, FF/VT/U+2028 inside quoted strings, 10k-character tokens, "
            "199/250-deep brackets, 5000-9000-fold unary/binary chains on which compile() raises RecursionError / "
            "MemoryError / UnicodeEncodeError — each in every argument position) against "
            "_parse_auto_apply_args with a tagging stub namespace; plus CPython-binder cases (inspect.Signature.bind vs "
            "pyBind), _parse_global_opts cases, `apply` cases (the whole delivery in-process: auto_apply directly and "
            "through _PyMain's --apply / `py f args` heuristic / --map routes with every spelling of the argument-mode "
            "options, onto 14 kinds of callable — function, lambda, bound method, classmethod, staticmethod, class "
            "via __init__ / __new__ / inherited __init__, callable instance, functools.partial, functools.wraps "
            "wrapper, class with generic __new__, Exception subclass — that record what they received; with the "
            "tagging stub evaluator, or with pyflyby's own _Namespace and an empty import database on strings whose "
            "value plain Python decides), parameter defaults that are expression-like strings or falsy literals, "
            "an exhaustive small scope (9 signatures x argv<=3 over 12 tokens) and "
            "real `py` subprocesses (string mode, and automatic mode with raw bytes in argv); non-trivial = non-empty argv / call / option list, distinct by full input")
    trusted_base = ["CPython: inspect.Signature.bind as the definition of 'binds as the equivalent Python call' "
                    "(pyBind is validated against it by the 'bind' cases), str.isidentifier/keyword for non-ASCII names, "
                    "the parser behind PythonBlock.parsable_as_expression (parameters of the model: Env.parsable, and "
                    "Env.compileRaises = compile() gave up with a non-SyntaxError, computed by the harness from CPython alone)",
                    "modelled as parameters, universally quantified in the theorems: namespace.auto_eval (Env.outcome), "
                    "is_identifier (Env.isIdent); str.lower modelled on ASCII letters only (global options)"]
    assumptions = ["signatures as inspect.getfullargspec reports them: distinct parameter names, kwonlydefaults within "
                   "kwonlyargs (WF); positional-only parameters are outside the property's quantifier",
                   "C15_binding at full strength needs fixes/C15-D16.diff (exactFirst); for the tree as it stands "
                   "C15_binding_partial assumes no option names a parameter that is a proper prefix of another (D16)",
                   "a later --args=... overrides --safe (last mode option wins)",
                   "four listed findings with proposed repairs (H1 --map with a non-leading `--`, H2 `--name=` with an "
                   "empty value, H3 **kwargs order, H4 compiler-rejected expressions in automatic mode): the model "
                   "variant (Env.eqValue, the compileRaises table, the --map desugaring) follows the tree under test "
                   "by four one-call probes (c15.tree_variants); the oracle never looks at them; the order of **kwargs "
                   "is judged by the oracle only (not modelled)"]

    # -- generation ----------------------------------------------------------
    def gen_case(self, rng, i, tier):
        r0 = rng.random()
        if r0 < 0.06:
            return self._gen_bind(rng)
        if r0 < 0.12:
            return self._gen_gopts(rng)
        if r0 < 0.24:
            case = G.gen_apply(rng)
            cands = sorted(set(self._candidate_strings(case)))
            G.add_defvals(rng, case["sig"], cands, real=case.get("ns") == "real")
            case["unimportable"] = [s for s in cands if rng.random() < 0.15]
            case["evalerr"] = [s for s in cands if s not in case["unimportable"] and rng.random() < 0.06]
            self._real_tables(case)
            return case
        sig = G.gen_sig(rng)
        mode = rng.choice(G.MODES)
        r = rng.random()
        case = dict(kind="parse", sig=sig, mode=mode, stdin=rng.choice(["", "IN", "1+1", "line1\nline2\n", "--x"]))
        if r < 0.3:
            items = G.gen_items_valid(rng, sig)
            case["items"] = items
            case["argv"] = G.render(items)
        elif r < 0.6:
            items = G.gen_items(rng, sig, wild=False)
            case["items"] = items
            case["argv"] = G.render(items)
        elif r < 0.75:
            items = G.gen_items(rng, sig, wild=True)
            case["items"] = items
            case["argv"] = G.render(items)
        else:
            case["argv"] = G.gen_soup(rng, sig)
        cands = sorted(set(self._candidate_strings(case)))
        G.add_defvals(rng, sig, cands)
        case["unimportable"] = [s for s in cands if rng.random() < 0.15]
        case["evalerr"] = [s for s in cands if s not in case["unimportable"] and rng.random() < 0.06]
        return case

    def exhaustive_cases(self, tier, rng):
        out = G.small_scope(tier, rng)
        out.extend(G.hostile_scope(tier, rng))
        for case in G.defects_scope(tier, rng):
            case.setdefault("unimportable", [])
            case.setdefault("evalerr", [])
            out.append(self._real_tables(case))
        for case in G.apply_scope(tier, rng):
            case.setdefault("unimportable", [])
            case.setdefault("evalerr", [])
            self._real_tables(case)
            out.append(case)
        n_sub = 200 if tier == "thorough" else 6
        for _ in range(n_sub):
            out.append(self._gen_subproc(rng))
        for i in range(120 if tier == "thorough" else 8):
            out.append(self._gen_subproc_auto(rng, i))
        return out

    @classmethod
    def _real_tables(cls, case):
        """Cases run with the real evaluator: which strings name something that cannot be imported is a fact about
        the pool (decided when the pool was written), not a per-case choice."""
        if case.get("ns") == "real":
            cands = set(cls._candidate_strings(case))
            case["unimportable"] = sorted(c for c in cands if c in G.REAL_UNIMPORTABLE)
            case["evalerr"] = []
        return case

    # strings handed to a real `py` in automatic mode: raw bytes in argv (undecodable bytes included), long / deep
    # text, control characters; a few harmless evaluable ones as neighbours (NUL cannot be in an argv)
    HARMLESS_EVALUABLE = ["2+3", "None", "'q'", "[1, 2]"]
    _auto_pool = None

    @classmethod
    def subproc_auto_pool(cls):
        """Strings whose fate in automatic mode does not depend on the evaluator: evaluation is impossible (not an
        expression by either reading, or compile() gives up) — plus a few harmless evaluable neighbours.  Lone
        surrogates must be expressible as argv bytes (U+DC80..DCFF, PEP 383); the string is what the child decodes."""
        if cls._auto_pool is None:
            pool = []
            for s in G.HOSTILE + ["a b", "$HOME", "hello world", "1 2", "(1,", "x;y", "caf\udce9 latt\udce9.txt"]:
                if "\x00" in s or len(s) > 20000:
                    continue
                try:
                    s2 = s.encode("utf-8", "surrogateescape").decode("utf-8", "surrogateescape")
                except UnicodeError:
                    continue
                if is_blank(s2) or compile_raises(s2) or exprability(s2) == "no":
                    pool.append(s2)
            # expressions over names that nothing defines and nothing can import: evaluation is impossible as well
            cls._auto_pool = pool + cls.HARMLESS_EVALUABLE + [u for u in G.REAL_UNIMPORTABLE if "os." not in u
                                                              and "sys." not in u] + G.COMPILE_REJECTED_CLOSED[:6]
        return cls._auto_pool

    def _gen_subproc_auto(self, rng, i):
        pool = self.subproc_auto_pool()
        items = []
        # the first cases walk through the undecodable-byte strings one by one
        first = pool[i % len(pool)] if i < 2 * len(pool) else rng.choice(pool)
        def plain(x):
            return not x.startswith("-") and x not in G.HELP_TOKENS
        for j in range(rng.choice([1, 2, 2, 3, 4])):
            v = first if j == 0 else rng.choice(pool)
            r = rng.random()
            if r < 0.5 and plain(v):
                items.append(["pos", v])
            elif r < 0.75 and v != "":
                items.append(["opt", rng.choice(["--k=v", "-k=v"]), rng.choice(["path", "name", "zz", "x"]), v])
            elif not v.startswith("--"):
                items.append(["opt", rng.choice(["--k v", "-k v"]), rng.choice(["path", "name", "zz", "x"]), v])
            elif plain(v):
                items.append(["pos", v])
        rng.shuffle(items)
        if rng.random() < 0.25:
            items.append(["dd", [rng.choice(pool) for _ in range(rng.randint(1, 2))]])
        gopts = rng.choice([[], [], ["-q"], ["--args=auto"], ["--args", "a"]])
        via = rng.choice(["heuristic", "apply", "apply"])
        argv = G.render(items)
        if via == "heuristic" and not any(g.startswith("--args") for g in gopts) \
                and not any(G.looks_like_option_or_blank(a) for a in argv):
            # `py f ARGS...` without an argument-mode option first tries "f ARGS..." as one piece of Python text
            # (`py f '[1, 2]'` is the subscript f[1, 2]) unless an argument is blank or looks like an option: that is
            # the implied --eval feature, not a function call with arguments; name the mode to stay inside the property
            gopts = gopts + ["--args=auto"]
        sig = dict(args=[], ndefaults=0, varargs="rest", kwonly=[], kwdefaults=[], varkw="kw")
        return dict(kind="subproc_auto", sig=sig, mode="auto", gopts=gopts, via=via, items=items, argv=G.render(items),
                    stdin="")

    def _gen_bind(self, rng):
        sig = G.gen_sig(rng)
        names = G.sig_names(sig)
        npos = rng.choice([0, 0, 1, 1, 2, 3, len(sig["args"]), len(sig["args"]) + 1])
        pool = names + names + [n + "q" for n in names[:2]] + ["zz", "other"] + [x for x in (sig["varargs"], sig["varkw"]) if x]
        kw = sorted({rng.choice(pool) for _ in range(rng.choice([0, 1, 1, 2, 3, 4]))}) if pool else []
        rng.shuffle(kw)
        return dict(kind="bind", sig=sig, npos=npos, kw=kw)

    GOPT_WORDS = ["string", "str", "Str", " STRINGS ", "s", "literal", "literals", "strs", "eval", "e", "Expr", "auto",
                  "a", "automatic", "error", "bogus", "", "é", "S\t", "evaluate", "expressions", "\x1cstr\x85"]

    def _gen_gopts(self, rng):
        """A `py` command line: global options, then the command and its arguments."""
        argv = []
        mode = None
        ok = True
        for _ in range(rng.choice([0, 1, 1, 2, 2, 3, 4])):
            r = rng.random()
            if r < 0.25:
                argv.append(rng.choice(["--safe", "-safe"]))
                mode = "string"
            elif r < 0.6:
                name = rng.choice(["args", "arguments", "argument", "arg", "arg_mode", "arg-mode", "argmode"])
                word = rng.choice(self.GOPT_WORDS)
                dash = rng.choice(["--", "-"])
                if rng.random() < 0.5:
                    argv.append(dash + name + "=" + word)
                else:
                    argv.extend([dash + name, word])
                m = self._intended_mode(word)
                if m is None:
                    ok = False
                    break
                mode = m
            elif r < 0.85:
                argv.append(rng.choice(["-q", "--quiet", "--verbose", "--print", "--repr", "--silent", "--pprint",
                                        "--output=repr", "-o=silent", "--np", "--no-postmortem", "--postmortem=no",
                                        "--postmortem", "--add-deprecated-builtins", "--out-mode=Repr_If_Not_None",
                                        "--postmortem=auto", "--postmortem=If-TTY"]))
            elif r < 0.9:
                argv.extend([rng.choice(["--output", "-o", "--out"]), rng.choice(["repr", "silent", "pp", "exit"])])
            else:
                ok = None      # outside the intent (break quirk, errors): correspondence only
                argv.append(rng.choice(["-d", "--debug", "debug", "pdb", "--safe=1", "--quiet=x", "--output=zz",
                                        "--postmortem=maybe", "--args", "-x", "--", "-", "--print=1", "-d=1", "dbg"]))
                break
        rest = []
        if rng.random() < 0.9:
            rest = [rng.choice(["f", "print", "c15mod.f", "apply", "é", "x y"])] + \
                   [G.gen_string(rng) for _ in range(rng.randint(0, 3))]
        case = dict(kind="gopts", argv=argv + rest)
        if ok is True and (not rest or not (rest[0].startswith("-") or rest[0] in ("debug", "pdb", "ipdb", "dbg"))):
            case["intent"] = dict(mode=mode, rest=rest)
        return case

    @staticmethod
    def _intended_mode(word):
        wd = word.strip().lower()
        if wd in ("string", "strings", "str", "strs", "literal", "literals", "s"):
            return "string"
        if wd in ("eval", "evaluate", "exprs", "expr", "expressions", "expression", "e"):
            return "eval"
        if wd in ("auto", "automatic", "a"):
            return "auto"
        if wd == "error":
            return "error"
        return None

    SUBPROC_STRINGS = ["1+2", "None", "[1, 2]", "'q'", "a b", "$HOME", "`ls`", "x;y", "", " ", "a=b", "é", "(1,",
                       "hello world", "3.5", "*", "~/f", "-5", "--x", "-", "--", "?", "Willowbrook29817621+5", "1 # c",
                       "{'a': 1}", "x\ny", "\t", "a|b", "%s", "True", "0x10", "'unterminated", "\\"]

    def _gen_subproc(self, rng):
        sig = G.gen_sig(rng)
        for k in ("args", "kwonly", "kwdefaults"):
            sig[k] = [n for n in sig[k] if n.isascii()]
        sig["ndefaults"] = min(sig["ndefaults"], len(sig["args"]))
        items = []
        for _ in range(rng.choice([0, 1, 2, 2, 3, 4])):
            r = rng.random()
            if r < 0.5:
                s = rng.choice(self.SUBPROC_STRINGS)
                while s.startswith("-") or s in G.HELP_TOKENS:
                    s = rng.choice(self.SUBPROC_STRINGS)
                items.append(["pos", s])
            elif r < 0.95:
                form = rng.choice(G.FORMS)
                name = G.gen_typed_name(rng, sig)
                if not name.isascii():
                    name = "zz"
                if form.startswith("-k"):
                    name = name.lstrip("-") or "x"
                v = rng.choice(self.SUBPROC_STRINGS)
                while (form.endswith("=v") and v == "") or (form.endswith(" v") and v.startswith("--")):
                    v = rng.choice(self.SUBPROC_STRINGS)
                items.append(["opt", form, name, v])
            else:
                items.append(["stdin"])
        if rng.random() < 0.3:
            items.append(["dd", [rng.choice(self.SUBPROC_STRINGS) for _ in range(rng.randint(0, 3))]])
        gopts = rng.choice([["--safe"], ["--safe"], ["--args=string"], ["--args", "Str"], ["-q", "--safe"],
                            ["--safe", "--output=silent"], ["--args=auto", "--safe"]])
        via = rng.choice(["heuristic", "heuristic", "apply"])
        return dict(kind="subproc", sig=sig, mode="string", gopts=gopts, via=via, items=items, argv=G.render(items),
                    stdin=rng.choice(["", "IN", "l1\nl2\n"]), unimportable=[], evalerr=[])

    @staticmethod
    def _candidate_strings(case):
        out = [case.get("stdin", ""), ""]
        for a in case["argv"]:
            out.append(a)
            if a.startswith("-") and "=" in a:
                out.append(a.partition("=")[2])
        return out

    # -- implementation ------------------------------------------------------
    def run_impl(self, case):
        with warnings.catch_warnings():
            warnings.simplefilter("ignore")     # SyntaxWarnings of generated argument strings
            return self._run_impl(case)

    def _run_impl(self, case):
        kind = case.get("kind", "parse")
        if kind == "parse":
            return self._run_parse(case)
        if kind == "bind":
            return self._run_bind(case)
        if kind == "gopts":
            return self._run_gopts(case)
        if kind in ("subproc", "subproc_auto"):
            return self._run_subproc(case)
        if kind == "apply":
            return self._run_apply(case)
        raise ValueError("unknown case kind %r" % (kind,))

    def _run_bind(self, case):
        """CPython's own binder on the generated function (reference semantics, no pyflyby involved)."""
        sig = case["sig"]
        f, _ = build_function(sig)
        pos = ["p%d" % i for i in range(case["npos"])]
        kw = {n: "k:" + n for n in case["kw"]}
        try:
            ba = inspect.signature(f).bind(*pos, **kw)
        except TypeError as e:
            return dict(err="TypeError", msg=str(e)[:120])
        ba.apply_defaults()

        def v(x):
            return "d:" + x.name if isinstance(x, Default) else x
        return dict(ok=dict(args=[v(ba.arguments[a]) for a in sig["args"]],
                            star=[v(x) for x in ba.arguments.get(sig["varargs"], ())] if sig["varargs"] else [],
                            kwonly=[v(ba.arguments[a]) for a in sig["kwonly"]],
                            starstar=sorted([k, v(x)] for k, x in ba.arguments.get(sig["varkw"], {}).items())
                            if sig["varkw"] else []))

    def _run_gopts(self, case):
        from pyflyby import _py
        from pyflyby._log import logger
        saved_env = {k: os.environ.get(k) for k in ("PYFLYBY_PATH", "PYFLYBY_KNOWN_IMPORTS_PATH",
                                                    "PYFLYBY_MANDATORY_IMPORTS_PATH")}
        saved_pm = getattr(_py, "_enable_postmortem_debugger", None)
        m = _py._PyMain(list(case["argv"]))
        m.create_ipython_app = lambda: None
        try:
            try:
                m._parse_global_opts()
                obs = dict(ok=dict(mode=m.arg_mode, rest=list(m.args)))
            except ValueError as e:
                obs = dict(err="ValueError", msg=str(e)[:120])
            except Exception as e:
                obs = dict(err="exc:" + type(e).__name__, msg=str(e)[:120])
        finally:
            for k, v in saved_env.items():
                if v is None:
                    os.environ.pop(k, None)
                else:
                    os.environ[k] = v
            _py._enable_postmortem_debugger = saved_pm
            logger.set_level("ERROR")
        return obs

    def _run_subproc(self, case):
        """The real `py` program in a subprocess; the called function prints what it received."""
        sig = case["sig"]
        _, src = build_function(sig)
        body = src.replace("    return dict(locals())\n", "    _emit(dict(locals()))\n")
        d = tempfile.mkdtemp(prefix="pfbverif.c15.")
        try:
            with open(os.path.join(d, "c15m.py"), "w", encoding="utf-8") as fh:
                fh.write(SUBPROC_PRELUDE + body)
            cmd = [sys.executable, os.path.join(REPO, "bin", "py")] + list(case["gopts"])
            cmd += (["--apply", "c15m.f"] if case["via"] == "apply" else ["c15m.f"])
            # raw bytes in argv: a lone surrogate U+DCxx stands for the undecodable byte 0xxx (PEP 383)
            cmd = [os.fsencode(c) for c in cmd] + [a.encode("utf-8", "surrogateescape") for a in case["argv"]]
            env = dict(os.environ)
            env.update(PYTHONPATH=d + os.pathsep + os.path.join(REPO, "lib", "python"), LC_ALL="C.UTF-8",
                       PYTHONIOENCODING="utf-8", HOME=d, PYFLYBY_LOG_LEVEL="INFO")
            env.pop("PYFLYBY_PATH", None)
            p = subprocess.run(cmd, input=case.get("stdin", ""), stdout=subprocess.PIPE, stderr=subprocess.PIPE,
                               encoding="utf-8", errors="replace", env=env, cwd=d, timeout=120)
        finally:
            shutil.rmtree(d, ignore_errors=True)
        obs = dict(rc=p.returncode, log=[])
        for line in p.stdout.splitlines():
            if line.startswith("C15OUT "):
                bound = json.loads(line[7:])
                obs["call"] = bound
                args = [bound[a] for a in sig["args"]] + list(bound.get("*", []))
                kwargs = [[a, bound[a]] for a in sig["kwonly"]] + [list(x) for x in bound.get("**", [])]
                obs["ok"] = dict(args=args, kwargs=sorted(kwargs))
        if "ok" not in obs:
            err = None
            for line in p.stderr.splitlines():
                if line.startswith("[PYFLYBY] "):
                    k = classify_parse_error(line[len("[PYFLYBY] "):])
                    if k != "ParseError:?":
                        err = k
                        obs["msg"] = line[:200]
                        break
            if err is None and p.returncode == 0 and "Command-line signature" in p.stdout:
                err = "wantHelp"       # help and source requests both print the usage
            obs["err"] = err or "exc:subprocess"
            if err is None:
                obs["msg"] = (p.stderr[-300:] + p.stdout[-200:])
        return obs

    def _run_apply(self, case, probe=False):
        """The whole delivery in-process: auto_apply directly, or _PyMain (global options, then --apply / the
        `py f args...` heuristic / --map) onto a real callable of the case's kind, with the tagging stub namespace;
        the callable records what it received."""
        from pyflyby import _py
        from pyflyby._log import logger
        sig = case["sig"]
        target, rec = build_target(sig, case["ckind"])
        unimportable = set(case.get("unimportable", ()))
        evalerr = set(case.get("evalerr", ()))
        log = []

        class StubNamespace:
            def __init__(self):
                self.globals = {}

            def auto_import(self, arg):
                return True

            def auto_eval(self, block, mode=None, info=False, auto_import=True, debug=False):
                s = str(block)
                if s == G.TARGET_NAME:
                    return target
                log.append(s)
                if s in unimportable:
                    raise _py.UnimportableNameError("stub: unimportable")
                if s in evalerr:
                    raise ValueError("stub: evaluation error")
                return Evaluated(s)

        real = case.get("ns") == "real"
        ns = StubNamespace()
        saved_env = {k: os.environ.get(k) for k in ("PYFLYBY_PATH", "PYFLYBY_KNOWN_IMPORTS_PATH",
                                                    "PYFLYBY_MANDATORY_IMPORTS_PATH")}
        if real:
            # pyflyby's own namespace with an empty import database (what --safe sets up); the function is a global
            os.environ.update(PYFLYBY_PATH="EMPTY", PYFLYBY_KNOWN_IMPORTS_PATH="", PYFLYBY_MANDATORY_IMPORTS_PATH="")
            ns = _py._Namespace()
            ns.globals[G.TARGET_NAME] = target
        saved_pm = getattr(_py, "_enable_postmortem_debugger", None)
        saved_std = (sys.stdin, sys.stdout, sys.stderr)
        saved_argv = sys.argv
        saved_level = logger.level
        out, errf = io.StringIO(), io.StringIO()
        obs = {}
        try:
            sys.stdin = io.StringIO(case.get("stdin", ""))
            sys.stdout, sys.stderr = out, errf
            logger.set_level("INFO")
            try:
                if case["route"] == "direct":
                    fn = _py.UserExpr(target, ns, "raw_value", G.TARGET_NAME)
                    _py.auto_apply(fn, list(case["argv"]), ns, case.get("mode_token"))
                else:
                    m = _py._PyMain(list(case["gopts"]) + list(case["form"]) + list(case["argv"]))
                    m.namespace = ns
                    m.create_ipython_app = lambda: None
                    m._parse_global_opts()
                    _py._enable_postmortem_debugger = False      # never a debugger inside the harness
                    m._run_action()
            except SystemExit as e:
                obs["exit"] = e.code if (e.code is None or isinstance(e.code, int)) else repr(e.code)[:80]
            except Exception as e:
                obs["err"] = "exc:" + type(e).__name__
                obs["msg"] = str(e)[:200]
        finally:
            sys.stdin, sys.stdout, sys.stderr = saved_std
            sys.argv = saved_argv
            for k, v in saved_env.items():
                if v is None:
                    os.environ.pop(k, None)
                else:
                    os.environ[k] = v
            _py._enable_postmortem_debugger = saved_pm
            logger.set_level(saved_level)
        obs["calls"] = [canon_bound(sig, b) for b in rec]
        if sig["varkw"]:
            obs["kworders"] = [list(b.get(sig["varkw"], {})) for b in rec]
        if "exit" in obs and "err" not in obs:
            code, etext, otext = obs["exit"], errf.getvalue(), out.getvalue()
            err = None
            if code in (0, None):
                err = "wantHelp" if "Command-line signature" in otext else "exc:exit0"   # help and source alike
            else:
                for line in etext.splitlines():
                    if line.startswith("[PYFLYBY] "):
                        k = classify_parse_error(line[len("[PYFLYBY] "):])
                        if k != "ParseError:?":
                            err = k
                            obs["msg"] = line[:200]
                            break
                if err is None:
                    last = [ln for ln in etext.splitlines() if ln.strip()][-1:]
                    if code == 1 and last and last[0].startswith("TypeError:") and "Traceback" in etext:
                        err = "callTypeError"         # the call itself refused the arguments
                        obs["msg"] = last[0][:200]
                    elif code == 1 and real and last and last[0].startswith("SyntaxError:") and "Traceback" in etext:
                        # the real evaluator: compile() of an argument raised inside auto_eval, which reports the
                        # exception itself (traceback, exit 1) instead of the ParseError "Error parsing value ..."
                        err = "evalError"
                        obs["msg"] = last[0][:200]
                    else:
                        err = "exc:exit%s" % (code,)
                        obs["msg"] = (etext[-300:] + otext[-100:])
            obs["err"] = err
        obs["log"] = log
        if probe:
            return obs
        obs["variants"] = tree_variants()
        if case["mode"] != "string":
            obs.update(self._parse_tables(case))
        return obs

    def _parse_tables(self, case):
        """The per-case tables the model takes as parameters: which candidate strings pyflyby's parser takes as an
        expression, and on which CPython's compile() gives up."""
        from pyflyby import _py
        from pyflyby._parse import PythonBlock
        par = []
        cands = sorted(set(self._candidate_strings(case)))
        for s in cands:
            try:
                if PythonBlock(s, flags=_py.FLAGS).parsable_as_expression:
                    par.append(s)
            except Exception:
                pass
        return dict(parsable=par, compile_raises=[s for s in cands if compile_raises(s)],
                    compile_fails=self._compile_fails(par))

    @staticmethod
    def _compile_fails(par):
        """Of the strings pyflyby's parser takes as an expression: those on which PythonBlock.compile() raises (a
        parameter of the model like `parsable`: Env.compileRaises on a tree with fixes/C15-H4.diff)."""
        from pyflyby import _py
        from pyflyby._parse import PythonBlock
        out = []
        for s in par:
            try:
                PythonBlock(s, flags=_py.FLAGS).compile()
            except Exception:
                out.append(s)
        return out

    def _run_parse(self, case):
        from pyflyby import _py
        sig = case["sig"]
        f, src = build_function(sig)
        argspec = _py._get_argspec(f)
        unimportable = set(case.get("unimportable", ()))
        evalerr = set(case.get("evalerr", ()))
        log = []

        class StubNamespace:
            def auto_eval(self, block, **kw):
                s = str(block)
                log.append(s)
                if s in unimportable:
                    raise _py.UnimportableNameError("stub: unimportable")
                if s in evalerr:
                    raise ValueError("stub: evaluation error")
                return Evaluated(s)

        obs = {}
        old_stdin = sys.stdin
        sys.stdin = io.StringIO(case.get("stdin", ""))
        try:
            try:
                args, kwargs = _py._parse_auto_apply_args(argspec, list(case["argv"]), StubNamespace(),
                                                          arg_mode=case["mode"])
                nargs = len(sig["args"])
                obs["ok"] = dict(args=[canon_param(sig, sig["args"][i], v) if i < nargs else canon_val(v)
                                       for i, v in enumerate(args)],
                                 kwargs=sorted([k, canon_param(sig, k, v)] for k, v in kwargs.items()))
                try:
                    received = f(*args, **kwargs)
                    obs["call"] = canon_bound(sig, received)
                    if sig["varkw"]:
                        obs["kworder"] = list(received.get(sig["varkw"], {}))
                except TypeError as e:
                    obs["call_err"] = str(e)[:200]
            except _py.ParseError as e:
                obs["err"] = classify_parse_error(str(e))
                obs["msg"] = str(e)[:200]
            except _py._ParseInterruptedWantHelp:
                obs["err"] = "wantHelp"
            except _py._ParseInterruptedWantSource:
                obs["err"] = "wantSource"
            except Exception as e:
                obs["err"] = "exc:" + type(e).__name__
                obs["msg"] = str(e)[:200]
        finally:
            sys.stdin = old_stdin
        obs["log"] = log
        obs["variants"] = tree_variants()
        if case["mode"] != "string":
            from pyflyby._parse import PythonBlock
            par = []
            for s in sorted(set(self._candidate_strings(case))):
                try:
                    if PythonBlock(s, flags=_py.FLAGS).parsable_as_expression:
                        par.append(s)
                except Exception:
                    pass
            obs["parsable"] = par
            obs["compile_raises"] = [s for s in sorted(set(self._candidate_strings(case))) if compile_raises(s)]
            obs["compile_fails"] = self._compile_fails(par)
        return obs

    # -- oracle --------------------------------------------------------------
    def oracle(self, case, obs):
        kind = case.get("kind", "parse")
        if kind in ("parse", "subproc"):
            return self._oracle_parse(case, obs)
        if kind == "subproc_auto":
            return self._oracle_subproc_auto(case, obs)
        if kind == "gopts":
            return self._oracle_gopts(case, obs)
        if kind == "apply":
            return self._oracle_apply(case, obs)
        return []

    @staticmethod
    def _apply_view(case):
        """What `py` can know of the callable's parameters: the signature itself, or nothing (then option names are
        passed on as typed and the call decides)."""
        return case["sig"] if case["ckind"] in G.CKINDS_TRANSPARENT else G.GENERIC_SIG

    def _oracle_apply(self, case, obs):
        sig, argv, mode = case["sig"], case["argv"], case["mode"]
        brief = dict(ckind=case["ckind"], route=case["route"], sig=sig, argv=argv, mode=mode)
        for k in ("gopts", "form", "mode_token"):
            if k in case:
                brief[k] = case[k]
        err = obs.get("err")
        if err is not None and (err.startswith("exc:") or err == "ParseError:?"):
            return [dict(what="unexpected exception while applying the function", err=err, msg=obs.get("msg"), **brief)]
        calls = obs["calls"]
        fails = []
        sources = set(self._candidate_strings(case))
        real = case.get("ns") == "real"
        values = [real_value(x) for x in sources if x in G.REAL_EVALUABLE] if real else []
        for b in calls:
            vals = []
            for k, v in b.items():
                if k == "*":
                    vals.extend(v)
                elif k == "**":
                    vals.extend(x for _, x in v)
                else:
                    vals.append(v)
            for v in vals:
                if real and v[0] != "default":
                    if not ((v[0] == "raw" and v[1] in sources) or (mode != "string" and v in values)):
                        fails.append(dict(what="delivered value is neither an original argument string nor the value "
                                               "of one", value=v, **brief))
                elif v[0] == "other":
                    fails.append(dict(what="delivered value is neither an argument string, an evaluation nor a default",
                                      value=v, **brief))
                elif v[0] in ("raw", "eval") and v[1] not in sources:
                    fails.append(dict(what="delivered string is not an original argument string", value=v, **brief))
                elif v[0] == "eval" and mode == "string":
                    fails.append(dict(what="string mode evaluated an argument", value=v, **brief))
        if mode == "string" and obs["log"]:
            fails.append(dict(what="string mode called the evaluator", log=obs["log"][:5], **brief))
        if fails:
            return fails[:3]
        view = self._apply_view(case)
        opaque = case["ckind"] not in G.CKINDS_TRANSPARENT
        if case["route"] == "map":
            return self._oracle_apply_map(case, obs, view, brief)
        if len(calls) > 1:
            return [dict(what="the function was called more than once", ncalls=len(calls), **brief)]
        if err is None and not calls:
            return [dict(what="the function was neither called nor the command line rejected", **brief)]
        if calls and "--" in argv:
            rest = [["raw", x] for x in argv[argv.index("--") + 1:]]
            a = [calls[0][p] for p in sig["args"]] + list(calls[0].get("*", []))
            if rest and not any(a[i:i + len(rest)] == rest for i in range(len(a) - len(rest) + 1)):
                return [dict(what="arguments after `--` did not arrive as the exact strings, in order",
                             got=a, want=rest, **brief)]
        fails = self._judge_apply(case, obs, view, opaque, brief)
        if fails and opaque and not self._judge_apply(case, obs, sig, False, brief):
            # a callable `py` cannot look into: behaving as if it could (names and unique prefixes resolved against
            # the real parameters, the parser's own rejections) is what the statement says, so that is accepted too
            return []
        return fails

    def _judge_apply(self, case, obs, view, opaque, brief):
        calls, err = obs["calls"], obs.get("err")
        fails = []
        exp = self._expected(case, view=view)
        if exp is None:
            return []
        problems, optional, want = exp
        if opaque and problems and not any(p.startswith("harness:") for p in problems):
            problems = {"callTypeError"}        # the call itself is the only judge `py` has
        if problems:
            if calls:
                fails.append(dict(what="command line accepted although it must be rejected", reasons=sorted(problems),
                                  got=calls[0], **brief))
            elif err not in problems and err not in optional:
                fails.append(dict(what="rejected for a reason that is not present", reasons=sorted(problems), err=err,
                                  msg=obs.get("msg"), **brief))
            return fails
        if not calls:
            if err in optional:
                return []
            return [dict(what="valid command line rejected", err=err, msg=obs.get("msg"), **brief)]
        got = calls[0]
        for k in sorted(set(want) | set(got)):
            if not self._accept(want.get(k), got.get(k)):
                fails.append(dict(what="binding differs from the equivalent Python call", param=k,
                                  got=got.get(k), want=want.get(k), **brief))
        order = self._expected_kworder(case, view=view) if not opaque else None
        if not fails and order is not None and obs.get("kworders") and obs["kworders"][0] != order:
            fails.append(dict(what=self.KWORDER_WHAT, got=obs["kworders"][0], want=order, **brief))
        return fails[:3]

    @staticmethod
    def _map_pseudo(case, s, literal=None):
        if literal is None:
            literal = case["map_literal"]
        items = [["dd", [s]]] if literal else [["pos", s]]
        return dict(case, items=items, argv=G.render(items))

    @staticmethod
    def _map_model_argvs(case, fixed):
        """The argv of each `apply` that --map performs.  Tree as it stands: `--` is the separator only as the first
        argument, elsewhere it is one more argument (a call without arguments) and what follows is read in the
        current mode; with fixes/C15-H1.diff everything after the first `--` is literal."""
        argv = list(case["argv"])
        if argv and argv[0] == "--":
            return [["--", a] for a in argv[1:]]
        if not fixed or "--" not in argv:
            return [[a] for a in argv]
        i = argv.index("--")
        return [[a] for a in argv[:i]] + [["--", a] for a in argv[i + 1:]]

    def _oracle_apply_map(self, case, obs, view, brief):
        """`py --map f a b c` is f(a); f(b); f(c), each argument read in the current mode; `--map f -- a b c` the same
        with the exact strings."""
        calls, err = obs["calls"], obs.get("err")
        for i, (s, literal) in enumerate(G.map_steps(case)):
            exp = self._expected(self._map_pseudo(case, s, literal), view=view)
            if exp is None:
                return []
            problems, optional, want = exp
            if problems:
                return []       # not generated (the signature takes one positional argument)
            if i >= len(calls):
                if err is not None and err in optional:
                    return []
                return [dict(what="--map: an argument did not reach the function", index=i, arg=s[:200], err=err,
                             msg=obs.get("msg"), ncalls=len(calls), **brief)]
            got = calls[i]
            for k in sorted(set(want) | set(got)):
                if not self._accept(want.get(k), got.get(k)):
                    return [dict(what="binding differs from the equivalent Python call", index=i, param=k,
                                 got=got.get(k), want=want.get(k), **brief)]
        if len(calls) > len(case["map_args"]):
            return [dict(what="--map: more calls than arguments", ncalls=len(calls), **brief)]
        if err is not None:
            return [dict(what="valid command line rejected", err=err, msg=obs.get("msg"), **brief)]
        return []

    def _oracle_subproc_auto(self, case, obs):
        """Real `py` in automatic mode calling f(*rest, **kw): an argument that cannot be evaluated (not an expression
        by either reading, or compile() gives up on it) must arrive as the original string; the harmless evaluable
        neighbours may arrive as anything."""
        brief = dict(argv=case["argv"], gopts=case["gopts"], via=case["via"], mode="auto")
        pos, kw = [], {}
        for it in case["items"]:
            if it[0] == "pos":
                pos.append((it[1], False))
            elif it[0] == "dd":
                pos.extend((x, True) for x in it[1])
            elif it[0] == "opt":
                kw[it[2]] = (it[3], False)
        if "ok" not in obs:
            return [dict(what="valid command line rejected", err=obs.get("err"), msg=(obs.get("msg") or "")[-300:],
                         **brief)]
        fails = []
        got_pos = obs["call"].get("*", [])
        got_kw = dict((k, v) for k, v in obs["call"].get("**", []))

        def check(where, s, literal, got):
            impossible = (literal or is_blank(s) or compile_raises(s) or exprability(s) == "no"
                          or s in G.REAL_UNIMPORTABLE)
            if got is None:
                fails.append(dict(what="argument did not arrive", where=where, want=s[:200], **brief))
            elif impossible and got != ["raw", s]:
                fails.append(dict(what="argument that cannot be evaluated did not arrive as the original string",
                                  where=where, got=[got[0], got[1][:200]], want=s[:200], **brief))
        if len(got_pos) != len(pos):
            fails.append(dict(what="number of positional arguments differs", got=len(got_pos), want=len(pos), **brief))
        else:
            for i, ((s, lit), g) in enumerate(zip(pos, got_pos)):
                check("positional %d" % i, s, lit, g)
        if sorted(got_kw) != sorted(kw):
            fails.append(dict(what="keyword arguments differ", got=sorted(got_kw), want=sorted(kw), **brief))
        else:
            for k, (s, lit) in kw.items():
                check("--" + k, s, lit, got_kw.get(k))
        return fails[:3]

    def _oracle_gopts(self, case, obs):
        if obs.get("err", "").startswith("exc:"):
            return [dict(what="unexpected exception from the global option parser", err=obs["err"], msg=obs.get("msg"),
                         argv=case["argv"])]
        it = case.get("intent")
        if it is None:
            return []
        if "ok" not in obs:
            return [dict(what="valid global options rejected", argv=case["argv"], msg=obs.get("msg"))]
        fails = []
        if obs["ok"]["mode"] != it["mode"]:
            fails.append(dict(what="argument mode differs from the one the options ask for", argv=case["argv"],
                              got=obs["ok"]["mode"], want=it["mode"]))
        if obs["ok"]["rest"] != it["rest"]:
            fails.append(dict(what="command and its arguments altered by global option parsing", argv=case["argv"],
                              got=obs["ok"]["rest"], want=it["rest"]))
        return fails

    def _oracle_parse(self, case, obs):
        fails = []
        sig, argv, mode = case["sig"], case["argv"], case["mode"]
        brief = dict(sig=sig, argv=argv, mode=mode)
        err = obs.get("err")
        if err is not None and (err.startswith("exc:") or err == "ParseError:?"):
            return [dict(what="unexpected exception from the argument parser", err=err, msg=obs.get("msg"), **brief)]
        # ---- generic clauses (any command line) ----
        if "ok" in obs:
            delivered = list(obs["ok"]["args"]) + [v for _, v in obs["ok"]["kwargs"]]
            sources = set(self._candidate_strings(case))
            for v in delivered:
                if v[0] == "other":
                    fails.append(dict(what="delivered value is neither an argument string, an evaluation nor a default",
                                      value=v, **brief))
                elif v[0] in ("raw", "eval") and v[1] not in sources:
                    fails.append(dict(what="delivered string is not an original argument string", value=v, **brief))
                elif v[0] == "eval" and mode == "string":
                    fails.append(dict(what="string mode evaluated an argument", value=v, **brief))
            if mode == "string" and obs["log"]:
                fails.append(dict(what="string mode called the evaluator", log=obs["log"][:5], **brief))
            if "call_err" in obs:
                fails.append(dict(what="delivered (args, kwargs) is not a valid call of the function",
                                  err=obs["call_err"], **brief))
            if "--" in argv:
                # a successful parse means the first `--` was the separator (it can never be an option's value)
                rest = [["raw", s] for s in argv[argv.index("--") + 1:]]
                a = obs["ok"]["args"]
                if rest and not any(a[i:i + len(rest)] == rest for i in range(len(a) - len(rest) + 1)):
                    fails.append(dict(what="arguments after `--` did not arrive as the exact strings, in order",
                                      got=a, want=rest, **brief))
        if fails:
            return fails[:3]
        # ---- the equivalent Python call (structured command lines only) ----
        exp = self._expected(case)
        if exp is None:
            return []
        problems, optional, want = exp
        if err == "ambiguous" and "ambiguous" not in problems:
            ex = self._exact_prefix_names(case)
            if ex:
                return [dict(what="option naming a parameter exactly rejected as ambiguous", names=ex,
                             msg=obs.get("msg"), **brief)]
        if problems:
            if "ok" in obs:
                fails.append(dict(what="command line accepted although it must be rejected", reasons=sorted(problems),
                                  got=obs["ok"], **brief))
            elif err not in problems and err not in optional:
                fails.append(dict(what="rejected for a reason that is not present", reasons=sorted(problems), err=err,
                                  msg=obs.get("msg"), **brief))
            return fails
        if "ok" not in obs:
            if err in optional:
                return []
            return [dict(what="valid command line rejected", err=err, msg=obs.get("msg"), **brief)]
        got = obs["call"]
        for k in sorted(set(want) | set(got)):
            if not self._accept(want.get(k), got.get(k)):
                fails.append(dict(what="binding differs from the equivalent Python call", param=k,
                                  got=got.get(k), want=want.get(k), **brief))
        order = self._expected_kworder(case)
        if not fails and order is not None and "kworder" in obs and obs["kworder"] != order:
            fails.append(dict(what=self.KWORDER_WHAT, got=obs["kworder"], want=order, **brief))
        return fails[:3]

    @staticmethod
    def _accept(want, got):
        # want: ["one", [acceptable canonical values]] | list of such (varargs) | sorted [name, one] pairs (varkw)
        if want is None or got is None:
            return False
        if want and want[0] == "one":
            return got in want[1]
        if len(want) != len(got):
            return False
        for w, g in zip(want, got):
            if w and w[0] == "one":
                if g not in w[1]:
                    return False
            else:
                if w[0] != g[0] or g[1] not in w[1][1]:
                    return False
        return True

    @staticmethod
    def _resolve(sig, name):
        names = list(sig["args"]) + list(sig["kwonly"])
        if name in names:
            return name
        c = [n for n in names if n.startswith(name)]
        if len(c) == 1:
            return c[0]
        if len(c) > 1:
            return "!ambiguous"
        return name if sig["varkw"] else "!unknownOption"

    def _expected_kworder(self, case, view=None):
        """H3: the names collected by **kw in the order of the equivalent Python keyword call (PEP 468), or None when
        that is not defined (an extra name typed twice) / the command line is outside the documented forms."""
        view = view or case["sig"]
        if not view["varkw"] or case.get("items") is None:
            return None
        order = []
        for it in case["items"]:
            if it[0] == "opt":
                t = self._resolve(view, it[2].replace("-", "_"))
                if t.startswith("!"):
                    return None
                if t not in G.sig_names(view):
                    if t in order:
                        return None
                    order.append(t)
        return order

    KWORDER_WHAT = "options collected by ** arrive in another order than in the equivalent Python keyword call"

    def _exact_prefix_names(self, case):
        names = list(case["sig"]["args"]) + list(case["sig"]["kwonly"])
        out = []
        for it in case.get("items") or []:
            if it[0] == "opt":
                n = it[2].replace("-", "_")
                if n in names and any(m != n and m.startswith(n) for m in names):
                    out.append(n)
        return sorted(set(out))

    def _expected(self, case, view=None):
        """(problems, expected bound arguments) of the equivalent Python call, or None when the command line is
        outside the documented forms (then only the generic clauses are demanded).  `view`: the parameters an option
        name can be resolved against (default: the signature; for callables `py` cannot look into, none — the name
        is passed on as typed and the call must take it)."""
        items = case.get("items")
        if items is None or G.render(items) != case["argv"]:
            return None
        sig, mode = case["sig"], case["mode"]
        view = view or sig
        unimportable, evalerr = set(case.get("unimportable", ())), set(case.get("evalerr", ()))
        problems = set()

        class Exp:
            def __init__(self, acc, err=False):
                self.acc, self.err = acc, err

        real = case.get("ns") == "real"

        def expect(s, literal):
            if literal or mode == "string":
                return Exp([["raw", s]])
            if real:
                # the real evaluator (automatic mode): plain Python says what the text is worth
                if s in G.REAL_EVALUABLE:
                    return Exp([real_value(s)])
                return Exp([["raw", s]])
            if mode == "eval":
                # the statement says nothing about what eval mode does with a string that cannot be evaluated:
                # rejecting is accepted, delivering anything but the evaluation is not
                return Exp([["eval", s]], err=(is_blank(s) or s in unimportable or s in evalerr))
            if is_blank(s):
                return Exp([["raw", s]])
            e = exprability(s)
            if e == "no":
                return Exp([["raw", s]])
            if s in unimportable:
                return Exp([["raw", s]])
            if s in evalerr:
                # evaluation raised: the code rejects the call; falling back to the string would also satisfy
                # "the value of evaluating it or, when that is impossible, the original string"
                return Exp([["raw", s]], err=True)
            return Exp([["eval", s]] + ([["raw", s]] if e == "maybe" else []))

        pos, kw = [], {}
        stdin_left = case.get("stdin", "")
        for idx, it in enumerate(items):
            if it[0] == "pos":
                s = it[1]
                if s.startswith("-") or s in G.HELP_TOKENS:
                    return None
                pos.append(expect(s, False))
            elif it[0] == "stdin":
                pos.append(expect(stdin_left, True))
                stdin_left = ""
            elif it[0] == "dd":
                if idx != len(items) - 1:
                    return None
                pos.extend(expect(s, True) for s in it[1])
            elif it[0] == "opt":
                form, typed, value = it[1], it[2], it[3]
                if "=" in typed:
                    return None
                if form.startswith("-k") and typed.startswith("-"):
                    return None     # would read as a `--` form / the separator
                name = typed.replace("-", "_")
                if not py_is_identifier(name):
                    return None
                # (H2: `--name=` with nothing after the `=` is the form --name=value with the empty string)
                if form.endswith(" v") and (value.startswith("--")):
                    return None
                target = self._resolve(view, name)
                if target.startswith("!"):
                    if form.endswith(" v") and name in ("help", "h", "source") and target == "!unknownOption":
                        return None
                    problems.add(target[1:])
                    continue
                if target == name and name in ("help", "h", "source") and form.endswith(" v") \
                        and name not in G.sig_names(view):
                    return None     # bare --help/--h/--source not naming a parameter: the help request
                kw[target] = expect(value, False)
            else:
                return None
        # every reason for rejection that is present (Python's own binder reports only the first one)
        nargs = len(sig["args"])
        if len(pos) > nargs and not sig["varargs"]:
            problems.add("tooManyPos")
        for i, a in enumerate(sig["args"]):
            if i < len(pos):
                if a in kw:
                    problems.add("bothPosKw")
            elif a not in kw and i < nargs - sig["ndefaults"]:
                problems.add("missingRequired")
        for a in sig["kwonly"]:
            if a not in kw and a not in sig["kwdefaults"]:
                problems.add("missingRequiredKw")
        if not sig["varkw"] and any(k not in G.sig_names(sig) for k in kw):
            problems.add("unexpectedKw")        # only with a `view` other than the signature
        optional = set()
        for e2 in pos + list(kw.values()):
            if e2.err:
                optional.add("evalError")
        f, _ = build_function(sig)
        try:
            ba = inspect.signature(f).bind(*pos, **kw)
            bind_ok = True
        except TypeError as e:
            bind_ok = False
            bind_msg = str(e)
        structural = problems & {"tooManyPos", "bothPosKw", "missingRequired", "missingRequiredKw", "unexpectedKw"}
        if not any(p in ("ambiguous", "unknownOption") for p in problems) and bind_ok != (not structural):
            return {"harness:inspect.bind disagrees with the oracle's problem list"}, optional, None
        if problems:
            return problems, optional, None
        ba.apply_defaults()

        def one(v, name=None):
            if isinstance(v, Exp):
                return ["one", v.acc]
            return ["one", [canon_param(sig, name, v) if name is not None else canon_val(v)]]
        want = {}
        for a in list(sig["args"]) + list(sig["kwonly"]):
            want[a] = one(ba.arguments[a], a)
        if sig["varargs"]:
            want["*"] = [one(v) for v in ba.arguments.get(sig["varargs"], ())]
        if sig["varkw"]:
            want["**"] = sorted([k, one(v)] for k, v in ba.arguments.get(sig["varkw"], {}).items())
        return problems, optional, want

    # -- model ---------------------------------------------------------------
    _d16_fixed = None

    @classmethod
    def d16_fixed(cls):
        """The model follows the tree: known_findings/C15.json says whether fixes/C15-D16.diff is applied."""
        if cls._d16_fixed is None:
            cls._d16_fixed = False
            ov = os.environ.get("VERIF_C15_D16")      # dev aid: "fixed" / "finding" overrides the file
            if ov in ("fixed", "finding"):
                cls._d16_fixed = ov == "fixed"
                return cls._d16_fixed
            try:
                for e in json.load(open(os.path.join(VERIF, "known_findings", "C15.json"))):
                    if e.get("id") == "D16" and e.get("status") == "fixed":
                        cls._d16_fixed = True
            except Exception:
                pass
        return cls._d16_fixed

    @staticmethod
    def _craises(obs, var):
        """Env.compileRaises: text on which compile() gives up — at the parsing stage with something other than a
        SyntaxError (every tree), and on a tree with fixes/C15-H4.diff also at the code stage with anything."""
        out = list(obs.get("compile_raises", []))
        if var.get("compile_first"):
            out += [x for x in obs.get("compile_fails", []) if x not in out]
        return out

    @staticmethod
    def _spec_json(sig):
        return dict(args=sig["args"], ndefaults=sig["ndefaults"], varargs=bool(sig["varargs"]), kwonly=sig["kwonly"],
                    kwdefaults=sig["kwdefaults"], varkw=bool(sig["varkw"]))

    @staticmethod
    def _nonascii_idents(argv):
        idents = set()
        for a in argv:
            if a.startswith("-") and not a.isascii():
                for body in (a[1:], a[2:]):
                    n = body.partition("=")[0].replace("-", "_")
                    if not n.isascii() and py_is_identifier(n):
                        idents.add(n)
        return sorted(idents)

    @staticmethod
    def _call_with_delivery(sig, ok, real=False):
        """What the real function of this signature receives from the model's delivery (canonical values), or None
        when the call itself refuses it."""
        f, _ = build_function(sig)
        if real:
            def tr(v):
                return real_value(v[1]) if v[0] == "eval" and v[1] in G.REAL_EVALUABLE else v
            ok = dict(args=[tr(v) for v in ok["args"]], kwargs=[[k, tr(v)] for k, v in ok["kwargs"]])
        try:
            b = f(*ok["args"], **{k: v for k, v in ok["kwargs"]})
        except TypeError:
            return None

        def cv(v, name=None):
            if isinstance(v, list):
                return v
            return canon_param(sig, name, v) if name is not None else canon_val(v)
        out = {}
        for a in list(sig["args"]) + list(sig["kwonly"]):
            out[a] = cv(b[a], a)
        if sig["varargs"]:
            out["*"] = [cv(v) for v in b.get(sig["varargs"], ())]
        if sig["varkw"]:
            out["**"] = sorted([k, cv(v)] for k, v in b.get(sig["varkw"], {}).items())
        return out

    def _compare_apply(self, case, obs, resps):
        sig = case["sig"]
        calls, oerr = obs["calls"], obs.get("err")
        for i, r0 in enumerate(resps):
            r = _map_obj(r0, _dec_str)
            if "ok" in r:
                b = self._call_with_delivery(sig, r["ok"], real=case.get("ns") == "real")
                merr = None if b is not None else "callTypeError"
            else:
                b, merr = None, ("wantHelp" if r.get("err") == "wantSource" else r.get("err"))
            if merr is not None:
                if len(calls) != i or oerr != merr:
                    return "step %d: model %s, impl calls=%d err=%s (%s)" % (i, merr, len(calls), oerr, obs.get("msg"))
                return None
            if i >= len(calls):
                return "step %d: model delivers %s, impl calls=%d err=%s (%s)" % (
                    i, json.dumps(b)[:300], len(calls), oerr, obs.get("msg"))
            if calls[i] != b:
                return "step %d: impl=%s model=%s" % (i, json.dumps(calls[i])[:300], json.dumps(b)[:300])
        if len(calls) != len(resps) or oerr is not None:
            return "model: %d calls and no error, impl calls=%d err=%s (%s)" % (len(resps), len(calls), oerr,
                                                                               obs.get("msg"))
        return None

    def model_requests(self, case, obs):
        kind = case.get("kind", "parse")
        if kind in ("parse", "subproc"):
            idents = set()
            for a in case["argv"]:
                if a.startswith("-") and not a.isascii():
                    for body in (a[1:], a[2:]):
                        n = body.partition("=")[0].replace("-", "_")
                        if not n.isascii() and py_is_identifier(n):
                            idents.add(n)
            var = obs.get("variants") or {}
            return [_map_obj(dict(op="parse", spec=self._spec_json(case["sig"]), argv=case["argv"],
                                  stdin=case.get("stdin", ""), mode=case["mode"], idents=sorted(idents),
                                  parsable=obs.get("parsable", []), compileRaises=self._craises(obs, var),
                                  unimportable=case.get("unimportable", []), evalerr=case.get("evalerr", []),
                                  exactFirst=self.d16_fixed(), eqValue=bool(var.get("eq_value"))), _enc_str)]
        if kind == "apply":
            # auto_apply on a callable = _parse_auto_apply_args on what `py` can see of its parameters (the signature
            # without the bound first parameter, or (*args, **kwargs) for a callable it cannot look into), then the
            # call; the harness states that view itself (it does not ask _get_argspec)
            view = self._apply_view(case)
            var = obs.get("variants") or {}
            argvs = [case["argv"]]
            if case["route"] == "map":
                argvs = self._map_model_argvs(case, bool(var.get("map_dd")))
            evalerr = list(case.get("evalerr", []))
            if case.get("ns") == "real" and not var.get("compile_first"):
                # tree without fixes/C15-H4.diff, real evaluator: compile() raises inside auto_eval -> the call is
                # rejected (after the import check: an unimportable name still gives the string)
                evalerr += [x for x in obs.get("compile_fails", []) if x not in case.get("unimportable", [])]
            return [_map_obj(dict(op="parse", spec=self._spec_json(view), argv=av, stdin=case.get("stdin", ""),
                                  mode=case["mode"], idents=self._nonascii_idents(av),
                                  parsable=obs.get("parsable", []), compileRaises=self._craises(obs, var),
                                  unimportable=case.get("unimportable", []), evalerr=evalerr,
                                  exactFirst=self.d16_fixed(), eqValue=bool(var.get("eq_value"))), _enc_str)
                    for av in argvs]
        if kind == "bind":
            return [dict(op="bind", spec=self._spec_json(case["sig"]), pos=["p%d" % i for i in range(case["npos"])],
                         kw=case["kw"])]
        if kind == "gopts":
            return [dict(op="gopts", argv=[_enc_str(a) for a in case["argv"]])]
        return []

    def compare(self, case, obs, resps):
        kind = case.get("kind", "parse")
        if kind == "apply":
            return self._compare_apply(case, obs, resps)
        r = _map_obj(resps[0], _dec_str)
        if kind in ("parse", "subproc"):
            if "err" in obs:
                me = r.get("err")
                if kind == "subproc" and me == "wantSource":
                    me = "wantHelp"
                if me != obs["err"]:
                    return "impl raised %s (%s), model: %s" % (obs["err"], obs.get("msg"), json.dumps(r)[:300])
                return None
            if "ok" not in r:
                return "impl delivered %s, model error %s" % (json.dumps(obs["ok"])[:300], r.get("err"))
            if r.get("binds") is not True:
                return "model: delivered call does not bind (%s)" % (r.get("binds"),)
            if r["ok"]["args"] != obs["ok"]["args"]:
                return "args: impl=%s model=%s" % (json.dumps(obs["ok"]["args"])[:300], json.dumps(r["ok"]["args"])[:300])
            if sorted(r["ok"]["kwargs"]) != sorted(obs["ok"]["kwargs"]):
                return "kwargs: impl=%s model=%s" % (json.dumps(obs["ok"]["kwargs"])[:300],
                                                     json.dumps(r["ok"]["kwargs"])[:300])
            return None
        if kind == "bind":
            if "err" in obs:
                return None if "err" in r else "CPython rejects the call (%s), pyBind binds" % (obs.get("msg"),)
            if "err" in r:
                return "CPython binds, pyBind: %s" % (r["err"],)
            m = dict(r["ok"])
            m["starstar"] = sorted(m["starstar"])
            if m != obs["ok"]:
                return "binding: CPython=%s pyBind=%s" % (json.dumps(obs["ok"])[:300], json.dumps(m)[:300])
            return None
        if kind == "gopts":
            if "err" in obs:
                return None if r.get("err") == obs["err"] else "impl %s, model %s" % (obs, json.dumps(r)[:200])
            if "ok" not in r or r["ok"] != obs["ok"]:
                return "impl %s, model %s" % (json.dumps(obs["ok"])[:200], json.dumps(r)[:200])
            return None
        return None

    # -- bookkeeping ---------------------------------------------------------
    def nontrivial_key(self, case, obs):
        kind = case.get("kind", "parse")
        if kind in ("parse", "subproc", "subproc_auto") and len(case["argv"]) >= 1:
            return json.dumps([kind, case["sig"], case["argv"], case["mode"]], sort_keys=True)
        if kind == "apply" and len(case["argv"]) >= 1:
            return json.dumps([kind, case["ckind"], case["route"], case["sig"], case["argv"], case["mode"],
                               case.get("ns")], sort_keys=True)
        if kind == "bind" and (case["npos"] or case["kw"]):
            return json.dumps([kind, case["sig"], case["npos"], case["kw"]], sort_keys=True)
        if kind == "gopts" and case["argv"]:
            return json.dumps([kind, case["argv"]])
        return None

    def sample_repr(self, case, obs):
        return dict(sig=case.get("sig"), argv=case.get("argv"), mode=case.get("mode"),
                    result=obs.get("ok") or obs.get("err") or obs.get("calls"))

    def stats(self, case, obs, acc):
        def inc(k):
            acc[k] = acc.get(k, 0) + 1
        inc("cases_from_" + case.get("_src", "?"))
        inc("kind_" + case.get("kind", "parse"))
        if case.get("kind") == "apply":
            inc("apply_ns_" + case.get("ns", "stub"))
            inc("apply_kind_" + case["ckind"])
            inc("apply_route_" + case["route"])
            inc("apply_mode_" + case["mode"])
            inc("apply_result_" + (obs.get("err") or "called"))
            return
        if case.get("kind", "parse") not in ("parse", "subproc", "subproc_auto"):
            inc(case["kind"] + "_" + ("ok" if "ok" in obs else "err"))
            return
        inc("mode_" + case["mode"])
        inc("result_" + ("ok" if "ok" in obs else obs.get("err", "?")))
        inc("argv_len_%s" % (min(len(case["argv"]), 6),))
        inc("cmdline_" + ("structured" if case.get("items") is not None else "soup"))
        if obs.get("compile_raises"):
            inc("argv_compile_gives_up")
        if any(0xD800 <= ord(c) <= 0xDFFF for a in case["argv"] for c in a):
            inc("argv_lone_surrogate")
        if any(len(a) >= 5000 for a in case["argv"]):
            inc("argv_token_5k_chars")
        if any(ord(c) < 32 and c not in "\t\n" for a in case["argv"] for c in a):
            inc("argv_control_char")
        sig = case["sig"]
        for k, c in (("sig_varargs", sig["varargs"]), ("sig_varkw", sig["varkw"]), ("sig_kwonly", sig["kwonly"]),
                     ("sig_defaults", sig["ndefaults"]),
                     ("sig_shared_prefix", any(a != b and b.startswith(a) for a in G.sig_names(sig) for b in G.sig_names(sig))),
                     ("argv_dashdash", "--" in case["argv"]), ("argv_stdin", "-" in case["argv"])):
            if c:
                inc(k)

    def _fam_d16(case, failure):
        return (failure.get("what") == "option naming a parameter exactly rejected as ambiguous"
                and bool(failure.get("names")))

    _STRUCT_WHATS = ("valid command line rejected", "binding differs from the equivalent Python call",
                     "command line accepted although it must be rejected", "rejected for a reason that is not present")

    def _fam_h1(case, failure):
        """--map with the `--` after at least one argument"""
        return (case.get("kind") == "apply" and case.get("route") == "map" and (G.map_dd(case) or 0) > 0
                and failure.get("what") in ("--map: an argument did not reach the function",
                                            "--map: more calls than arguments", "valid command line rejected",
                                            "binding differs from the equivalent Python call",
                                            "the function was called more than once"))

    def _fam_h2(case, failure):
        """an option written --name= / -name= with nothing after the `=`, judged by the equivalent-call clauses"""
        return (failure.get("what") in C15._STRUCT_WHATS
                and any(it[0] == "opt" and it[1].endswith("=v") and it[3] == "" for it in case.get("items") or []))

    def _fam_h3(case, failure):
        return failure.get("what") == C15.KWORDER_WHAT and sorted(failure.get("got") or []) == sorted(failure.get("want") or [])

    def _fam_h4(case, failure):
        """automatic mode, an argument the grammar accepts and the compiler rejects: evaluated by the stub / traceback
        with the real evaluator, instead of arriving as the string"""
        if case.get("mode") != "auto":
            return False
        rej = [x for x in C15._candidate_strings(case) if compile_rejected(x)]
        if not rej:
            return False
        what = failure.get("what")
        if what == "binding differs from the equivalent Python call":
            got = failure.get("got")
            flat = [got] if got and isinstance(got[0], str) else [(g[1] if isinstance(g[0], str) and len(g) == 2 and
                                                                   isinstance(g[1], list) else g) for g in (got or [])]
            return any(g[0] == "eval" and g[1] in rej for g in flat if g)
        if what in ("valid command line rejected", "unexpected exception while applying the function",
                    "--map: an argument did not reach the function", "rejected for a reason that is not present"):
            msg = failure.get("msg") or ""
            # (the stub evaluator told to raise on that very string: it must not have been reached at all)
            return "SyntaxError" in msg or ("stub: evaluation error" in msg and any(x in msg for x in rej))
        return False

    families = {"exact_name_is_prefix_of_another_parameter": _fam_d16,
                "map_dashdash_not_first": _fam_h1,
                "option_with_empty_value_after_equals": _fam_h2,
                "starstar_kwargs_reordered": _fam_h3,
                "auto_mode_compiler_rejects_expression": _fam_h4}


PROP = C15()
