"""C19 — Export lists and star-import replacements are exact and importable."""
from __future__ import annotations

import ast
import base64
import importlib
import json
import os
import re
import shutil
import subprocess
import sys
import tempfile

from vcommon import Prop, REPO
import gen_c19

# ----------------------------------------------------------------------------------------------
# CPython reference probe: runs in a fresh interpreter (-I -S), reads one JSON object on stdin.
# ----------------------------------------------------------------------------------------------
PROBE = r'''
import sys, json, types, importlib, io
inp = json.load(sys.stdin)
_real_stdout = sys.stdout
sys.stdout = io.StringIO()        # whatever the modules / the program print must not mix with the JSON answer
sys.path.insert(0, inp["path"])
sys.dont_write_bytecode = True
out = {"targets": {}}
def short(e):
    return type(e).__name__ + ": " + str(e)[:120]
for t in inp["targets"]:
    d = {}
    ns = {}
    try:
        exec("from %s import *" % t, ns)
        ns.pop("__builtins__", None)
        d["star"] = sorted(ns)
    except BaseException as e:
        d["star_err"] = short(e)
    try:
        m = importlib.import_module(t)
        d["import_ok"] = True
        if hasattr(m, "__all__"):
            try:
                d["all"] = [x if isinstance(x, str) else None for x in list(m.__all__)]
            except BaseException as e:
                d["all"] = "uniterable"
    except BaseException as e:
        d["import_ok"] = False
        d["import_err"] = short(e)
    out["targets"][t] = d
out["stars"] = {}
for t in inp.get("star_only", []):
    ns = {}
    try:
        exec("from %s import *" % t, ns)
        ns.pop("__builtins__", None)
        out["stars"][t] = sorted(ns)
    except BaseException as e:
        out["stars"][t] = None
def runp(text):
    ns = {"__name__": "__c19prog__"}
    try:
        exec(compile(text, "<prog>", "exec"), ns)
        return ns, None
    except BaseException as e:
        return ns, short(e)
prog = {}
if inp.get("orig") is not None:
    ns1, e1 = runp(inp["orig"])
    prog["orig_err"] = e1
    if inp.get("new") is not None:
        ns2, e2 = runp(inp["new"])
        prog["new_err"] = e2
        same = {}
        for r in inp["reads"]:
            if r not in ns1:
                same[r] = "orig-unbound"
            elif r not in ns2:
                same[r] = "new-unbound"
            else:
                same[r] = "same" if ns1[r] is ns2[r] else "different"
        prog["same"] = same
out["program"] = prog
for t in inp["targets"]:
    fi = {}
    for n in inp["names"].get(t, []):
        ns = {}
        try:
            exec("from %s import %s" % (t, n), ns)
            fi[n] = "module" if isinstance(ns[n], types.ModuleType) else "ok"
        except BaseException as e:
            fi[n] = "err:" + type(e).__name__
    out["targets"][t]["from_import"] = fi
json.dump(out, _real_stdout)
'''


def cpython_probe(path, targets, names, orig, new, reads, star_only=()):
    inp = dict(path=path, targets=targets, names=names, orig=orig, new=new, reads=reads, star_only=list(star_only))
    p = subprocess.run([sys.executable, "-I", "-S", "-c", PROBE], input=json.dumps(inp), text=True,
                       stdout=subprocess.PIPE, stderr=subprocess.PIPE, timeout=60, cwd=path)
    if p.returncode != 0:
        raise RuntimeError("probe failed: " + p.stderr[-400:])
    return json.loads(p.stdout)


# ----------------------------------------------------------------------------------------------
# The oracle's own reading of a module source (stdlib ast only; independent of pyflyby and of Lean)
# ----------------------------------------------------------------------------------------------

def _target_names(t, out, top=True):
    """names bound by an assignment target; kind 'assign' for a plain name, 'tuple' inside a pattern"""
    if isinstance(t, ast.Name):
        out.append((t.id, "assign" if top else "tuple"))
    elif isinstance(t, (ast.Tuple, ast.List)):
        for e in t.elts:
            _target_names(e, out, False)
    elif isinstance(t, ast.Starred):
        _target_names(t.value, out, False)


def _nested_bindings(node, out):
    """every name a nested (non-def, non-class) statement can bind at module scope"""
    for n in ast.iter_child_nodes(node):
        if isinstance(n, (ast.FunctionDef, ast.AsyncFunctionDef, ast.ClassDef)):
            out.add(n.name)
            continue
        if isinstance(n, ast.Lambda):
            continue
        if isinstance(n, ast.Name) and isinstance(n.ctx, ast.Store):
            out.add(n.id)
        elif isinstance(n, ast.alias):
            if n.name != "*":
                out.add(n.asname or n.name.split(".")[0])
        elif isinstance(n, ast.ExceptHandler) and n.name:
            out.add(n.name)
        _nested_bindings(n, out)


def _is_str_display(v):
    return isinstance(v, (ast.List, ast.Tuple)) and all(
        isinstance(e, ast.Constant) and type(e.value) is str for e in v.elts)


def resolve_from(modname, is_init, level, module):
    """absolute name of the module a `from` statement in `modname` reads, or None"""
    if level == 0:
        return module
    parts = modname.split(".")
    base = parts if is_init else parts[:-1]
    up = level - 1
    if up > len(base) or (up == len(base) and not base):
        return None
    base = base[:len(base) - up] if up else base
    if not base:
        return None
    return ".".join(base + ([module] if module else []))


def analyze_module(src, modname, is_init, modules):
    """
    modules: set of dotted names of modules/packages that exist in the universe.
    Returns dict(kinds: name -> sorted list of binding kinds, all: None | ["lit", entries, by_ann] | ["dyn"],
                 star_own: bool)
    kinds: def async class assign tuple ann import_own submodule own_star self_import import_foreign cond
    """
    tree = ast.parse(src)
    kinds = {}

    # names whose latest top-level event is a `del` ... through a parenthesised tuple / list target (CD-E) / of a name
    # that an own-package `from` import had bound (CD-D); a later binding that makes the name an export clears the mark
    deleted_nested = set()
    deleted_reexport = set()

    def add(n, k):
        kinds.setdefault(n, set()).add(k)
        if k in ("def", "async", "class", "assign", "tuple", "ann", "typealias", "import_own", "self_import"):
            # (a later foreign import / conditional binding does not make the name an export: the mark stays)
            deleted_nested.discard(n)
            deleted_reexport.discard(n)
    allst = None
    star_own = False
    own_star_mods = []
    alias_clash = set()
    aliased_submodules = set()
    for st in tree.body:
        if isinstance(st, (ast.FunctionDef, ast.AsyncFunctionDef, ast.ClassDef)):
            add(st.name, {ast.FunctionDef: "def", ast.AsyncFunctionDef: "async", ast.ClassDef: "class"}[type(st)])
            if st.name == "__all__":
                allst = ["dyn"]
        elif isinstance(st, ast.Assign):
            out = []
            for t in st.targets:
                _target_names(t, out)
            for n, k in out:
                add(n, k)
            if any(n == "__all__" for n, k in out):
                if _is_str_display(st.value) and all(k == "assign" for n, k in out if n == "__all__"):
                    allst = ["lit", [e.value for e in st.value.elts], False]
                else:
                    allst = ["dyn"]
        elif isinstance(st, ast.AnnAssign):
            if st.value is not None:
                out = []
                _target_names(st.target, out)
                for n, k in out:
                    add(n, "ann")
                if any(n == "__all__" for n, k in out):
                    allst = ["lit", [e.value for e in st.value.elts], True] if _is_str_display(st.value) else ["dyn"]
        elif hasattr(ast, "TypeAlias") and isinstance(st, ast.TypeAlias):
            # `type Alias = int` (3.12+): a simple statement, direct child of the module, assigning a top-level name
            add(st.name.id, "typealias")
            if st.name.id == "__all__":
                allst = ["dyn"]
        elif isinstance(st, ast.AugAssign):
            if isinstance(st.target, ast.Name) and st.target.id == "__all__":
                if allst and allst[0] == "lit" and isinstance(st.op, ast.Add) and _is_str_display(st.value):
                    allst = ["lit", allst[1] + [e.value for e in st.value.elts], allst[2]]
                else:
                    allst = ["dyn"]
        elif isinstance(st, ast.Delete):
            # `del name` at top level: whatever bound the name before is gone (a later statement may bind it again)
            for t in st.targets:
                out = []
                _target_names(t, out)
                for n, k in out:
                    was = kinds.pop(n, None)
                    if was is not None:
                        (deleted_nested.discard if isinstance(t, ast.Name) else deleted_nested.add)(n)
                        (deleted_reexport.add if was & {"import_own", "self_import"} else deleted_reexport.discard)(n)
                    alias_clash.discard(n)
                    aliased_submodules.discard(n)
                    if n == "__all__":
                        allst = None
        elif isinstance(st, ast.Import):
            for a in st.names:
                add(a.asname or a.name.split(".")[0], "import_foreign")
        elif isinstance(st, ast.ImportFrom):
            absname = resolve_from(modname, is_init, st.level, st.module)
            own = absname is not None and absname.startswith(modname + ".")
            selfimp = absname == modname
            for a in st.names:
                if a.name == "*":
                    if own:
                        star_own = True
                        own_star_mods.append(absname)
                    continue
                n = a.asname or a.name
                if own:
                    add(n, "submodule" if (absname + "." + a.name) in modules else "import_own")
                    if (absname + "." + a.name) in modules and a.asname and (absname + "." + a.asname) not in modules:
                        aliased_submodules.add(n)
                    if (absname + "." + a.name) not in modules and a.asname and (absname + "." + a.asname) in modules:
                        alias_clash.add(n)
                elif selfimp:
                    add(n, "submodule" if (absname + "." + a.name) in modules else "self_import")
                    if (absname + "." + a.name) in modules and a.asname and (absname + "." + a.asname) not in modules:
                        aliased_submodules.add(n)
                else:
                    add(n, "import_foreign")
        else:
            nb = set()
            _nested_bindings(st, nb)
            for n in nb:
                add(n, "cond")
            if "__all__" in nb:
                allst = ["dyn"]
            # calls such as __all__.append / extend make the list dynamic
            for n in ast.walk(st):
                if isinstance(n, ast.Attribute) and isinstance(n.value, ast.Name) and n.value.id == "__all__":
                    allst = ["dyn"]
    return dict(kinds={n: sorted(k) for n, k in kinds.items()}, all=allst, star_own=star_own,
                own_star_mods=own_star_mods, alias_clash=sorted(alias_clash),
                aliased_submodules=sorted(aliased_submodules),
                deleted_nested=sorted(deleted_nested), deleted_reexport=sorted(deleted_reexport))


REQUIRED_KINDS = {"def", "async", "class", "assign", "tuple", "ann", "typealias", "import_own", "own_star"}
D8_KINDS = {"async", "tuple", "ann"}


def top_imports(text):
    """[(module-with-dots, name, asname)] of the top-level `from` imports of `text`"""
    out = []
    for st in ast.parse(text).body:
        if isinstance(st, ast.ImportFrom):
            for a in st.names:
                out.append(("." * st.level + (st.module or ""), a.name, a.asname))
    return out


# ----------------------------------------------------------------------------------------------

def _write_universe(root, case):
    for rel, src in case["files"].items():
        p = os.path.join(root, rel)
        os.makedirs(os.path.dirname(p), exist_ok=True)
        if isinstance(src, dict):
            data = base64.b64decode(src["b64"])
            with open(p, "wb") as f:
                f.write(data)
        else:
            with open(p, "w", encoding="utf-8") as f:
                f.write(src)
    for d in case.get("dirs", []):
        os.makedirs(os.path.join(root, d), exist_ok=True)


def _universe_tops(case):
    tops = set()
    for rel in list(case["files"]) + list(case.get("dirs", [])):
        top = rel.split("/")[0]
        tops.add(top[:-3] if top.endswith(".py") else top)
    for t in case.get("purge", []):
        tops.add(t)
    return tops


def universe_modules(case):
    """dotted names of all modules/packages the universe's files define"""
    mods = set()
    for rel in case["files"]:
        if not rel.endswith(".py"):
            continue
        parts = rel[:-3].split("/")
        if parts[-1] == "__init__":
            parts = parts[:-1]
        mods.add(".".join(parts))
    return mods


def _purge(tops):
    from pyflyby._modules import ModuleHandle, import_module
    for m in list(sys.modules):
        if m.split(".")[0] in tops:
            del sys.modules[m]
    for k in list(ModuleHandle._cls_cache):
        if str(k).split(".")[0] in tops:
            del ModuleHandle._cls_cache[k]
    try:
        import_module.cache_clear()
    except AttributeError:
        try:
            import_module.cache.clear()
        except AttributeError:
            pass
    importlib.invalidate_caches()


def _purge_handles(tops):
    """forget pyflyby's per-name handles (cached `exists` / `filename` / `exports`) but leave sys.modules alone"""
    from pyflyby._modules import ModuleHandle
    for k in list(ModuleHandle._cls_cache):
        if str(k).split(".")[0] in tops:
            del ModuleHandle._cls_cache[k]


def _exports_obs(t):
    """canonical observation of `ModuleHandle(t).exports`: sorted names | None (nothing exported) | {"err": ...}"""
    from pyflyby._modules import ModuleHandle
    try:
        e = ModuleHandle(t).exports
        if e is None:
            return None, False
        names = []
        for imp in e:
            s = imp.split
            if s.module_name != t or s.import_as not in (None, s.member_name):
                names.append("?%s:%s:%s" % (s.module_name, s.member_name, s.import_as))
            else:
                names.append(s.member_name)
        # an empty ImportSet and None both mean "nothing exported": what matters (and what the
        # oracle checks) is that the star import is then kept
        return (sorted(set(names)) or None), (not names)
    except Exception as ex:
        return {"err": type(ex).__name__, "msg": str(ex)[:160]}, False


def _warm(t, state, tops):
    """bring the process into `state` for module `t` (see gen_case: rewrite_state), starting from a purged one"""
    _purge(tops)
    if state == "imported":
        try:
            importlib.import_module(t)
        except BaseException:
            pass
    elif state == "twice":
        _exports_obs(t)
    _purge_handles(tops)


WARM_STATES = ("imported", "twice")


def _cold_if_cli(case):
    """the command-line tools run in a fresh process: compare them with a library call in a fresh state"""
    if case.get("cli"):
        case["rewrite_state"] = "cold"
    return case


def target_file(case, t):
    """(relpath, is_init) of the source file of module `t` in the universe, or (None, False)"""
    rel = t.replace(".", "/")
    if rel + "/__init__.py" in case["files"]:
        return rel + "/__init__.py", True
    if rel + ".py" in case["files"]:
        return rel + ".py", False
    return None, False


# ----------------------------------------------------------------------------------------------
# Item abstraction fed to the Lean model (lean/Pfb/C19/Model.lean `Item`)
# ----------------------------------------------------------------------------------------------

def _abs_target(t):
    """Model `Target`: a Name; a tuple/list/starred pattern with its Store-context names ("p") and the names that
    occur in Load context inside it ("l"); anything else (attribute / subscript) with its Load-context names.
    The contexts are CPython's own (`ast.Name.ctx`); the model, like the code, must only use the Store ones."""
    if isinstance(t, ast.Name):
        return {"n": t.id}
    names = [n for n in ast.walk(t) if isinstance(n, ast.Name)]
    loads = [n.id for n in names if isinstance(n.ctx, ast.Load)]
    if isinstance(t, (ast.Tuple, ast.List, ast.Starred)):
        return {"p": [n.id for n in names if isinstance(n.ctx, ast.Store)], "l": loads}
    return {"o": 1, "l": loads}


def _abs_val(v):
    """`list(ast.literal_eval(value))`: list of entries (str or None for a non-string), or None if it raises"""
    if v is None:
        return None
    try:
        es = list(ast.literal_eval(v))
    except (ValueError, TypeError):
        return None
    return [e if type(e) is str else None for e in es]


def abstract_items(src):
    items = []
    for st in ast.parse(src).body:
        if isinstance(st, ast.Assign):
            items.append({"k": "assign", "targets": [_abs_target(t) for t in st.targets], "v": _abs_val(st.value)})
        elif isinstance(st, ast.AnnAssign):
            items.append({"k": "ann", "target": _abs_target(st.target), "hasValue": st.value is not None,
                          "v": _abs_val(st.value)})
        elif hasattr(ast, "TypeAlias") and isinstance(st, ast.TypeAlias) and n3_fixed():
            # N3 repaired: `_member_from_node` treats `type X = v` like `X = v` (one Name target; never a literal
            # `__all__`: `_is_all_assignment` does not look at TypeAlias, and the generators never alias `__all__`)
            items.append({"k": "assign", "targets": [_abs_target(st.name)], "v": _abs_val(st.value)})
        elif isinstance(st, ast.AugAssign):
            items.append({"k": "aug", "target": _abs_target(st.target), "v": _abs_val(st.value)})
        elif isinstance(st, ast.ClassDef):
            items.append({"k": "class", "n": st.name})
        elif isinstance(st, ast.FunctionDef):
            items.append({"k": "def", "n": st.name})
        elif isinstance(st, ast.AsyncFunctionDef):
            items.append({"k": "async", "n": st.name})
        elif isinstance(st, ast.ImportFrom):
            items.append({"k": "from", "level": st.level, "module": (st.module.split(".") if st.module else None),
                          "aliases": [{"name": a.name, "as": a.asname} for a in st.names]})
        elif isinstance(st, ast.Delete):
            # "names": plain Name targets (what the code looks at); "nested": names deleted through a parenthesised
            # tuple / list target; attribute / subscript targets delete no module-level name
            nested = []
            for t in st.targets:
                if not isinstance(t, ast.Name):
                    out = []
                    _target_names(t, out, False)
                    nested.extend(n for n, k in out)
            items.append({"k": "del", "names": [t.id for t in st.targets if isinstance(t, ast.Name)], "nested": nested})
        elif isinstance(st, ast.Import):
            items.append({"k": "import", "aliases": [{"name": a.name.split("."), "as": a.asname} for a in st.names]})
        else:
            items.append({"k": "other"})
    return items


def leading_import_block(text):
    """[(module|None, member, import_as)] of the leading run of top-level imports, in order; None when the
    text has further top-level imports after other code (more than one import block)"""
    body = ast.parse(text).body
    out = []
    i = 0
    while i < len(body) and isinstance(body[i], (ast.Import, ast.ImportFrom)):
        st = body[i]
        if isinstance(st, ast.Import):
            for a in st.names:
                out.append((None, a.name, a.asname or a.name))
        else:
            for a in st.names:
                out.append(("." * st.level + (st.module or ""), a.name, a.asname or a.name))
        i += 1
    for st in body[i:]:
        if isinstance(st, (ast.Import, ast.ImportFrom)):
            return None
    return out


def canon_import(module, member, import_as):
    """(fullname, import_as) — pyflyby's identity of an Import"""
    full = member if module is None else (module + "." + member if not module.endswith(".") else module + member)
    return (full, import_as)


def model_variant():
    """which code the model is asked to follow: the status of D8 / D31 in known_findings/C19.json"""
    from vcommon import load_known_findings
    st = {e["id"]: e.get("status") for e in load_known_findings("C19")}
    ids = {"d8": "D8", "d31": "D31", "d53": "D53", "cde": "CDE", "cdd": "CDD"}
    v = {k: st.get(i) == "fixed" for k, i in ids.items()}
    # dev aid for testing a fix in a scratch worktree: the complete list of variants in force, e.g.
    # VERIF_C19_VARIANT=d8,d31,d53,cde,cdd
    ov = os.environ.get("VERIF_C19_VARIANT")
    if ov is not None:
        v = {k: k in ov.split(",") for k in ids}
    return v


def n3_fixed():
    """N3 (`type Alias = int` not exported): status of N3 in known_findings/C19.json; `n3` in VERIF_C19_VARIANT overrides"""
    from vcommon import load_known_findings
    ov = os.environ.get("VERIF_C19_VARIANT")
    if ov is not None:
        return "n3" in ov.split(",")
    return any(e["id"] == "N3" and e.get("status") == "fixed" for e in load_known_findings("C19"))


def n1_fixed():
    """N1 (exports cached per module NAME although the name is resolved per rewritten file's directory): which
    behaviour K expects in the env cases with a prior rewrite - from the status of N1 in known_findings/C19.json;
    `n1` in VERIF_C19_VARIANT overrides (scratch worktree with fixes/C19-N1.diff applied)."""
    from vcommon import load_known_findings
    ov = os.environ.get("VERIF_C19_VARIANT")
    if ov is not None:
        return "n1" in ov.split(",")
    return any(e["id"] == "N1" and e.get("status") == "fixed" for e in load_known_findings("C19"))


class C19(Prop):
    id = "C19"
    driver = "C19"
    lean_modules = ["Pfb.C19.Props"]
    theorems = [
        "Pfb.C19.C19_public",
        "Pfb.C19.C19_all",
        "Pfb.C19.C19_all_nonstr",
        "Pfb.C19.C19_own",
        "Pfb.C19.C19_never_foreign",
        "Pfb.C19.C19_exact_partial",
        "Pfb.C19.C19_exact_fixed",
        "Pfb.C19.C19_total",
        "Pfb.C19.C19_importable_partial",
        "Pfb.C19.C19_store_only",
        "Pfb.C19.C19_deleted_not_exported",
        "Pfb.C19.mem_live_iff",
        "Pfb.C19.Witness.d53_current",
        "Pfb.C19.Witness.d53_fixed",
        "Pfb.C19.Witness.d53_rebind",
        "Pfb.C19.Witness.del_nested_fixed",
        "Pfb.C19.Witness.del_reexport_fixed",
        "Pfb.C19.Witness.load_ctx_fixed",
        "Pfb.C19.Witness.load_ctx_current",
        "Pfb.C19.C19_replace_kept",
        "Pfb.C19.C19_replace_sound",
        "Pfb.C19.C19_replace_no_star_left",
        "Pfb.C19.C19_replace_exports_bound",
        "Pfb.C19.C19_shadow_unique",
        "Pfb.C19.C19_shadow_last",
        "Pfb.C19.C19_shadow_bound",
        "Pfb.C19.Witness.d8_current",
        "Pfb.C19.Witness.d8_fixed",
        "Pfb.C19.Witness.d8_async_missed",
        "Pfb.C19.Witness.d8_annassign_missed",
        "Pfb.C19.Witness.d8_tuple_missed",
        "Pfb.C19.Witness.d8_exact_fails",
        "Pfb.C19.Witness.d8_ann_all_current",
        "Pfb.C19.Witness.d8_ann_all_fixed",
        "Pfb.C19.Witness.d31_current",
        "Pfb.C19.Witness.d31_fixed",
        "Pfb.C19.C19_exact_fixed5",
        "Pfb.C19.C19_deleted_reexport_not_exported",
        "Pfb.C19.delsSeen_of_cde",
        "Pfb.C19.Witness.cde_before",
        "Pfb.C19.Witness.cde_fixed5",
        "Pfb.C19.Witness.cdd_before",
        "Pfb.C19.Witness.cdd_fixed5",
    ]
    anchors = [
        ("lib/python/pyflyby/_modules.py", "ModuleHandle.exports"),
        ("lib/python/pyflyby/_modules.py", "ModuleHandle._member_from_node"),
        ("lib/python/pyflyby/_modules.py", "ModuleHandle.exists"),
        ("lib/python/pyflyby/_modules.py", "ModuleHandle.filename"),
        ("lib/python/pyflyby/_imports2s.py", "replace_star_imports"),
        ("lib/python/pyflyby/_importclns.py", "ImportSet._from_imports"),
        ("bin/collect-exports", None),
        ("bin/replace-star-imports", None),
    ]
    quick_cases = 800
    thorough_cases = 15000
    quick_deadline_s = 60
    thorough_deadline_s = 600
    rule = ("universes of generated module files in a fresh directory on sys.path (plain module, package __init__, module in a "
            "package, sub-package, nested module; defs/async defs/classes/simple, chained, tuple, annotated, attribute "
            "assignments; literal, tuple, augmented, annotated, computed and broken __all__; private names; imports from own "
            "submodules (relative and absolute, star; 1-3 names per statement in random order, each unaliased or under a public or "
            "private alias, the source name public, private or bound to a module object in the submodule), from "
            "siblings/parents, from foreign modules; conditional definitions; exports computed in a fresh process state, after the "
            "module was imported and a second time, the rewrite in one of these three states) x programs star-importing them (one or two star imports, shadowing imports before/after, reads of the "
            "star-bound names), plus uninspectable targets (missing, syntax error, namespace package, builtin, extension, "
            "undecodable, non-string __all__, dotted name below a missing package or below a plain module), facade modules that export nothing although `import *` binds names, and files on disk "
            "star-importing a sibling module while another sys.path/PYTHONPATH directory holds a module of the same name "
            "(file's directory absent / first / after it; library call and replace-star-imports tool; sibling pre-imported); non-trivial = the target exports at least one name or its star import must be kept")
    trusted_base = ["CPython 3.12 import system and `from M import *` / `from M import x` semantics (reference, run in a fresh interpreter)",
                    "stdlib ast (the harness's item abstraction fed to the model and the oracle's own reading of the module)"]
    assumptions = []
    families = {}

    # -- scratch ---------------------------------------------------------------------------
    # every case directory lives under one per-run directory that teardown() removes, so that workers killed at a
    # deadline (pool.terminate) leave nothing behind
    _scratch = None

    def setup(self, tier, rng):
        self._scratch = tempfile.mkdtemp(prefix="c19run_")

    def teardown(self):
        if self._scratch:
            shutil.rmtree(self._scratch, ignore_errors=True)
            self._scratch = None

    # -- generation ------------------------------------------------------------------------
    # exhaustive small scope: every ordered pair of these statements as the whole target module, as a plain
    # module and as a package __init__ (quick: a sample of the pairs)
    TEMPLATES = [
        "def a():\n    return 1", "async def a():\n    return 1", "class a:\n    pass", "a = [1]", "a = b = [1]",
        "a, b = [1], [2]", "a: int = [3]", "a: int", "_a = [1]", "b = [0]\nb += [1]",
        "import os", "import os as a", "from os.path import join as a", "from {F} import fz", "from {F} import *",
        "from {P}.sub import sx", "from {P}.sub import sy as a", "from {P} import sub", "import {P}.sub",
        "from {P}.sub import _sp as b", "from {P}._compat import cfn, json as a",
        "__all__ = ['a']", "__all__ = ('a', 'b')", "__all__ = ['_a', 'a']", "__all__ = []", "__all__ += ['b']",
        "__all__ = ['a'] + ['b']", "__all__ += list(('b',))", "__all__: list = ['a']", "__all__ = ['a', 1]",
        "import os\nos.environ['K_C19'] = 'v'", "from {F} import FK\nFK.flag, b = [1], [2]",
        "from {F} import fd, i0\nfd[i0] = [1]", "from json import decoder\ndecoder.C19_FLAG: bool = True",
        "del a", "del a, b", "a = [0]\ndel a", "def b():\n    pass\ndel b\nb = [1]", "del (a, b)", "a = [0]\ndel [a]",
        "if True:\n    a = [1]", "try:\n    b = [1]\nexcept Exception:\n    b = None", "pass",
    ]
    INIT_ONLY = ["from .sub import sx", "from .sub import sy as a", "from . import sub", "from .sub import *",
                 "from .sp import leaf", "from .sp import spx as leaf", "from .sp.leaf import lf as b",
                 # own-submodule re-exports: private source name / public alias and the reverse; names bound to
                 # module objects in the submodule, first and second in the statement
                 "from .sub import _sp as a", "from .sub import sx as _a", "from .sub import _sp as _a, sy as b",
                 "from ._compat import text_type, json", "from ._compat import json, text_type",
                 "from ._compat import osp as a", "from ._compat import _fast as b, cfn"]

    def exhaustive_cases(self, tier, rng):
        import itertools
        out = []
        for kind in ("plain", "init"):
            T = self.TEMPLATES + (self.INIT_ONLY if kind == "init" else [])
            pairs = list(itertools.product(range(len(T)), repeat=2))
            if tier != "thorough":
                pairs = rng.sample(pairs, 120)
            for n, (i, j) in enumerate(pairs):
                tag = "e%s%03d%03d" % (kind[0], i, j)
                u = gen_c19.U(tag)
                src = "\n".join(T[k].replace("{F}", u.F).replace("{P}", u.P) for k in (i, j)) + "\n"
                try:
                    compile(src, "<t>", "exec")
                except SyntaxError:
                    continue
                files = {u.P + "/__init__.py": "", u.P + "/sub.py": gen_c19.SUB_SRC, u.P + "/_compat.py": gen_c19.COMPAT_SRC,
                         u.P + "/sp/__init__.py": "spx = ['spx']\n",
                         u.P + "/sp/leaf.py": gen_c19.LEAF_SRC, u.F + ".py": gen_c19.FOREIGN_SRC, u.M + ".py": "pm = 1\n"}
                files[u.target_path(kind)] = src
                t = u.target_name(kind)
                reads = [x for x in ("a", "b", "sx", "fz", "leaf", "sub", "os", "json", "text_type", "cfn") if rng.random() < 0.5]
                # only names the module can provide at all
                reads = [x for x in reads if re.search(r"(?<![\w.])%s\b" % x, src)]
                program = "from %s import *\n\n_r = (%s)\n" % (t, "".join(r + ", " for r in reads))
                out.append(dict(files=files, targets=[t], program=program, reads=reads, kind=kind, cli=False,
                                rewrite_state=("cold", "imported", "twice")[n % 3]))
        return out

    def gen_case(self, rng, i, tier):
        tag = "%06x" % rng.getrandbits(24)
        r = rng.random()
        if r < 0.12:
            return self._gen_uninspectable(rng, tag)
        if r < 0.19:
            return gen_c19.gen_env_case(rng, tag)
        kind = rng.choice(gen_c19.TARGET_KINDS + ["init", "init", "plain"])
        if r < 0.27:
            # facade / compat module: `import *` binds names, yet nothing is exported => the star import must stay
            u, g, files = gen_c19.gen_facade_universe(rng, tag, kind)
            t = u.target_name(kind)
            program, reads = gen_c19.gen_program(rng, u, t, g.star_names(), [], None)
            if not reads and g.star_names():
                reads = [rng.choice(g.star_names())]
                program = "from %s import *\n\n_r = (%s,)\n" % (t, reads[0])
            return _cold_if_cli(dict(files=files, targets=[t], program=program, reads=reads, kind="facade:" + kind,
                        cli=(rng.random() < 0.04), rewrite_state=rng.choice(["cold", "cold", "imported", "twice"])))
        u, g, files = gen_c19.gen_universe(rng, tag, kind, max_items=rng.choice([3, 5, 8]))
        t = u.target_name(kind)
        extra = []
        r2 = rng.random()
        if r2 < 0.10:
            extra = [u.F]
        elif r2 < 0.16:
            extra = [rng.choice(["math", "sys", "keyword"])]
        elif r2 < 0.20:
            extra = [u.P + ".sub"]
        program, reads = gen_c19.gen_program(rng, u, t, g.star_names(), extra, g)
        targets = [t] + [e for e in extra if e != t]
        # rewrite_state: what the process has done before `replace_star_imports` runs - nothing ("cold": module and
        # handle caches purged), the star-imported modules already imported ("imported"), or their exports already
        # computed once ("twice"; handle cache dropped, sys.modules as that computation left it)
        return _cold_if_cli(dict(files=files, targets=targets, program=program, reads=reads, kind=kind,
                    cli=(rng.random() < (0.03 if tier != "thorough" else 0.01)),
                    rewrite_state=rng.choice(["cold", "cold", "imported", "twice"])))

    def _gen_uninspectable(self, rng, tag):
        u = gen_c19.U(tag)
        how = rng.choice(gen_c19.UNINSPECTABLE)
        files = {u.F + ".py": gen_c19.FOREIGN_SRC}
        dirs = []
        purge = []
        t = u.M
        if how == "missing":
            purge = [t]
        elif how == "missing_dotted":
            t = "nopkg_%s.%s" % (tag, rng.choice(["mod", "sub.mod"]))
            purge = ["nopkg_" + tag]
        elif how == "in_module":
            files[u.M + ".py"] = "pm = 1\n"
            t = u.M + "." + rng.choice(["sub", "pm"])
        elif how == "syntax":
            files[t + ".py"] = rng.choice(["def f(:\n", "x = = 1\n", "a = 1\n  b = 2\n", "class\n", "__all__ = ['a'\n"])
        elif how == "namespace":
            t = u.N
            dirs = [u.N]
        elif how == "builtin":
            t = rng.choice(["sys", "time", "builtins", "_thread"])
        elif how == "extension":
            t = rng.choice(["math", "_struct", "select", "zlib"])
        elif how == "nonstr_all":
            files[t + ".py"] = rng.choice(["a = 1\n__all__ = ['a', 1]\n", "a = 1\n__all__ = [b'a']\n", "a = 1\n__all__ = ['a']\n__all__ += [None]\n"])
        elif how == "undecodable":
            files[t + ".py"] = {"b64": base64.b64encode(b"a = 1\ns = '\xff\xfe'\n").decode()}
        prog_lines = []
        if rng.random() < 0.4:
            prog_lines.append("from %s import fz" % u.F)
        prog_lines.append("from %s import *" % t)
        extra = []
        if rng.random() < 0.3:
            prog_lines.append("from %s import *" % u.F)
            extra = [u.F]
        if rng.random() < 0.3:
            prog_lines.append("import os")
        reads = []
        if how in ("builtin", "extension") and rng.random() < 0.7:
            reads = {"sys": ["path", "argv"], "time": ["time", "sleep"], "builtins": ["len"], "_thread": ["allocate_lock"],
                     "math": ["sqrt", "pi"], "_struct": ["pack"], "select": ["select"], "zlib": ["crc32"]}[t][:rng.randint(1, 2)]
        if extra and rng.random() < 0.5:
            reads = reads + ["fz"]
        if reads and how in ("builtin", "extension") and rng.random() < 0.35:
            # an explicit import after the (kept) star that rebinds a name the star provides
            prog_lines.append("from %s import fy as %s" % (u.F, reads[0]))
        program = "\n".join(prog_lines) + "\n\n_r = (%s)\n" % "".join(r + ", " for r in reads)
        return _cold_if_cli(dict(files=files, dirs=dirs, purge=purge, targets=[t] + extra, program=program, reads=reads,
                    kind="uninspectable:" + how, cli=(rng.random() < 0.06),
                    rewrite_state=rng.choice(["cold", "cold", "imported", "twice"])))

    # -- implementation ----------------------------------------------------------------------
    def run_impl(self, case):
        if case.get("kind") == "env":
            return self._run_env(case)
        from pyflyby._modules import ModuleHandle
        from pyflyby._imports2s import replace_star_imports
        tops = _universe_tops(case)
        root = tempfile.mkdtemp(prefix="c19_", dir=self._scratch if self._scratch and os.path.isdir(self._scratch) else None)
        obs = {"exports": {}}
        try:
            _write_universe(root, case)
            _purge(tops)
            sys.path.insert(0, root)
            try:
                for t in case["targets"]:
                    _purge(tops)
                    obs["exports"][t], empty = _exports_obs(t)
                    if empty:
                        obs["exports_empty_not_none"] = True
                # the same question asked in a process that has already imported the module / already computed its
                # exports once (sys.modules populated; pyflyby's handle cache dropped): the answer is a function of
                # the module source, so it is judged by the same oracle
                obs["exports_warm"] = {}
                for t in case["targets"]:
                    if target_file(case, t)[0] is None:
                        continue
                    w = {}
                    for state in WARM_STATES:
                        _warm(t, state, tops)
                        w[state] = _exports_obs(t)[0]
                    obs["exports_warm"][t] = w
                _purge(tops)
                rs = case.get("rewrite_state", "cold")
                if rs in WARM_STATES:
                    for t in case["targets"]:
                        if target_file(case, t)[0] is not None:
                            if rs == "imported":
                                try:
                                    importlib.import_module(t)
                                except BaseException:
                                    pass
                            else:
                                _exports_obs(t)
                    _purge_handles(tops)
                try:
                    out = replace_star_imports(case["program"])
                    obs["new"] = out.text.joined
                except Exception as ex:
                    obs["new"] = None
                    obs["replace_err"] = type(ex).__name__ + ": " + str(ex)[:160]
                if rs in WARM_STATES:
                    # what the rewrite worked with (the handles it used are still cached)
                    for t in case["targets"]:
                        if t in obs["exports_warm"]:
                            obs["exports_warm"][t]["rewrite"] = _exports_obs(t)[0]
                if case.get("cli"):
                    obs["cli"] = self._run_cli(root, case)
            finally:
                if root in sys.path:
                    sys.path.remove(root)
                sys.path_importer_cache.pop(root, None)
                _purge(tops)
            # CPython reference
            names = {}
            star_only = []
            for t in case["targets"]:
                ns = set()
                ex = obs["exports"].get(t)
                if isinstance(ex, list):
                    ns.update(n for n in ex if n.isidentifier())
                for exw in obs["exports_warm"].get(t, {}).values():
                    if isinstance(exw, list):
                        ns.update(n for n in exw if n.isidentifier() and not n.startswith("?"))
                rel, is_init = target_file(case, t)
                if rel is not None and isinstance(case["files"][rel], str):
                    try:
                        an = analyze_module(case["files"][rel], t, is_init, universe_modules(case))
                        ns.update(n for n in an["kinds"] if n.isidentifier())
                        star_only.extend(m for m in an["own_star_mods"] if m not in star_only)
                    except SyntaxError:
                        pass
                names[t] = sorted(ns)
            obs["cpy"] = cpython_probe(root, case["targets"], names, case["program"], obs.get("new"), case["reads"], star_only)
        finally:
            shutil.rmtree(root, ignore_errors=True)
        return obs

    # -- environment cases: a file on disk star-imports a SIBLING module; another directory holds a module of the
    #    same name.  Clean tree (read ImportPathForRelativeImportsCtx / ImportPathCtx / ModuleHandle.filename):
    #    the file's directory is prepended to sys.path for the duration of `module.exports`, whether or not it is
    #    already on sys.path, so find_spec() sees the sibling first: absent / first / after another directory all
    #    resolve to the sibling, in the library call and in the `replace-star-imports` tool (PYTHONPATH).
    #    Pre-imported sibling (sys.modules holds the sibling itself): same answer.
    #    NOT generated (clean tree answers from the wrong module; reported as candidate defects, see notes):
    #    sys.modules already holding the other directory's module; `from __future__ import absolute_import` in the file.
    ENV_DRIVER = r'''
import sys, json, os
cfg = json.loads(sys.argv[1])
sys.path[0:0] = cfg["path"]
sys.path.insert(0, cfg["repo_lib"])
os.environ.setdefault("PYFLYBY_PATH", "EMPTY"); os.environ.setdefault("PYFLYBY_LOG_LEVEL", "ERROR")
if cfg["preimport"]:
    import importlib
    m = importlib.import_module(cfg["modname"])
    assert os.path.realpath(os.path.dirname(m.__file__)).startswith(os.path.realpath(cfg["proj"])), m.__file__
from pyflyby._imports2s import replace_star_imports
from pyflyby._parse import PythonBlock
from pyflyby._file import Filename
for first in cfg.get("prior") or []:
    # another file, in ANOTHER directory, star-importing ITS sibling of the same name, is rewritten first (same process)
    replace_star_imports(PythonBlock(Filename(first)))
out = replace_star_imports(PythonBlock(Filename(cfg["tool"])))
sys.stdout.write(out.text.joined)
'''

    def _run_env(self, case):
        e = case["env"]
        base = os.path.realpath(tempfile.mkdtemp(
            prefix="c19_", dir=self._scratch if self._scratch and os.path.isdir(self._scratch) else None))
        obs = {}
        try:
            lib, proj = os.path.join(base, "lib"), os.path.join(base, "proj")
            for d, files in ((lib, case["libfiles"]), (proj, case["projfiles"])):
                os.makedirs(d)
                for rel, src in files.items():
                    p = os.path.join(d, rel)
                    os.makedirs(os.path.dirname(p), exist_ok=True)
                    with open(p, "w", encoding="utf-8") as f:
                        f.write(src)
            tool = os.path.join(proj, "tool.py")
            with open(tool, "w", encoding="utf-8") as f:
                f.write(case["program"])
            prior = []
            if e.get("prior"):
                prior = [os.path.join(lib, "first_c19.py")]
                with open(prior[0], "w", encoding="utf-8") as f:
                    f.write(case["priorprogram"])
            path = {"absent_nolib": [], "absent": [lib], "first": [proj, lib], "after": [lib, proj]}[e["path_mode"]]
            repo_lib = os.path.join(REPO, "lib", "python")
            env = {k: v for k, v in os.environ.items() if k not in ("PYTHONPATH", "PYTHONSTARTUP", "PYTHONHOME")}
            env.update(PYFLYBY_PATH="EMPTY", PYFLYBY_LOG_LEVEL="ERROR", PYTHONDONTWRITEBYTECODE="1")

            def script(fn, extra_env):
                p = subprocess.run([sys.executable, "-S", fn], env=dict(env, **extra_env), cwd=base,
                                   stdout=subprocess.PIPE, stderr=subprocess.PIPE, text=True, timeout=60)
                return p.returncode, p.stdout, p.stderr[-300:]
            runenv = {"PYTHONPATH": os.pathsep.join(path)} if path else {}
            # what the program does, run as a script (its directory is sys.path[0]: the sibling wins)
            obs["orig"] = script(tool, runenv)
            probe = os.path.join(proj, "probe_c19.py")
            with open(probe, "w") as f:
                f.write("from %s import *\nimport json\nprint(json.dumps(sorted(n for n in dir() if n != 'json' "
                        "and not n.startswith('__'))))\n" % case["modname"])
            rc, out, err = script(probe, runenv)
            obs["star"] = json.loads(out) if rc == 0 else None
            os.unlink(probe)
            # the rewrite, in that environment
            if e["via"] == "cli":
                cenv = dict(env, PYTHONPATH=os.pathsep.join([repo_lib] + path))
                p = subprocess.run([sys.executable, os.path.join(REPO, "bin", "replace-star-imports"), "--replace"] + prior + [tool],
                                   env=cenv, cwd=base, stdout=subprocess.PIPE, stderr=subprocess.PIPE, text=True, timeout=120)
                obs["rewrite_rc"] = p.returncode
                obs["new"] = open(tool, encoding="utf-8").read() if p.returncode == 0 else None
                obs["rewrite_err"] = p.stderr[-300:] if p.returncode else None
            else:
                cfg = dict(path=path, repo_lib=repo_lib, preimport=e["preimport"], modname=case["modname"],
                           proj=proj, tool=tool, prior=prior)
                p = subprocess.run([sys.executable, "-I", "-c", self.ENV_DRIVER, json.dumps(cfg)], env=env, cwd=base,
                                   stdout=subprocess.PIPE, stderr=subprocess.PIPE, text=True, timeout=120)
                obs["rewrite_rc"] = p.returncode
                obs["new"] = p.stdout if p.returncode == 0 else None
                obs["rewrite_err"] = p.stderr[-300:] if p.returncode else None
            if obs["new"] is not None:
                tool2 = os.path.join(proj, "tool_new.py")
                with open(tool2, "w", encoding="utf-8") as f:
                    f.write(obs["new"])
                obs["newrun"] = script(tool2, runenv)
        finally:
            shutil.rmtree(base, ignore_errors=True)
        return obs

    def _oracle_env(self, case, obs):
        ctx = dict(env=case["env"], program=case["program"], new=obs.get("new"), proj=case["projfiles"], lib=case["libfiles"])
        if obs.get("new") is None:
            return [dict(what="env: rewrite failed", err=obs.get("rewrite_err"), **ctx)]
        if obs["orig"][0] != 0 or obs.get("star") is None:
            return []      # the program as written does not run: nothing to preserve
        fails = []
        mod = case["modname"]
        try:
            imps = top_imports(obs["new"])
        except SyntaxError:
            return [dict(what="env: rewritten file does not parse", **ctx)]
        listed = sorted(n for (m, n, a) in imps if m == mod and n != "*")
        wrong = [n for n in listed if n not in obs["star"]]
        if wrong:
            fails.append(dict(what="env: explicit list names what the sibling module's star import does not bind",
                              names=wrong, star=obs["star"], **ctx))
        rc, out, err = obs["newrun"]
        if rc != 0 or out != obs["orig"][1]:
            fails.append(dict(what="env: rewritten file behaves differently when run as a script", orig=obs["orig"],
                              newrun=obs["newrun"], **ctx))
        return fails

    def _env_requests(self, case, obs):
        """K: the explicit list must be the model's exports of the SIBLING's source"""
        rel = case["modname"] + ".py"
        is_init = False
        if rel not in case["projfiles"]:
            rel, is_init = case["modname"] + "/__init__.py", True
        try:
            items = abstract_items(case["projfiles"][rel])
        except SyntaxError:
            return []
        mods = [case["modname"]] + [r[:-3].replace("/", ".") for r in case["projfiles"]
                                    if r.endswith(".py") and not r.endswith("__init__.py") and r != rel]
        reqs = [dict(op="exports", variant=model_variant(), self=[case["modname"]], isInit=is_init,
                     exists=[m.split(".") for m in mods], items=items)]
        if case["env"].get("prior"):
            # second request: the exports of the OTHER directory's module of that name (what the per-name handle
            # cache answers while N1 is not repaired)
            lrel, linit = case["modname"] + ".py", False
            if lrel not in case["libfiles"]:
                lrel, linit = case["modname"] + "/__init__.py", True
            try:
                litems = abstract_items(case["libfiles"][lrel])
            except SyntaxError:
                return reqs
            reqs.append(dict(op="exports", variant=model_variant(), self=[case["modname"]], isInit=linit,
                             exists=[[case["modname"]]], items=litems))
        return reqs

    def _env_compare(self, case, obs, resps):
        if obs.get("new") is None or "ok" not in resps[0]:
            return None
        want = sorted(set(resps[0]["ok"]))
        if case["env"].get("prior") and not n1_fixed():
            # the code as it is: the handle of that NAME was filled in while the other directory's file was rewritten
            if len(resps) < 2 or "ok" not in resps[1]:
                return None
            want = sorted(set(resps[1]["ok"]))
        try:
            imps = top_imports(obs["new"])
        except SyntaxError:
            return None
        got = sorted({n for (m, n, a) in imps if m == case["modname"] and n != "*"})
        kept = (case["modname"], "*", None) in imps
        if (want and (kept or got != want)) or (not want and not kept):
            return "env %r: names imported from %s impl=%r kept=%r model(sibling)=%r" % (
                case["env"], case["modname"], got, kept, want)
        return None

    def _run_cli(self, root, case):
        env = dict(os.environ)
        env["PYTHONPATH"] = root + os.pathsep + os.path.join(REPO, "lib", "python")
        env["PYFLYBY_PATH"] = "EMPTY"
        env["PYFLYBY_LOG_LEVEL"] = "ERROR"
        env["PYTHONDONTWRITEBYTECODE"] = "1"
        res = {}
        p = subprocess.run([sys.executable, os.path.join(REPO, "bin", "collect-exports")] + case["targets"][:1],
                           env=env, cwd=root, stdout=subprocess.PIPE, stderr=subprocess.PIPE, text=True, timeout=120)
        res["collect_rc"] = p.returncode
        res["collect_out"] = p.stdout
        prog = os.path.join(root, "prog_c19.py")
        with open(prog, "w", encoding="utf-8") as f:
            f.write(case["program"])
        p = subprocess.run([sys.executable, os.path.join(REPO, "bin", "replace-star-imports"), "--replace", prog],
                           env=env, cwd=root, stdout=subprocess.PIPE, stderr=subprocess.PIPE, text=True, timeout=120)
        res["replace_rc"] = p.returncode
        res["replace_out"] = open(prog, encoding="utf-8").read()
        os.unlink(prog)
        return res

    # -- oracle ------------------------------------------------------------------------------
    def inspectable(self, case, t):
        """independent judgement: (True, analysis) when the target's source exists, decodes and compiles"""
        rel, is_init = target_file(case, t)
        if rel is None:
            return False, "no-source", None
        src = case["files"][rel]
        if not isinstance(src, str):
            return False, "undecodable", None
        try:
            an = analyze_module(src, t, is_init, universe_modules(case))
        except SyntaxError:
            return False, "syntax-error", None
        return True, "ok", an

    def oracle(self, case, obs):
        if case.get("kind") == "env":
            return self._oracle_env(case, obs)
        fails = []
        cpy = obs["cpy"]
        prog_imports_orig = top_imports(case["program"])
        star_targets = [m for (m, n, a) in prog_imports_orig if n == "*"]
        new = obs.get("new")
        if new is None:
            fails.append(dict(what="replace-raised", err=obs.get("replace_err"), program=case["program"]))
            new_imports = None
        else:
            try:
                new_imports = top_imports(new)
            except SyntaxError as e:
                if cpy.get("program", {}).get("orig_err") is None:
                    by_ann = False
                    for t in case["targets"]:
                        ok_, _, an_ = self.inspectable(case, t)
                        if ok_ and an_["all"] and an_["all"][0] == "lit" and an_["all"][2]:
                            by_ann = True
                    fails.append(dict(what="replace-output-does-not-parse", new=new[:300], program=case["program"],
                                      all_by_annassign=by_ann))
                new_imports = None
        analyses = {}
        for t in case["targets"]:
            ex = obs["exports"].get(t)
            c = cpy["targets"].get(t, {})
            ok, why, an = self.inspectable(case, t)
            stdlib_target = target_file(case, t)[0] is None and c.get("import_ok")
            analyses[t] = an
            nonstr_all = isinstance(c.get("all"), list) and any(x is None for x in c["all"])
            if an is not None:
                for m in an["own_star_mods"]:
                    for n in (cpy.get("stars", {}).get(m) or []):
                        an["kinds"][n] = sorted(set(an["kinds"].get(n, [])) | {"own_star"})
            # the exports the rewrite worked with: computed in the process state the case prescribes
            warm = obs.get("exports_warm", {}).get(t, {})
            ex_rw = warm["rewrite"] if "rewrite" in warm else ex
            rw_failed = isinstance(ex_rw, dict)
            # "a module that cannot be inspected leaves the star import unchanged"; also: nothing found => unchanged
            if new_imports is not None and t in star_targets and (rw_failed or ex_rw is None):
                if (t, "*", None) not in new_imports:
                    fails.append(dict(what="star-import-not-kept", target=t, exports=ex_rw, new=new[:300]))
                extra = [n for (m, n, a) in new_imports if m == t and n != "*"
                         and (m, n, a) not in prog_imports_orig]
                if extra:
                    fails.append(dict(what="names-invented-for-kept-star", target=t, names=extra))
            if new_imports is not None and t in star_targets and isinstance(ex_rw, list):
                if (t, "*", None) in new_imports:
                    fails.append(dict(what="star-import-left-although-exports-found", target=t, exports=ex_rw, new=new[:300]))
                got = {n for (m, n, a) in new_imports if m == t and (m, n, a) not in prog_imports_orig}
                if not got <= set(ex_rw):
                    fails.append(dict(what="replacement-imports-names-outside-exports", target=t,
                                      names=sorted(got - set(ex_rw)), exports=ex_rw))
            # the export list itself: as computed in a fresh process state, and (where the answer differs) as computed
            # after the module was imported / its exports were computed once before / at rewrite time
            judged = []
            for state in ("cold",) + tuple(sorted(warm)):
                e = ex if state == "cold" else warm[state]
                if e in judged:
                    continue
                if state != "cold" and not c.get("import_ok"):
                    # a module whose import raises leaves sys.modules half-filled: what a later computation sees is
                    # outside the property (it presupposes a module one can import from)
                    continue
                judged.append(e)
                fs = self._judge_exports(t, e, ok, why, an, c, stdlib_target, nonstr_all)
                if state != "cold":
                    for f in fs:
                        f["process_state"] = state
                        f["exports_fresh_process"] = ex
                fails.extend(fs)
        # the program: every name it reads stays bound to the same object
        pr = cpy.get("program", {})
        if new is not None and new_imports is not None and pr.get("orig_err") is None and "same" in pr:
            if pr.get("new_err") is not None:
                lost = self._name_of_nameerror(pr["new_err"])
                f = dict(what="program-breaks-after-replacement", err=pr["new_err"], name=lost,
                         why=self._why(lost, case, analyses, cpy, obs), program=case["program"], new=new)
                m = re.match(r"ImportError: cannot import name '([^']+)' from '([^']+)'", pr["new_err"] or "")
                if m and m.group(2) in analyses:
                    f.update(cannot_import=m.group(1), cannot_import_from=m.group(2),
                             **self._del_marks(analyses[m.group(2)], m.group(1)))
                fails.append(f)
            else:
                for r, s in sorted(pr["same"].items()):
                    if s in ("new-unbound", "different"):
                        fails.append(dict(what="program-read-changes", name=r, how=s,
                                          why=self._why(r, case, analyses, cpy, obs), program=case["program"], new=new))
        # CLI self-consistency
        cli = obs.get("cli")
        if cli:
            t = case["targets"][0]
            ex = obs["exports"].get(t)
            try:
                got = sorted({n for (m, n, a) in top_imports(cli["collect_out"]) if m == t})
            except SyntaxError:
                got = "unparsable"
            want = ex if isinstance(ex, list) else []
            if isinstance(ex, dict):
                if cli["collect_rc"] == 0:
                    fails.append(dict(what="collect-exports succeeded though exports raised", target=t))
            elif got != want and all(n.isidentifier() for n in want):
                fails.append(dict(what="collect-exports output differs from ModuleHandle.exports", got=got, want=want))
            if new is not None:
                try:
                    if sorted(map(repr, top_imports(cli["replace_out"]))) != sorted(map(repr, top_imports(new))):
                        fails.append(dict(what="replace-star-imports tool differs from the library function",
                                          tool=cli["replace_out"][:300], lib=new[:300]))
                except SyntaxError:
                    if new_imports is not None:
                        fails.append(dict(what="replace-star-imports tool wrote unparsable file", tool=cli["replace_out"][:300]))
        # (stable) failures no known-finding family claims come first, so that the cut below cannot hide them
        fails.sort(key=lambda f: any(fam(case, f) for fam in self.families.values()))
        return fails[:8]

    def _judge_exports(self, t, ex, ok, why, an, c, stdlib_target, nonstr_all):
        """the first sentence of the property for one observed export list `ex` of target `t`"""
        fails = []
        exports_failed = isinstance(ex, dict)
        if ok and exports_failed and not nonstr_all and c.get("import_ok"):
            fails.append(dict(what="exports-raised-on-inspectable-module", target=t, err=ex,
                              all_by_annassign=bool(an["all"] and an["all"][0] == "lit" and an["all"][2])))
        if not ok and not exports_failed and not stdlib_target:
            fails.append(dict(what="exports-returned-for-uninspectable-module", target=t, why=why, got=ex))
        if not ok or exports_failed or not c.get("import_ok"):
            return fails
        exs = set(ex or [])
        kinds = an["kinds"]
        allst = an["all"]
        fi = c.get("from_import", {})
        if allst and allst[0] == "lit":
            entries = allst[1]
            if isinstance(c.get("all"), list) and c["all"] != entries:
                fails.append(dict(what="harness: literal __all__ misjudged", target=t, mine=entries, cpython=c["all"]))
                return fails
            want = {e for e in entries if not e.startswith("_") and "." not in e}
            if exs != want:
                fails.append(dict(what="exports-differ-from-literal-__all__", target=t, got=sorted(exs), want=sorted(want),
                                  all_by_annassign=bool(allst[2]),
                                  extra_kinds={n: kinds.get(n, []) for n in sorted(exs - want)}))
            return fails
        # no literal __all__: exactly the public top-level defs/classes/assigned names + own re-exports
        for n in sorted(exs):
            k = set(kinds.get(n, []))
            if n.startswith("_") or "." in n:
                fails.append(dict(what="export-private-or-dotted", target=t, name=n))
            elif not k:
                fails.append(dict(what="export-not-bound-at-top-level", target=t, name=n, **self._del_marks(an, n)))
            elif k <= {"import_foreign"}:
                fails.append(dict(what="export-merely-imported-from-elsewhere", target=t, name=n, **self._del_marks(an, n)))
            elif "submodule" in k and k <= {"import_foreign", "submodule"}:
                # a submodule object is neither a def/class/assigned name nor a name re-exported *from* a submodule
                fails.append(dict(what="export-is-submodule-object", target=t, name=n,
                                  aliased=(n in an["aliased_submodules"]), **self._del_marks(an, n)))
            if n.isidentifier() and not fi.get(n, "").startswith(("ok", "module")):
                fails.append(dict(what="export-not-importable", target=t, name=n, cpython=fi.get(n),
                                  **self._del_marks(an, n)))
        for n, k in sorted(kinds.items()):
            if n.startswith("_") or n in exs:
                continue
            req = set(k) & REQUIRED_KINDS
            if req:
                fails.append(dict(what="export-missing", target=t, name=n, kinds=sorted(k),
                                  alias_clash=(n in an["alias_clash"])))
        return fails

    @staticmethod
    def _del_marks(an, n):
        """was the name's last definite top-level event a `del` through a tuple/list target / of an own re-export?"""
        return dict(deleted_nested=bool(an and n in an["deleted_nested"]),
                    deleted_reexport=bool(an and n in an["deleted_reexport"]))

    @staticmethod
    def _exports_at_rewrite(obs, t):
        """the export list `replace_star_imports` worked with (process state prescribed by the case)"""
        warm = obs.get("exports_warm", {}).get(t, {})
        return warm["rewrite"] if "rewrite" in warm else obs["exports"].get(t)

    @staticmethod
    def _name_of_nameerror(msg):
        import re
        m = re.match(r"NameError: name '([^']+)' is not defined", msg or "")
        return m.group(1) if m else None

    def _why(self, name, case, analyses, cpy, obs):
        """for a name the program lost: how each star-imported target binds it (oracle's own analysis) and
        which import statements of the program's import block bind it"""
        out = {"targets": {}, "binders": [], "kept_star_binds": False,
               "all_by_ann_targets": [t for t in case["targets"]
                                      if analyses.get(t) and analyses[t]["all"] and analyses[t]["all"][0] == "lit"
                                      and analyses[t]["all"][2]]}
        if name is None:
            return out
        new_imps = []
        try:
            new_imps = top_imports(obs.get("new") or "")
        except SyntaxError:
            pass
        for (m, n, a) in top_imports(case["program"]):
            if n == "*":
                c = cpy["targets"].get(m, {})
                if name in (c.get("star") or []):
                    out["binders"].append("star:" + m)
                    if (m, "*", None) in new_imps:
                        out["kept_star_binds"] = True
            elif (a or n) == name:
                out["binders"].append("from:" + m)
        for st in ast.parse(case["program"]).body:
            if isinstance(st, ast.Import):
                for al in st.names:
                    if (al.asname or al.name.split(".")[0]) == name:
                        out["binders"].append("import:" + al.name)
        for t in case["targets"]:
            c = cpy["targets"].get(t, {})
            if name in (c.get("star") or []):
                an = analyses.get(t)
                ex = self._exports_at_rewrite(obs, t)
                out["targets"][t] = dict(
                    kinds=(an["kinds"].get(name, []) if an else None),
                    all=(an["all"][0] if an and an["all"] else None),
                    all_by_ann=bool(an and an["all"] and an["all"][0] == "lit" and an["all"][2]),
                    alias_clash=bool(an and name in an["alias_clash"]),
                    exported=(isinstance(ex, list) and name in ex),
                    exports_state=("err" if isinstance(ex, dict) else "none" if ex is None else "list"))
        return out

    # -- model (K) -------------------------------------------------------------------------
    def model_requests(self, case, obs):
        if case.get("kind") == "env":
            return self._env_requests(case, obs)
        reqs = []
        variant = model_variant()
        mods = sorted(universe_modules(case))
        for t in case["targets"]:
            rel, is_init = target_file(case, t)
            if rel is None or not isinstance(case["files"][rel], str):
                continue
            try:
                items = abstract_items(case["files"][rel])
            except SyntaxError:
                continue
            if isinstance(obs["exports"].get(t), dict) and not obs["cpy"]["targets"].get(t, {}).get("import_ok") \
                    and obs["exports"][t].get("err") in ("ErrorDuringImportError", "ImportError", "ModuleNotFoundError"):
                # the module (or a parent package) cannot even be located/imported: locating the file is an
                # input of the model (`Inspect.fail`), not something it computes
                continue
            ex_mods = mods
            if is_init and not obs["cpy"]["targets"].get(t, {}).get("import_ok"):
                # `ModuleHandle(pkg.x).exists` imports pkg; when that raises, nothing below pkg "exists"
                ex_mods = [m for m in mods if not m.startswith(t + ".")]
            reqs.append(dict(op="exports", variant=variant, self=t.split("."), isInit=is_init,
                             exists=[m.split(".") for m in ex_mods], items=items, _t=t))
        if obs.get("new") is not None:
            try:
                blk = leading_import_block(case["program"])
                newblk = leading_import_block(obs["new"])
            except SyntaxError:
                blk = newblk = None
            if blk is not None and newblk is not None:
                tbl = []
                for (m, n, a) in blk:
                    if n == "*" and m is not None and m in obs["exports"]:
                        ex = self._exports_at_rewrite(obs, m)
                        tbl.append(dict(module=m, names=(None if isinstance(ex, dict) else (ex or []))))
                    elif n == "*" and m is not None and not any(e["module"] == m for e in tbl):
                        tbl.append(dict(module=m, names=None))
                reqs.append(dict(op="replace", imports=[dict(module=m, member=n, **{"as": a}) for (m, n, a) in blk],
                                 exportsOf=tbl))
        return reqs

    def compare(self, case, obs, resps):
        if case.get("kind") == "env":
            return self._env_compare(case, obs, resps)
        reqs = self.model_requests(case, obs)
        for rq, r in zip(reqs, resps):
            if rq["op"] == "exports":
                t = rq["_t"]
                ex = obs["exports"].get(t)
                if isinstance(ex, dict):
                    if "err" not in r:
                        return "exports(%s): impl raised %s, model returned %r" % (t, ex["err"], r.get("ok"))
                    continue
                if "err" in r:
                    return "exports(%s): model error %s, impl returned %r" % (t, r["err"], ex)
                want = sorted(set(r["ok"]))
                got = ex or []
                if got != want:
                    return "exports(%s): impl=%r model=%r" % (t, got, want)
                if obs["cpy"]["targets"].get(t, {}).get("import_ok"):
                    # the model has no process state: the same answer is expected after the module was imported /
                    # its exports were computed before (only for modules whose import succeeds, see the oracle)
                    for state, exw in sorted(obs.get("exports_warm", {}).get(t, {}).items()):
                        if isinstance(exw, dict) or (exw or []) != want:
                            return "exports(%s) in process state %r: impl=%r model=%r" % (t, state, exw, want)
            else:
                want = sorted({canon_import(i["module"], i["member"], i["as"]) for i in r["ok"]})
                got = sorted({canon_import(m, n, a) for (m, n, a) in leading_import_block(obs["new"])})
                if got != want:
                    return "replace: impl=%r model=%r" % (got, want)
        return None

    # -- bookkeeping -------------------------------------------------------------------------
    def nontrivial_key(self, case, obs):
        if case.get("kind") == "env":
            return json.dumps(case, sort_keys=True) if obs.get("new") not in (None, case["program"]) else None
        ex = obs["exports"]
        if any(isinstance(v, list) and v for v in ex.values()) or any(isinstance(v, dict) for v in ex.values()):
            return json.dumps([case["files"], case["program"]], sort_keys=True, default=str)
        return None

    def sample_repr(self, case, obs):
        if case.get("kind") == "env":
            return dict(env=case["env"], proj=case["projfiles"], lib=case["libfiles"], program=case["program"],
                        prior=case.get("priorprogram"), new=obs.get("new"))
        t = case["targets"][0]
        rel, _ = target_file(case, t)
        return dict(target=t, source=(case["files"].get(rel) if rel else None), program=case["program"],
                    exports=obs["exports"], new=obs.get("new"))

    def stats(self, case, obs, acc):
        def inc(k):
            acc[k] = acc.get(k, 0) + 1
        inc("kind_" + case.get("kind", "?"))
        if case.get("kind") == "env":
            e = case["env"]
            inc("env_%s_%s_%s" % (e["via"], e["path_mode"], "preimported" if e["preimport"] else "fresh"))
            if e.get("prior"):
                inc("env_prior_other_dir_%s" % e["via"])
            return
        for t, v in obs["exports"].items():
            inc("exports_err" if isinstance(v, dict) else "exports_none" if v is None else "exports_nonempty")
        pr = obs["cpy"].get("program", {})
        inc("program_orig_runs" if pr.get("orig_err") is None else "program_orig_fails")
        if case.get("reads"):
            inc("program_has_reads")
        if obs.get("new") is not None and obs["new"] != case["program"]:
            inc("program_rewritten")
        inc("rewrite_state_" + case.get("rewrite_state", "cold"))
        for t, w in obs.get("exports_warm", {}).items():
            if any(v != obs["exports"].get(t) for v in w.values()):
                inc("exports_differ_with_process_state")


# ----------------------------------------------------------------------------------------------
# families of the known findings (narrow predicates over (case, failure))
# ----------------------------------------------------------------------------------------------
PROGRAM_FAILS = ("program-breaks-after-replacement", "program-read-changes")


def _req(kinds):
    return set(kinds or []) & REQUIRED_KINDS


def fam_d8_forms(case, f):
    """D8: a name bound at top level ONLY by `async def`, an annotated assignment or a tuple/list target is not
    exported (and an annotated `__all__` is not seen)."""
    w = f.get("what")
    if w == "export-missing":
        r = _req(f.get("kinds"))
        return bool(r) and r <= D8_KINDS
    if w in ("exports-differ-from-literal-__all__", "exports-raised-on-inspectable-module",
             "replace-output-does-not-parse"):
        return bool(f.get("all_by_annassign"))
    if w in PROGRAM_FAILS:
        if f.get("name") is None and f.get("why", {}).get("all_by_ann_targets"):
            # the rewritten program fails inside the import itself: stale entries of an overridden __all__
            return True
        for t, d in f.get("why", {}).get("targets", {}).items():
            if d.get("exported") or d.get("exports_state") != "list" or (f.get("name") or "_").startswith("_"):
                continue
            if d.get("all") == "lit":
                if d.get("all_by_ann"):
                    return True
                continue
            r = _req(d.get("kinds"))
            if r and r <= D8_KINDS:
                return True
    return False


def fam_not_exported_by_design(case, f):
    """D8 (second half): the program reads a name that `from M import *` binds but that the property's first
    sentence keeps out of the exports: merely imported from elsewhere, a submodule object, bound only inside a
    compound statement, or private (listed in __all__ / a computed __all__)."""
    if f.get("what") not in PROGRAM_FAILS:
        return False
    name = f.get("name")
    if not name:
        return False
    for t, d in f.get("why", {}).get("targets", {}).items():
        if d.get("exported") or d.get("exports_state") != "list" or d.get("kinds") is None:
            # (nothing exported / not inspectable => the star import must have been kept: not this family)
            continue
        if name.startswith("_"):
            return True
        if d.get("all") == "lit":
            continue
        if not _req(d.get("kinds")):
            return True
    return False


def fam_own_star(case, f):
    """D30: names a package re-exports with `from .sub import *` (own submodule) are not part of its exports."""
    w = f.get("what")
    if w == "export-missing":
        return _req(f.get("kinds")) == {"own_star"}
    if w in PROGRAM_FAILS:
        for t, d in f.get("why", {}).get("targets", {}).items():
            if (not d.get("exported") and d.get("exports_state") == "list" and d.get("all") != "lit"
                    and _req(d.get("kinds")) == {"own_star"}):
                return True
    return False


def fam_alias_probe(case, f):
    """D31: `from .sub import name as alias` where `<pkg>.sub.alias` happens to be a module: the re-exported
    name `alias` is dropped (the submodule test probes the alias instead of the imported name)."""
    w = f.get("what")
    if w == "export-is-submodule-object":
        return bool(f.get("aliased"))
    if w == "export-missing":
        return bool(f.get("alias_clash")) and _req(f.get("kinds")) == {"import_own"}
    if w in PROGRAM_FAILS:
        for t, d in f.get("why", {}).get("targets", {}).items():
            if (not d.get("exported") and d.get("exports_state") == "list" and d.get("all") != "lit" and d.get("alias_clash")
                    and _req(d.get("kinds")) == {"import_own"}):
                return True
    return False


def fam_reorder_kept_star(case, f):
    """D29: a star import that is kept is moved by the canonical ordering of the import block across another
    import of the same block that binds the same name."""
    if f.get("what") not in PROGRAM_FAILS:
        return False
    w = f.get("why", {})
    return bool(w.get("kept_star_binds")) and len(w.get("binders", [])) >= 2


DEL_FAILS = ("export-not-bound-at-top-level", "export-not-importable", "export-merely-imported-from-elsewhere",
             "export-is-submodule-object", "program-breaks-after-replacement")


def fam_del_nested(case, f):
    """CD-E: a name deleted at top level through a parenthesised tuple / list target (`del (a, b)`, `del [c]`) and not
    made an export again afterwards (def / class / assignment / own re-export) is still exported: it cannot be imported,
    or is whatever a later foreign import / conditional statement bound."""
    return f.get("what") in DEL_FAILS and bool(f.get("deleted_nested"))


def fam_deletes_own_reexport(case, f):
    """CD-D: a name bound by a `from` import out of the module's own package and deleted at top level afterwards
    (not made an export again) is still exported: it cannot be imported, or is whatever a later foreign import bound."""
    return f.get("what") in DEL_FAILS and bool(f.get("deleted_reexport"))


def fam_type_alias_stmt(case, f):
    """N3: a public name bound at top level ONLY by a `type X = ...` statement is not exported."""
    w = f.get("what")
    if w == "export-missing":
        return _req(f.get("kinds")) == {"typealias"}
    if w in PROGRAM_FAILS:
        for t, d in f.get("why", {}).get("targets", {}).items():
            if (not d.get("exported") and d.get("exports_state") == "list" and d.get("all") != "lit"
                    and _req(d.get("kinds")) == {"typealias"}):
                return True
    return False


def fam_stale_handle_other_dir(case, f):
    """N1: a file star-importing its sibling module is rewritten after a file in ANOTHER directory that star-imports
    its own sibling of the same name (same process / one `replace-star-imports a/x.py b/y.py`): the per-name
    ModuleHandle answers with the other directory's exports.  Only env cases with a prior rewrite, and only when the
    explicit list is made of names the OTHER directory's module binds at top level."""
    if case.get("kind") != "env" or not case["env"].get("prior") or not str(f.get("what", "")).startswith("env: "):
        return False
    if f.get("what") == "env: rewrite failed" or f.get("new") is None:
        return False
    mod = case["modname"]
    try:
        listed = {n for (m, n, a) in top_imports(f["new"]) if m == mod and n != "*"}
        lsrc = case["libfiles"].get(mod + ".py", case["libfiles"].get(mod + "/__init__.py"))
        bound = set()
        for node in ast.parse(lsrc).body:
            if isinstance(node, (ast.FunctionDef, ast.ClassDef)):
                bound.add(node.name)
            elif isinstance(node, ast.Assign):
                bound.update(t.id for t in node.targets if isinstance(t, ast.Name))
    except (SyntaxError, TypeError):
        return False
    return bool(listed) and listed <= bound


C19.families = {"stale_handle_other_dir": fam_stale_handle_other_dir, "type_alias_stmt": fam_type_alias_stmt, "del_nested": fam_del_nested, "deletes_own_reexport": fam_deletes_own_reexport,
                "d8_forms": fam_d8_forms, "not_exported_by_design": fam_not_exported_by_design,
                "own_star": fam_own_star, "reorder_kept_star": fam_reorder_kept_star, "alias_probe": fam_alias_probe}

PROP = C19()
