"""
python harness/adopt_seed.py /tmp/mutout_Cxx/<k> <seeded-id>
Confirm a candidate seeded change independently (demo exits 0 on a clean worktree, non-zero with the patch; the
related tests still pass with the patch) and, if confirmed, store it as /verif/seeded/<seeded-id>/.
"""
import json, os, shutil, subprocess, sys, tempfile
VERIF = os.path.dirname(os.path.dirname(os.path.abspath(__file__)))
TESTS = ["tests/test_parse.py", "tests/test_file.py", "tests/test_imports2s.py", "tests/test_importstmt.py",
         "tests/test_importclns.py", "tests/test_format.py", "tests/test_autoimp.py", "tests/test_cmdline.py",
         "tests/test_importdb.py", "tests/test_modules.py", "tests/test_idents.py", "tests/test_flags.py", "tests/test_util.py"]
EXTRA = {"_livepatch": ["tests/test_livepatch.py"], "_saveframe": ["tests/test_saveframe.py", "tests/test_saveframe_reader.py"],
         "_py.py": ["tests/test_py.py"]}

def sh(cmd, **kw):
    return subprocess.run(cmd, stdout=subprocess.PIPE, stderr=subprocess.STDOUT, text=True, **kw)

src, sid = sys.argv[1], sys.argv[2]
patch = os.path.join(src, "patch.diff")
wt = tempfile.mkdtemp(prefix="pfb_adopt_"); os.rmdir(wt)
sh(["git", "-C", "/repo", "worktree", "add", "--detach", wt, "HEAD"])
ok = True
report = {}
try:
    env = dict(os.environ, PYTHONPATH=os.path.join(wt, "lib", "python"))
    env.pop("DESHAW_PYFLYBY_VERIF", None)
    r = sh(["/venv/bin/python", os.path.join(src, "demo.py")], env=env, cwd=wt, timeout=600)
    report["demo_clean_rc"] = r.returncode
    r = sh(["git", "-C", wt, "apply", patch])
    report["patch_applies"] = r.returncode == 0
    r = sh(["/venv/bin/python", "-c", "import pyflyby; print(pyflyby.__file__)"], env=env, cwd=wt)
    report["imports_from"] = r.stdout.strip()
    r = sh(["/venv/bin/python", os.path.join(src, "demo.py")], env=env, cwd=wt, timeout=600)
    report["demo_mutated_rc"] = r.returncode
    report["demo_mutated_tail"] = r.stdout[-300:]
    tests = list(TESTS)
    ptxt = open(patch).read()
    for k, v in EXTRA.items():
        if k in ptxt:
            tests += v
    # compare with the pinned baseline (guard off)
    r = sh(["/venv/bin/python", os.path.join(VERIF, "harness", "baseline.py")] + tests, env=dict(env, VERIF_REPO=wt), timeout=3000)
    report["tests"] = r.stdout.strip().splitlines()[-3:]
    report["tests_rc"] = r.returncode
    ok = (report["demo_clean_rc"] == 0 and report["patch_applies"] and report["demo_mutated_rc"] != 0
          and report["tests_rc"] == 0 and wt in report["imports_from"])
finally:
    sh(["git", "-C", "/repo", "worktree", "remove", "--force", wt])
    shutil.rmtree(wt, ignore_errors=True)
print(json.dumps(report, indent=1))
if ok:
    dst = os.path.join(VERIF, "seeded", sid)
    os.makedirs(dst, exist_ok=True)
    shutil.copy(patch, os.path.join(dst, "patch.diff"))
    shutil.copy(os.path.join(src, "demo.py"), os.path.join(dst, "demo.py"))
    meta = json.load(open(os.path.join(src, "meta.json")))
    meta["confirmed_by_lead"] = dict(demo_clean_rc=report["demo_clean_rc"], demo_mutated_rc=report["demo_mutated_rc"],
                                     tests=report["tests"], ran="harness/adopt_seed.py in a scratch worktree of /repo HEAD")
    json.dump(meta, open(os.path.join(dst, "meta.json"), "w"), indent=1)
    print("ADOPTED", sid)
else:
    print("REJECTED", sid)
