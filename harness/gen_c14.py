"""
gen_c14 — the "shell lab" shared by C14 and C13, and the op-sequence generators of C14.

One *zygote* process per configuration builds a real IPython shell once
(TerminalIPythonApp, private IPYTHONDIR, history off) and then, for every job,
forks a child that runs the job on its own copy-on-write copy of the pristine
shell and reports a JSON observation.  So every case starts from the same fresh
shell at a cost of a few milliseconds, children run in parallel, and the harness
process itself never imports IPython.

Configurations
  terminal  TerminalIPythonApp, --simple-prompt, Completer.use_jedi=False  (main runs)
  jedi      same with the default Completer.use_jedi=True: under IPython 9 `enable()` hits
            AttributeError (IPCompleter.python_matches is gone) and the importer withdraws
  embedded  bare InteractiveShell.instance() without an application object: pyflyby builds a
            new _DummyIPythonEmbeddedApp (and a new AutoImporter) per API call

Protocol (zygote stdin/stdout, one JSON object per line):
  -> {"jobs": [job, ...]}      <- {"results": [obs, ...]}      (same order)
A job is {"kind": "c14"|"c13"|..., ...}; obs is whatever the runner returns, or
{"lab_error": "..."} if the child died / timed out.
"""
from __future__ import annotations

import json
import os
import select
import signal
import subprocess
import sys
import tempfile
import time
import traceback

HERE = os.path.dirname(os.path.abspath(__file__))

N_MODS = 24          # importable modules zzq_mod_<i> with VALUE = i, known to the database
N_FNS = 6            # `from zzq_src import zzq_fn_<i>` known to the database
N_BAD = 4            # zzq_bad_<i>: known to the database, raise RuntimeError when imported
CMP = "abcdefgh"     # zzq_cmp_<c>_mod: known names used only by `complete` ops (one distinct prefix each)
N_INT = 3            # zzq_int_<i> / zzq_exit_<i>: known to the database; importing them raises KeyboardInterrupt / SystemExit
                     # (the user hits Ctrl-C during a slow import; a module that calls sys.exit() at import time)
N_CALL = 6           # `from zzq_src import zzq_call_<i>` (accepts any arguments): for autocall cells `zzq_call_3 7`
CHILD_TIMEOUT_S = 40
MAX_PAR = max(2, min(14, (os.cpu_count() or 4) - 2))

ODD_PATHS = [("zzq dir with space", "my script"), ("zzq+plus~tilde", "s+c~r"), ("zzq(paren)[1]", "scr(1)"),
             ("zzq_\u00e9\u00e8_\u4e2d", "scr\u00efpt"), ("zzq#hash&amp", "a'b"), ("zzq=eq,comma@at{b}", "ok=1,2@x")]

# "third-party" steps: what another extension / the user may do to IPython's hook registries between our ops
F_OPS = ["f_rebind_ast", "f_rebind_cleanup", "f_rebind_post", "f_add_ast", "f_rm_ast", "f_filter_ast",
         "f_add_cleanup", "f_rm_cleanup", "f_rebind_matchers", "f_set_hook"]
# third-party steps that remove pyflyby's own entries (a reset of the list, an over-eager clean-up)
F_REMOVALS = ["f_clear_ast", "f_drop_pf_ast", "f_drop_pf_cleanup"]
F_WRAP = "f_wrap"       # foreign advice on top of a joinpoint (kept out of the generated alphabet, see notes/C14.md)
F_WRAP_GM = "f_wrap_gm"  # another extension wraps ip.Completer.global_matches, keeping the previous callable (C13 only, O-only)

OPS = ["enable", "enable_again", "disable", "load_ext", "unload_ext", "reload_ext", "run_cell", "complete"]
# hunt 2 (C14-H2): load_ext while sys.stderr is a StringIO (the optional debug tools of load_ipython_extension cannot be set up)
LOAD_NOFD = "load_ext_nofd"
# round 4: other ways in which "a cell reads a known name" (each reaches a different installed hook) ...
CELL_FORMS = ["pinfo", "autocall", "prun", "run_script", "complete_attr"]
# ... and cells whose auto-import is interrupted by a BaseException raised by the imported module
INTERRUPT_OPS = ["run_kbint", "run_sysexit"]
CELL_OPS = ["run_cell"] + CELL_FORMS[:4] + INTERRUPT_OPS        # executed through ip.run_cell
COMPLETE_OPS = ["complete", "complete_attr"]
OBS_OPS = CELL_OPS + COMPLETE_OPS
# round 4: ops on an application that is not initialised yet (config "preinit"): a prefix over PRE_OPS, then exactly one of
# INIT_OPS (app.initialize(argv) / the same with `--ext pyflyby`, i.e. IPython loads the extension in init_extensions),
# then ordinary ops
PRE_OPS = ["enable", "enable_again", "disable"]
INIT_OPS = ["initialize", "initialize_ext"]
ARGV = ["--simple-prompt", "--no-banner", "--colors=nocolor", "--HistoryManager.enabled=False"]


# ----------------------------------------------------------------------------
# environment shared by all configurations (files under one temp dir)
# ----------------------------------------------------------------------------

def make_env(root):
    mods = os.path.join(root, "mods")
    os.makedirs(mods, exist_ok=True)
    for i in range(N_MODS):
        with open(os.path.join(mods, f"zzq_mod_{i}.py"), "w") as f:
            f.write(f"VALUE = {1000 + i}\nOTHER = 'o{i}'\n")
    with open(os.path.join(mods, "zzq_src.py"), "w") as f:
        for i in range(N_FNS):
            f.write(f"def zzq_fn_{i}():\n    return {2000 + i}\n")
        for i in range(N_CALL):
            f.write(f"def zzq_call_{i}(*a):\n    return ({3000 + i}, a)\n")
    for i in range(N_INT):
        with open(os.path.join(mods, f"zzq_int_{i}.py"), "w") as f:
            f.write("raise KeyboardInterrupt\n")
        with open(os.path.join(mods, f"zzq_exit_{i}.py"), "w") as f:
            f.write("import sys\nsys.exit(3)\n")
    for i in range(N_MODS):
        with open(os.path.join(mods, f"zzq_scr_{i}.py"), "w") as f:
            f.write(f"zzq_scr_value_{i} = zzq_mod_{i}.VALUE + 1\nprint('script {i} ran', zzq_scr_value_{i})\n")
    for i in range(N_BAD):
        with open(os.path.join(mods, f"zzq_bad_{i}.py"), "w") as f:
            f.write(f"raise RuntimeError('zzq_bad_{i} refuses to be imported')\n")
    for c in CMP:
        with open(os.path.join(mods, f"zzq_cmp_{c}_mod.py"), "w") as f:
            f.write(f"VALUE = '{c}'\n")
    with open(os.path.join(mods, "zzq_script.py"), "w") as f:
        f.write("zzq_script_value = zzq_mod_20.VALUE + 1\nprint('script ran', zzq_script_value)\n")
    with open(os.path.join(mods, "zzq_script_plain.py"), "w") as f:
        f.write("zzq_plain_value = 41 + 1\nprint('plain script ran', zzq_plain_value)\n")
    # hunt 2 (C13-H3): valid scripts that do not decode as plain UTF-8 text: a UTF-8 BOM, a PEP 263 latin-1 cookie
    with open(os.path.join(mods, "zzq_script_enc_0.py"), "wb") as f:
        f.write(b"\xef\xbb\xbfzzq_enc_value = 40 + 1\nprint('bom script ran', zzq_enc_value)\n")
    with open(os.path.join(mods, "zzq_script_enc_1.py"), "wb") as f:
        f.write(b"# -*- coding: latin-1 -*-\nzzq_enc_value = len('caf\xe9')\nprint('latin script ran', zzq_enc_value)\n")
    # scripts under unusual-but-legitimate paths (pyflyby's Filename class accepts only [a-zA-Z0-9_=+{}/.,~@-])
    for j, (d, fn) in enumerate(ODD_PATHS):
        os.makedirs(os.path.join(mods, d), exist_ok=True)
        with open(os.path.join(mods, d, fn + "_plain.py"), "w") as f:
            f.write(f"zzq_odd_value_{j} = {j} + 100\nprint('odd script {j} ran', zzq_odd_value_{j})\n")
        with open(os.path.join(mods, d, fn + "_needs.py"), "w") as f:
            f.write(f"zzq_odd_needs_{j} = zzq_mod_21.VALUE + {j}\nprint('odd script {j} ran', zzq_odd_needs_{j})\n")
    db = os.path.join(root, "db_good.py")
    with open(db, "w") as f:
        for i in range(N_MODS):
            f.write(f"import zzq_mod_{i}\n")
        for i in range(N_FNS):
            f.write(f"from zzq_src import zzq_fn_{i}\n")
        for i in range(N_BAD):
            f.write(f"import zzq_bad_{i}\n")
        for c in CMP:
            f.write(f"import zzq_cmp_{c}_mod\n")
        for i in range(N_CALL):
            f.write(f"from zzq_src import zzq_call_{i}\n")
        for i in range(N_INT):
            f.write(f"import zzq_int_{i}\nimport zzq_exit_{i}\n")
    with open(os.path.join(root, "db_malformed.py"), "w") as f:
        f.write("import zzq_mod_0\nthis is not ( python\n")
    # "unreadable": a directory entry that cannot be read as a file even by root
    os.makedirs(os.path.join(root, "db_unreadable.py"), exist_ok=True)
    with open(os.path.join(root, "db_unreadable.py", "x.py"), "w") as f:
        f.write("import zzq_mod_0\n\x00\x00garbage(\n")
    # a module that is importable only through the implicit '' entry of sys.path (cwd of the shells = root)
    with open(os.path.join(root, "zzq_localhelper.py"), "w") as f:
        f.write("WHERE = 'cwd'\n")
    os.makedirs(os.path.join(root, "ipdir"), exist_ok=True)
    os.makedirs(os.path.join(root, "out"), exist_ok=True)
    return dict(root=root, mods=mods, db=db)


# ----------------------------------------------------------------------------
# client side (harness process)
# ----------------------------------------------------------------------------

class Lab:
    """Owns one temp dir and up to one zygote per configuration."""

    def __init__(self, repo):
        self.repo = repo
        self.root = tempfile.mkdtemp(prefix="pfbverif_c14_")
        self.env = make_env(self.root)
        self.zyg = {}

    def _start(self, config):
        env = dict(os.environ)
        env["IPYTHONDIR"] = os.path.join(self.root, "ipdir")
        env["PYFLYBY_PATH"] = self.env["db"]
        env["PYFLYBY_LOG_LEVEL"] = "INFO"
        env["VERIF_REPO"] = self.repo
        env["LAB_ROOT"] = self.root
        env["DESHAW_PYFLYBY_VERIF"] = "1"
        env.pop("PYTHONSTARTUP", None)
        env["TERM"] = "dumb"
        p = subprocess.Popen([sys.executable, os.path.abspath(__file__), "--zygote", config],
                             stdin=subprocess.PIPE, stdout=subprocess.PIPE, stderr=subprocess.DEVNULL,
                             env=env, cwd=self.root, text=True, bufsize=1)
        line = p.stdout.readline()
        if not line.strip():
            raise RuntimeError(f"lab zygote {config} did not start")
        hello = json.loads(line)
        if "ready" not in hello:
            raise RuntimeError(f"lab zygote {config}: {hello}")
        self.zyg[config] = p
        return p

    def run(self, config, jobs):
        if not jobs:
            return []
        p = self.zyg.get(config)
        if p is None or p.poll() is not None:
            p = self._start(config)
        p.stdin.write(json.dumps({"jobs": jobs}) + "\n")
        p.stdin.flush()
        line = p.stdout.readline()
        if not line.strip():
            raise RuntimeError(f"lab zygote {config} died")
        return json.loads(line)["results"]

    def run_mixed(self, jobs):
        """jobs carry job['config']; returns observations in order."""
        by = {}
        for i, j in enumerate(jobs):
            by.setdefault(j.get("config", "terminal"), []).append(i)
        out = [None] * len(jobs)
        for cfg, idx in by.items():
            res = self.run(cfg, [jobs[i] for i in idx])
            for i, r in zip(idx, res):
                out[i] = r
        return out

    def close(self):
        for p in self.zyg.values():
            try:
                p.stdin.close()
                p.wait(timeout=5)
            except Exception:
                try:
                    p.kill()
                except Exception:
                    pass
        self.zyg = {}
        import shutil
        shutil.rmtree(self.root, ignore_errors=True)


# ----------------------------------------------------------------------------
# zygote side
# ----------------------------------------------------------------------------

G = {}   # globals of the zygote/child: ip, app, config, root


def _build_shell(config):
    root = os.environ["LAB_ROOT"]
    repo = os.environ.get("VERIF_REPO", "/repo")
    sys.path.insert(0, os.path.join(root, "mods"))
    sys.path.insert(0, os.path.join(repo, "lib", "python"))
    import pyflyby  # noqa
    assert os.path.realpath(pyflyby.__file__).startswith(os.path.realpath(repo)), pyflyby.__file__
    if config in ("terminal", "jedi"):
        from IPython.terminal.ipapp import TerminalIPythonApp
        app = TerminalIPythonApp.instance()
        argv = list(ARGV)
        if config == "terminal":
            argv.append("--Completer.use_jedi=False")
        app.initialize(argv)
        ip = app.shell
    elif config == "usermod":
        # an application that gives its shell a module AND a separate local namespace (the public constructor
        # parameters `user_module` / `user_ns`, what IPython.embed() inside a function amounts to):
        # ip.user_ns is not ip.user_global_ns
        import types
        from IPython.terminal.ipapp import TerminalIPythonApp
        mod = types.ModuleType("zzq_embedding_module")
        mod.zzq_global = 1
        local_ns = {"zzq_local": 2}

        class ZzqUserModApp(TerminalIPythonApp):
            def init_shell(self):
                self.shell = self.interactive_shell_class.instance(
                    parent=self, profile_dir=self.profile_dir, ipython_dir=self.ipython_dir,
                    user_ns=local_ns, user_module=mod)
                self.shell.configurables.append(self)
        app = ZzqUserModApp.instance()
        app.initialize(ARGV + ["--Completer.use_jedi=False"])
        ip = app.shell
        assert ip.user_ns is local_ns and ip.user_global_ns is mod.__dict__ and ip.user_ns is not ip.user_global_ns
    elif config == "preinit":
        # the application object exists, app.initialize() has not run: no shell yet (the situation of `py`,
        # start_ipython_with_autoimporter() and of pyflyby.enable_auto_importer() in ipython_config.py)
        from IPython.terminal.ipapp import TerminalIPythonApp
        import IPython.core.interactiveshell, IPython.core.completer, IPython.core.debugger  # noqa
        import IPython.terminal.debugger, IPython.core.magics  # noqa
        app = TerminalIPythonApp.instance()
        G.update(ip=None, app=app, config=config, root=root, repo=repo)
        return None
    elif config == "embedded":
        from traitlets.config import Config
        from IPython.core.interactiveshell import InteractiveShell
        c = Config()
        c.HistoryManager.enabled = False
        c.Completer.use_jedi = False
        c.InteractiveShell.colors = "nocolor"
        ip = InteractiveShell.instance(config=c)
        import builtins
        builtins.get_ipython = lambda: ip
        app = None
    else:
        raise ValueError(config)
    G.update(ip=ip, app=app, config=config, root=root, repo=repo)
    _warm_up(ip)
    return ip


def _warm_up(ip):
    # materialise IPython's lazily created attributes before any snapshot is taken
    from IPython.utils.capture import capture_output
    with capture_output():
        ip.run_cell("zzq_warmup_undefined_name", store_history=False)
        ip.run_cell("1+1", store_history=False)
        ip.complete("zzq_warm")
        ip.complete("os.pa")
        ip.run_cell("pass", store_history=False)


def lab_initialize(with_ext):
    """config "preinit", in the child: app.initialize(); `with_ext`: IPython itself loads the pyflyby extension
    (InteractiveShellApp.extra_extensions, as `ipython --ext pyflyby` / c.InteractiveShellApp.extensions do)"""
    app = G["app"]
    argv = ARGV + ["--Completer.use_jedi=False"]
    if with_ext:
        argv += ["--ext", "pyflyby"]
    app.initialize(argv)
    G["ip"] = app.shell
    _warm_up(app.shell)


def _child(job, outpath):
    """Runs in the forked child: never returns."""
    try:
        dn = os.open(os.devnull, os.O_RDONLY)
        os.dup2(dn, 0)
        signal.alarm(CHILD_TIMEOUT_S)
        kind = job.get("kind")
        cov = _cov_start() if os.environ.get("LAB_COV") else None
        if kind == "c14":
            obs = run_c14(job)
        elif kind == "c13":
            import gen_c13
            obs = gen_c13.run_c13(job)
        elif kind == "probe":
            obs = run_probe(job)
        else:
            obs = {"lab_error": "unknown job kind %r" % (kind,)}
    except BaseException as e:
        obs = {"lab_error": "child exception: " + "".join(traceback.format_exception_only(type(e), e)).strip(),
               "tb": traceback.format_exc()[-1500:]}
    try:
        if os.environ.get("LAB_COV"):
            _cov_dump()
        with open(outpath, "w") as f:
            json.dump(obs, f, default=str)
    finally:
        os._exit(0)


_COV_HITS = set()


def _cov_start():
    """dev aid (LAB_COV=<dir>): line coverage of pyflyby inside the forked child, see notes/C14.md 'covgap'"""
    mon = sys.monitoring
    tool = mon.COVERAGE_ID
    try:
        mon.use_tool_id(tool, "labcov")
    except ValueError:
        pass
    prefix = os.path.join(os.path.realpath(G.get("repo") or os.environ.get("VERIF_REPO", "/repo")), "lib", "python", "pyflyby")

    def line_cb(code, line):
        if code.co_filename.startswith(prefix):
            _COV_HITS.add((code.co_filename, line))
        return mon.DISABLE
    mon.register_callback(tool, mon.events.LINE, line_cb)
    mon.set_events(tool, mon.events.LINE)
    return True


def _cov_dump():
    d = os.environ["LAB_COV"]
    with open(os.path.join(d, "cov_%d.json" % os.getpid()), "w") as f:
        json.dump(sorted(_COV_HITS), f)


def _zygote_main(config):
    proto_out = os.fdopen(os.dup(1), "w", buffering=1)
    dn = os.open(os.devnull, os.O_WRONLY)
    os.dup2(dn, 1)
    os.dup2(dn, 2)
    sys.path.insert(0, HERE)
    sys.modules["gen_c14"] = sys.modules["__main__"]   # one copy of G for gen_c13's `import gen_c14`
    try:
        _build_shell(config)
        if True:
            import gen_c13  # noqa  (so children need not import after fork)
    except BaseException as e:
        proto_out.write(json.dumps({"fatal": traceback.format_exc()[-2000:]}) + "\n")
        os._exit(3)
    proto_out.write(json.dumps({"ready": config}) + "\n")
    outdir = os.path.join(G["root"], "out")
    serial = 0
    for line in sys.stdin:
        line = line.strip()
        if not line:
            continue
        jobs = json.loads(line)["jobs"]
        results = [None] * len(jobs)
        running = {}   # pid -> (index, path, t0)
        nxt = 0
        while nxt < len(jobs) or running:
            while nxt < len(jobs) and len(running) < MAX_PAR:
                serial += 1
                path = os.path.join(outdir, f"{config}_{serial}.json")
                pid = os.fork()
                if pid == 0:
                    _child(jobs[nxt], path)
                running[pid] = (nxt, path, time.time())
                nxt += 1
            # reap
            try:
                pid, status = os.waitpid(-1, os.WNOHANG)
            except ChildProcessError:
                pid = 0
            if pid == 0:
                now = time.time()
                for p, (i, path, t0) in list(running.items()):
                    if now - t0 > CHILD_TIMEOUT_S + 5:
                        try:
                            os.kill(p, signal.SIGKILL)
                        except OSError:
                            pass
                time.sleep(0.002)
                continue
            if pid in running:
                i, path, t0 = running.pop(pid)
                try:
                    with open(path) as f:
                        results[i] = json.load(f)
                    os.unlink(path)
                except Exception as e:
                    results[i] = {"lab_error": f"child died (status {status}): {e}"}
        proto_out.write(json.dumps({"results": results}, default=str) + "\n")
    os._exit(0)


# ----------------------------------------------------------------------------
# snapshots of everything the auto-importer could patch
# ----------------------------------------------------------------------------

class Ident:
    """object identity -> small integers in first-seen order (objects are kept alive)."""

    def __init__(self):
        self.ids = {}
        self.keep = []

    def __call__(self, o):
        k = id(o)
        if k not in self.ids:
            self.ids[k] = len(self.ids)
            self.keep.append(o)
        return self.ids[k]


def _is_pf(v):
    try:
        m = getattr(v, "__module__", None)
        if isinstance(m, str) and m.startswith("pyflyby"):
            return True
        m = getattr(type(v), "__module__", None)
        if isinstance(m, str) and m.startswith("pyflyby"):
            return True
        f = getattr(v, "fget", None) or getattr(v, "__func__", None) or getattr(v, "__wrapped__", None)
        if f is not None and f is not v:
            return _is_pf(f)
    except Exception:
        pass
    return False


def _vname(v):
    for a in ("__name__", "__qualname__"):
        try:
            n = getattr(v, a, None)
            if isinstance(n, str):
                return n
        except Exception:
            pass
    f = getattr(v, "fget", None) or getattr(v, "__func__", None)
    if f is not None:
        return _vname(f)
    return type(v).__name__


_PRIM = (str, bytes, int, float, bool, type(None))


def _containers():
    ip, app = G["ip"], G["app"]
    out = {}
    if ip is None:          # config "preinit" before app.initialize(): only the application exists
        out["app"] = app.__dict__
        out["app.traits"] = app._trait_values
        _class_containers(out)
        return out
    out["ip"] = ip.__dict__
    out["ip.traits"] = ip._trait_values
    comp = getattr(ip, "Completer", None)
    if comp is not None:
        out["Completer"] = comp.__dict__
        out["Completer.traits"] = comp._trait_values
        out["type(Completer)"] = dict(vars(type(comp)))
    tb = getattr(ip, "InteractiveTB", None)
    if tb is not None:
        out["InteractiveTB"] = tb.__dict__
    lm = ip.magics_manager.magics["line"]
    out["line_magics"] = lm
    out["cell_magics"] = ip.magics_manager.magics["cell"]
    seen = set()
    for nm in ("prun", "debug", "time", "timeit", "run"):
        try:
            em = lm[nm].__self__
        except Exception:
            continue
        if id(em) in seen:
            continue
        seen.add(id(em))
        out["magics:" + type(em).__name__] = em.__dict__
    if app is not None:
        out["app"] = app.__dict__
        out["app.traits"] = app._trait_values
    _class_containers(out)
    try:
        out["events"] = ip.events.callbacks
        out["hooks"] = dict(ip.hooks)
        out["itm"] = ip.input_transformer_manager.__dict__
        out["extension_manager"] = {"loaded": sorted(ip.extension_manager.loaded)}
        out["compile"] = ip.compile.__dict__
        out["displayhook"] = ip.displayhook.__dict__
    except Exception:
        pass
    return out


def _class_containers(out):
    try:
        from IPython.core import debugger
        out["Pdb"] = {"__init__": vars(debugger.Pdb).get("__init__")}
        from IPython.terminal.debugger import TerminalPdb
        out["TerminalPdb"] = {"__init__": vars(TerminalPdb).get("__init__")}
    except Exception:
        pass
    try:
        from traitlets.config.configurable import SingletonConfigurable
        out["SingletonConfigurable"] = {"instance": vars(SingletonConfigurable).get("instance")}
        from traitlets.config.application import Application
        out["Application"] = {"instance": vars(Application).get("instance")}
    except Exception:
        pass


def shape(snap):
    """a snapshot without object identities: {key: kind/pyflyby?/name}; comparable between two processes"""
    def sh(t):
        if t[0] == "l":
            return ["l", [sh(e) for e in t[1]]]
        if t[0] == "o":
            return ["o", t[2], t[3]]
        return t
    return {k: sh(v) for k, v in snap.items()}


def snapshot(ident):
    """{key: token}.  token = ["o", idx, is_pyflyby, name] | ["l", [token...]] ; absent keys are absent."""
    snap = {}

    def tok(v):
        if isinstance(v, _PRIM):
            return ["p", repr(v)[:40]]
        return ["o", ident(v), bool(_is_pf(v)), _vname(v)[:60]]

    for cname, d in _containers().items():
        try:
            items = list(d.items())
        except Exception:
            continue
        for k, v in items:
            if not isinstance(k, str):
                continue
            try:
                if isinstance(v, (list, tuple)):
                    if len(v) > 200:
                        continue
                    snap[cname + "." + k] = ["l", [tok(e) for e in v]]
                elif isinstance(v, _PRIM) or isinstance(v, (dict, set, frozenset)):
                    continue
                elif callable(v) or isinstance(v, (property, classmethod, staticmethod)) or _is_pf(v):
                    snap[cname + "." + k] = tok(v)
            except Exception:
                continue
    return snap


def snap_diff(a, b):
    """keys whose token differs: {key: [tok_a|None, tok_b|None]}"""
    out = {}
    for k in set(a) | set(b):
        if a.get(k) != b.get(k):
            out[k] = [a.get(k), b.get(k)]
    return out


def importer_view():
    """What the AutoImporter object says about itself (None if there is none yet)."""
    app = G["app"]
    ai = getattr(app, "auto_importer", None) if app is not None else None
    if ai is None:
        return None
    return dict(state=str(ai._state), errored=bool(ai._errored), ndisablers=len(ai._disablers),
                ast=ai._ast_transformer is not None)


# the joinpoints and hook lists of the Lean model, in the model's order
JOINPOINTS = [
    ("ofind", lambda ip: (ip.__dict__, "_ofind")),
    ("prun", lambda ip: (ip.magics_manager.magics["line"]["prun"].__self__.__dict__, "_run_with_profiler")),
    ("global_matches", lambda ip: (ip.Completer.__dict__, "global_matches")),
    ("attr_matches", lambda ip: (ip.Completer.__dict__, "attr_matches")),
    ("safe_execfile", lambda ip: (ip.__dict__, "safe_execfile")),
    ("debugger", lambda ip: (ip.InteractiveTB.__dict__, "debugger")),
    ("run_with_debugger", lambda ip: (ip.magics_manager.magics["line"]["debug"].__self__.__dict__, "_run_with_debugger")),
]
# the attributes _enable_initializer_hooks advises on an application that has no shell yet
APP_JOINPOINTS = ["init_shell", "initialize_subcommand"]
HOOKLISTS = [("ast_transformers", lambda ip: ip.ast_transformers),
             ("input_transformers_cleanup", lambda ip: ip.input_transformers_cleanup)]


def model_view(ident):
    """The part of the shell the Lean model talks about, canonicalised:
       joinpoint -> "unset" | ["adv", depth]  (depth = number of pyflyby wrappers stacked) | ["ext"]
       hook list -> list of "ext" | "pf"."""
    ip = G["ip"]

    def slot(d, k):
        if k not in d:
            return "unset"
        v = d[k]
        depth = 0
        ids = []
        while getattr(v, "__aspect__", None) is not None and depth < 50:
            depth += 1
            ids.append(ident(v))
            v = v.__original__
        return ["adv", depth, ids] if depth else ["ext"]

    jp = {}
    for name, get in JOINPOINTS:
        if ip is None:
            jp[name] = "unset"       # no shell yet
            continue
        try:
            d, k = get(ip)
        except Exception:
            jp[name] = "missing"
            continue
        jp[name] = slot(d, k)
    hl = {}
    hlobj = {}
    for name, get in HOOKLISTS:
        if ip is None:
            hl[name], hlobj[name] = [], None
            continue
        hl[name] = [["pf", ident(e)] if _is_pf(e) else ["ext", ident(e)] for e in get(ip)]
        hlobj[name] = ident(get(ip))          # identity of the list object bound now
    ajp = {}
    if G["app"] is not None:
        for name in APP_JOINPOINTS:
            ajp[name] = slot(G["app"].__dict__, name)
    return dict(jp=jp, hl=hl, hlobj=hlobj, ajp=ajp)


# ----------------------------------------------------------------------------
# C14 job: an op sequence on one shell
# ----------------------------------------------------------------------------

class FileCap:
    """stdout/stderr of the child go to two real files (so .fileno() works, unlike StringIO);
    `with cap:` brackets one op and leaves what was written in cap.stdout / cap.stderr."""

    def __init__(self):
        d = os.path.join(G["root"], "out")
        self.fo = open(os.path.join(d, "cap_%d_o" % os.getpid()), "w+")
        self.fe = open(os.path.join(d, "cap_%d_e" % os.getpid()), "w+")
        os.unlink(self.fo.name)
        os.unlink(self.fe.name)
        sys.stdout = self.fo
        sys.stderr = self.fe
        os.dup2(self.fo.fileno(), 1)
        os.dup2(self.fe.fileno(), 2)
        self.stdout = self.stderr = ""

    def __enter__(self):
        self.fo.flush(); self.fe.flush()
        self.po, self.pe = self.fo.tell(), self.fe.tell()
        return self

    def __exit__(self, *a):
        for f in (sys.stdout, sys.stderr, self.fo, self.fe):
            try:
                f.flush()
            except Exception:
                pass
        self.fo.seek(self.po); self.stdout = self.fo.read()
        self.fe.seek(self.pe); self.stderr = self.fe.read()
        self.fo.seek(0, 2); self.fe.seek(0, 2)
        return False


def _capture():
    if "cap" not in G or G.get("cap_pid") != os.getpid():
        G["cap"] = FileCap()
        G["cap_pid"] = os.getpid()
    return G["cap"]


def _strip_pf_lines(s):
    return "".join(l for l in s.splitlines(True) if "[PYFLYBY]" not in l)


class ZzqForeignAst:
    """a third party's AST transformer: rewrites the string constant 'zzq_foreign_probe' (nothing else), so that
    a cell can show whether the transformer ran"""
    n = 0

    def __init__(self):
        ZzqForeignAst.n += 1
        self.__name__ = "zzq_foreign_ast_%d" % ZzqForeignAst.n

    def visit(self, node):
        import ast
        for n in ast.walk(node):
            if isinstance(n, ast.Constant) and isinstance(n.value, str) and n.value.startswith("zzq_foreign_probe"):
                n.value = n.value + "+seen_by_" + self.__name__
        return node


def _foreign_cleanup():
    G["fc_n"] = G.get("fc_n", 0) + 1

    def f(lines):
        return lines
    f.__name__ = f.__qualname__ = "zzq_foreign_cleanup_%d" % G["fc_n"]
    return f


def do_foreign(op):
    ip = G["ip"]
    itm = ip.input_transformer_manager
    if op == "f_rebind_ast":
        ip.ast_transformers = list(ip.ast_transformers)
    elif op == "f_rebind_cleanup":
        itm.cleanup_transforms = list(itm.cleanup_transforms)
    elif op == "f_rebind_post":
        ip.input_transformers_post = list(ip.input_transformers_post)
    elif op == "f_add_ast":
        ip.ast_transformers.append(ZzqForeignAst())
    elif op == "f_rm_ast":
        mine = [t for t in ip.ast_transformers if isinstance(t, ZzqForeignAst)]
        if mine:
            ip.ast_transformers.remove(mine[0])
    elif op == "f_filter_ast":
        ip.ast_transformers = [t for t in ip.ast_transformers if not isinstance(t, ZzqForeignAst)]
    elif op == "f_add_cleanup":
        itm.cleanup_transforms.append(_foreign_cleanup())
    elif op == "f_rm_cleanup":
        mine = [t for t in itm.cleanup_transforms if getattr(t, "__name__", "").startswith("zzq_foreign_cleanup")]
        if mine:
            itm.cleanup_transforms.remove(mine[0])
    elif op == "f_clear_ast":
        del ip.ast_transformers[:]
    elif op == "f_drop_pf_ast":
        ip.ast_transformers = [t for t in ip.ast_transformers if not _is_pf(t)]
    elif op == "f_drop_pf_cleanup":
        keep = [t for t in itm.cleanup_transforms if not _is_pf(t)]
        itm.cleanup_transforms[:] = keep
    elif op == "f_break_db":
        # the user's import database file gets broken (edited into a syntax error)
        os.environ["PYFLYBY_PATH"] = os.path.join(G["root"], "db_malformed.py")
    elif op == "f_fix_db":
        os.environ["PYFLYBY_PATH"] = os.path.join(G["root"], "db_good.py")
    elif op == "f_rebind_matchers":
        ip.Completer.custom_matchers = list(ip.Completer.custom_matchers)
    elif op == "f_set_hook":
        def zzq_foreign_completer(self, event):
            return []
        ip.set_hook("complete_command", zzq_foreign_completer, str_key="zzq_foreign_cmd")
    elif op == F_WRAP_GM:
        comp = ip.Completer
        previous = comp.global_matches

        def zzq_foreign_global_matches(text):
            return previous(text)
        comp.global_matches = zzq_foreign_global_matches
    elif op == F_WRAP:
        import types
        inner = ip._ofind

        def _ofind(self, *a, **k):
            return inner(*a, **k)
        _ofind.__qualname__ = "ZzqForeign._ofind"
        ip._ofind = types.MethodType(_ofind, ip)
    else:
        raise ValueError(op)


def hook_names():
    """names of the entries of the hook lists, pyflyby's own shown as 'PF'"""
    ip = G["ip"]
    out = {}
    if ip is None:
        return out
    for name, get in HOOKLISTS + [("input_transformers_post", lambda ip: ip.input_transformers_post),
                                  ("custom_matchers", lambda ip: ip.Completer.custom_matchers)]:
        out[name] = ["PF" if _is_pf(e) else _vname(e) for e in get(ip)]
    return out


def cell_text(op, name):
    """the text of an observation op that runs a cell; `name` is the known name the cell reads"""
    k = name.rsplit("_", 1)[1]
    mods = os.path.join(G["root"], "mods")
    if op == "run_cell":
        return f"{name}.VALUE"
    if op == "pinfo":
        return f"{name}.VALUE?"                    # object inspection: the _ofind hook
    if op == "autocall":
        return f"{name} 7"                         # `%autocall 1` is in force for this cell: prefilter -> _ofind hook
    if op == "prun":
        return f"%prun -q {name}.VALUE"            # the _run_with_profiler hook
    if op == "run_script":
        return f"%run {mods}/zzq_scr_{k}.py"       # the safe_execfile hook (the script reads zzq_mod_<k>)
    if op in ("run_kbint", "run_sysexit"):
        return f"{name}.x"                         # importing the known module raises KeyboardInterrupt / SystemExit
    raise ValueError(op)


def do_op(op, arg, ident):
    """Perform one op on the child's shell.  Returns a dict (canonical)."""
    ip, app = G["ip"], G["app"]
    import pyflyby
    from pyflyby._interactive import AutoImporter
    r = {"op": op}
    esc = None
    with _capture() as cap:
        try:
            if op == "enable":
                pyflyby.enable_auto_importer()
            elif op == "enable_again":
                AutoImporter(ip if ip is not None else app).enable(even_if_previously_errored=True)
            elif op == "disable":
                pyflyby.disable_auto_importer()
            elif op in INIT_OPS:
                lab_initialize(op == "initialize_ext")
                ip = G["ip"]
            elif op == "load_ext":
                r["ret"] = ip.extension_manager.load_extension("pyflyby")
            elif op == LOAD_NOFD:
                # %load_ext inside `%%capture` / contextlib.redirect_stderr: sys.stderr has no fileno()
                import io as _io
                _se = sys.stderr
                sys.stderr = _io.StringIO()
                try:
                    r["ret"] = ip.extension_manager.load_extension("pyflyby")
                finally:
                    sys.stderr = _se
            elif op == "unload_ext":
                r["ret"] = ip.extension_manager.unload_extension("pyflyby")
            elif op == "reload_ext":
                r["ret"] = ip.extension_manager.reload_extension("pyflyby")
            elif op in CELL_OPS:
                name = arg
                before = name in ip.user_ns
                if op == "autocall":
                    ip.autocall = 1
                try:
                    res = ip.run_cell(cell_text(op, name), store_history=False)
                finally:
                    if op == "autocall":
                        ip.autocall = 0
                r["cell"] = dict(name=name, bound_before=before,
                                 result=repr(res.result),
                                 err=(type(res.error_in_exec).__name__ if res.error_in_exec is not None else None),
                                 errmsg=(str(res.error_in_exec)[:200] if res.error_in_exec is not None else None),
                                 err_before=(type(res.error_before_exec).__name__ if res.error_before_exec is not None else None),
                                 bound_after=name in ip.user_ns)
            elif op.startswith("f_"):
                do_foreign(op)
            elif op in COMPLETE_OPS:
                name = arg
                prefix = name[:-3] if op == "complete" else name + ".VAL"
                want = (name,) if op == "complete" else (name + ".VALUE", ".VALUE")     # (IPython 9 returns the attribute part)
                text, matches = ip.complete(prefix)
                r["complete"] = dict(name=name, prefix=prefix, has=any(w in matches for w in want), matches=sorted(matches)[:40],
                                     bound_after=name in ip.user_ns)
            else:
                raise ValueError(op)
        except BaseException as e:   # an exception escaping a public entry point
            esc = type(e).__name__ + ": " + str(e)[:200]
    r["escaped"] = esc
    r["stdout"] = _strip_pf_lines(cap.stdout)[-2000:]
    r["stderr"] = _strip_pf_lines(cap.stderr)[-2000:]
    r["pf_log"] = [l.split("[PYFLYBY]")[-1].replace("\x1b[0m", "").strip()[:160]
                   for l in (cap.stdout + cap.stderr).splitlines() if "[PYFLYBY]" in l][:12]
    return r


def run_c14(job):
    """job: {"ops": [[op, arg], ...], "pf": bool}  (pf=False: plain-IPython reference: only cells / completions, third-party
    steps and app.initialize() are executed)"""
    ident = Ident()
    from pyflyby._log import logger
    logger.set_level(job.get("loglevel", "INFO"))
    snapshot(ident)     # throw-away: IPython rebinds its magics tables on first inspection
    s0 = snapshot(ident)
    mv0 = model_view(ident)
    steps = []
    prev = s0
    want_shape = bool(job.get("shapes"))
    for op, arg in job["ops"]:
        if not job.get("pf", True) and op not in OBS_OPS and not op.startswith("f_") and op != "initialize":
            if op == "initialize_ext":
                op = "initialize"           # the reference shell starts without the extension
            else:
                steps.append({"op": op, "skipped": True, "shape": shape(prev) if want_shape else None})
                continue
        r = do_op(op, arg, ident)
        if op in INIT_OPS:
            snapshot(ident)                 # throw-away, as above
        s = snapshot(ident)
        r["changed"] = snap_diff(prev, s)         # what this op changed
        if op in INIT_OPS:
            # every key of the shell is new here.  From now on the baseline is the shell as it is right after
            # app.initialize(), minus whatever pyflyby put there during the initialisation (those keys then show up as
            # differences, like after an ordinary enable); of the step's own changes only the application's keys are kept
            s0 = {k: v for k, v in s.items() if not _has_pf_tok(v)}
            r["changed"] = {k: v for k, v in r["changed"].items() if k.startswith("app.")}
        r["diff0"] = snap_diff(s0, s)             # how the shell now differs from the fresh shell
        if want_shape:
            r["shape"] = shape(s)
        r["importer"] = importer_view()
        r["mv"] = model_view(ident)
        r["loaded"] = G["ip"] is not None and "pyflyby" in G["ip"].extension_manager.loaded
        r["hlnames"] = hook_names()
        # hunt 2 (C14-H1): pyflyby's own finders in sys.meta_path (pyflyby._dynimp.inject)
        r["n_meta_finders"] = sum(1 for f in sys.meta_path if (type(f).__module__ or "").startswith("pyflyby"))
        steps.append(r)
        prev = s
    return dict(config=G["config"], steps=steps, mv0=mv0, nkeys=len(s0))


def _has_pf_tok(tok):
    if tok is None:
        return False
    if tok[0] == "l":
        return any(t[0] == "o" and t[2] for t in tok[1])
    return tok[0] == "o" and bool(tok[2])


def run_probe(job):
    """dev aid: evaluate job['code'] in the child with ip/app/G in scope, return `out`."""
    ns = dict(G)
    ns["out"] = None
    exec(job["code"], ns)
    return {"out": ns["out"]}


# ----------------------------------------------------------------------------
# C14 generators
# ----------------------------------------------------------------------------

def fill_args(ops):
    """attach a fresh known name to every observation op"""
    out, k, c, q, n = [], 0, 0, 0, 0
    for op in ops:
        if op in ("run_cell", "pinfo", "prun", "run_script", "complete_attr"):
            out.append([op, f"zzq_mod_{k % N_MODS}"])
            k += 1
        elif op == "autocall":
            out.append([op, f"zzq_call_{q % N_CALL}"])
            q += 1
        elif op in INTERRUPT_OPS:
            out.append([op, ("zzq_int_%d" if op == "run_kbint" else "zzq_exit_%d") % (n % N_INT)])
            n += 1
        elif op == "complete":
            out.append([op, f"zzq_cmp_{CMP[c % len(CMP)]}_mod"])
            c += 1
        else:
            out.append([op, None])
    return out


def vary_loads(rng, ops, p=0.3):
    """some load_ext happen while sys.stderr has no fileno()"""
    return [LOAD_NOFD if op == "load_ext" and rng.random() < p else op for op in ops]


def vary_cells(rng, ops, p=0.45):
    """replace some run_cell / complete ops by another way of reading a known name, or by an interrupted auto-import"""
    out = []
    for op in ops:
        if op == "run_cell" and rng.random() < p:
            op = rng.choice(CELL_FORMS[:4] + INTERRUPT_OPS + ["run_kbint"])
        elif op == "complete" and rng.random() < p:
            op = "complete_attr"
        out.append(op)
    return out


def gen_preinit(rng):
    """enable/disable calls on the not yet initialised application, app.initialize(), then an ordinary history"""
    pre = [rng.choice(PRE_OPS) for _ in range(rng.choice([1, 1, 2, 2, 3]))]
    post = gen_ops(rng, 6)[:rng.choice([2, 3, 4])]
    if not any(o in OBS_OPS for o in post):
        post.append("run_cell")
    return pre + [rng.choice(INIT_OPS + ["initialize"])] + vary_cells(rng, post, 0.25)


def add_foreign(rng, ops):
    """insert 1-3 third-party steps at random positions of a lifecycle sequence"""
    ops = list(ops)
    w = {"f_rebind_ast": 4, "f_rebind_cleanup": 3, "f_rebind_post": 1, "f_add_ast": 3, "f_rm_ast": 2, "f_filter_ast": 2,
         "f_add_cleanup": 2, "f_rm_cleanup": 1, "f_rebind_matchers": 1, "f_set_hook": 1}
    names = list(w)
    for _ in range(rng.choice([1, 1, 2, 2, 3])):
        ops.insert(rng.randint(0, len(ops)), rng.choices(names, weights=[w[x] for x in names])[0])
    return ops


def add_errors_and_removals(rng, ops):
    """mix the error/withdraw transition (a broken database met by a cell or a completion) and third-party
    removals of pyflyby's own entries into a lifecycle sequence"""
    ops = list(ops)
    r = rng.random()
    if r < 0.55:
        pos = rng.randint(0, len(ops))
        seg = ["f_break_db", rng.choice(["run_cell", "run_cell", "complete"]), "f_fix_db"]
        if rng.random() < 0.3:
            seg.insert(2, rng.choice(["enable", "run_cell", "disable"]))
        ops[pos:pos] = seg
        ops.append("run_cell")
    else:
        ops.insert(rng.randint(0, len(ops)), rng.choice(F_REMOVALS))
        ops += rng.choice([["disable", "enable", "run_cell"], ["unload_ext", "load_ext", "run_cell"], ["run_cell"]])
    return ops


def gen_ops(rng, maxlen=6):
    n = rng.choice([2, 3, 4, 5, 6, 6, 6]) if maxlen >= 6 else rng.randint(1, maxlen)
    # bias: lifecycle ops more often than observations, but every sequence ends with an observation pair
    w = {"enable": 3, "enable_again": 2, "disable": 3, "load_ext": 3, "unload_ext": 3, "reload_ext": 2,
         "run_cell": 3, "complete": 2}
    names = list(w)
    ops = rng.choices(names, weights=[w[x] for x in names], k=n)
    return ops


if __name__ == "__main__":
    if len(sys.argv) >= 3 and sys.argv[1] == "--zygote":
        _zygote_main(sys.argv[2])
