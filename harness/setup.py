"""MANIFEST.setup_cmd: build, offline and from files on disk only, the Lean modules of every registered check.
A property whose modules fail to build does not stop the others (its own check will report the broken proof)."""
import importlib, json, os, subprocess, sys
HERE = os.path.dirname(os.path.abspath(__file__))
sys.path.insert(0, HERE)
import vcommon
man = json.load(open(os.path.join(vcommon.VERIF, "MANIFEST.json")))
bad = 0
for c in man["checks"]:
    pid = c["property_id"]
    try:
        prop = importlib.import_module(pid.lower()).PROP
    except Exception as e:
        print("setup: cannot import harness for", pid, e)
        bad += 1
        continue
    mods = list(prop.lean_modules) + [m for m in vcommon.driver_imports(prop.driver) if m not in prop.lean_modules]
    p = subprocess.run(["lake", "build"] + mods, cwd=vcommon.LEAN_DIR, stdout=subprocess.PIPE, stderr=subprocess.STDOUT, text=True)
    print("setup:", pid, "lake build", " ".join(mods), "->", "ok" if p.returncode == 0 else "FAILED")
    if p.returncode != 0:
        print(p.stdout[-1500:])
        bad += 1
print("setup done; %d problem(s)" % bad)
sys.exit(0)
