"""
gen_c11 — generators for C11 (import formatting round trip).

A case is
  {"imports": [{"k": "imp"|"from", "mod": str, "lvl": int, "name": str, "as": str|None}, ...],
   "params":  {"width": None|int, "align": False|True|int|[int...], "from_spaces": int,
               "hanging": "never"|"auto"|"always", "indent": int, "sep_from": bool, "align_future": bool},
   "via": "split"|"text", "align_kind": "tuple"|"list"|"set"}

`imports` are *statement level* single imports in the syntax of Python:
  k="imp":  `import <name> [as <as>]`            (mod="", lvl=0)
  k="from": `from <'.'*lvl><mod> import <name> [as <as>]`   (name may be "*")
Every random choice is made from the `rng` passed in.
"""
from __future__ import annotations

import itertools
import keyword

import __future__ as _future_module
# every feature, including the one mixed-case name (barry_as_FLUFL)
FUTURES = list(_future_module.all_feature_names)

# identifier characters; the non-ASCII ones are NFKC-stable letters (ast normalises identifiers to NFKC)
FIRST = "abcdefghijklmnopqrstuvwxyzABCDEFGHIJKLMNOPQRSTUVWXYZ_"
REST = FIRST + "0123456789"
NONASCII = "éßñ名λ"
# identifier characters that NFKC changes (ligature fi -> "fi", fullwidth x -> "x", feminine ordinal -> "a", micro sign -> mu):
# the parser normalises them, and so must every way of building an Import (repair cf6ff00)
UNSTABLE = "\ufb01\uff58\u00aa\u00b5"

_BAD = set(keyword.kwlist) | set(keyword.softkwlist) | {"print", "exec"}


def ident(rng, lo=1, hi=60):
    """identifier of length lo..hi; short lengths and boundary lengths favoured."""
    r = rng.random()
    if r < 0.45:
        n = rng.randint(lo, min(hi, 4))
    elif r < 0.8:
        n = rng.randint(lo, min(hi, 12))
    elif r < 0.95:
        n = rng.randint(lo, min(hi, 30))
    else:
        n = rng.randint(lo, hi)
    while True:
        if rng.random() < 0.5:
            # low-entropy name: collisions between imports and with module names become likely
            s = "".join(rng.choice("ab") for _ in range(n))
        else:
            s = rng.choice(FIRST) + "".join(rng.choice(REST) for _ in range(n - 1))
        if rng.random() < 0.04:
            i = rng.randrange(len(s))
            s = s[:i] + rng.choice(NONASCII) + s[i + 1:]
        if rng.random() < 0.025:
            i = rng.randrange(len(s))
            s = s[:i] + rng.choice(UNSTABLE) + s[i + 1:]
        import unicodedata as _ud
        n_ = _ud.normalize("NFKC", s)
        if n_ not in _BAD and s not in _BAD and n_.isidentifier() and not (n_.startswith("__") and n_.endswith("__")):
            return s


def dotted(rng, maxparts=4, hi=60):
    k = rng.choice([1, 1, 1, 2, 2, 3, maxparts])
    return ".".join(ident(rng, 1, hi) for _ in range(k))


def gen_import(rng, pool):
    """One statement-level import.  `pool` is a list of names already used (re-use makes grouping,
    sorting ties and conflicts likely)."""
    def nm(hi=60):
        simple = [q for q in pool if "." not in q]
        if simple and rng.random() < 0.35:
            return rng.choice(simple)
        s = ident(rng, 1, hi)
        pool.append(s)
        return s

    def mod():
        if pool and rng.random() < 0.5:
            cand = [p for p in pool if "." in p or rng.random() < 0.5]
            if cand:
                return rng.choice(cand)
        k = rng.choice([1, 1, 2, 2, 3, 4])
        s = ".".join(nm() for _ in range(k))
        pool.append(s)
        return s

    r = rng.random()
    if r < 0.06:
        a = None if rng.random() < 0.8 else nm()
        return dict(k="from", mod="__future__", lvl=0, name=rng.choice(FUTURES), **{"as": a})
    if r < 0.30:
        # plain import
        m = mod()
        rr = rng.random()
        if rr < 0.65:
            a = None
        elif rr < 0.9:
            a = nm()
        else:
            a = m.split(".")[-1]          # `import a.b as b` / `import a as a`
        return dict(k="imp", mod="", lvl=0, name=m, **{"as": a})
    lvl = 0
    if r < 0.50:
        lvl = rng.choice([1, 1, 2, 3])
    if lvl and rng.random() < 0.35:
        m = ""                            # `from . import x`
    else:
        m = mod()
    rr = rng.random()
    if rr < 0.10:
        return dict(k="from", mod=m, lvl=lvl, name="*", **{"as": None})
    name = nm()
    if rr < 0.70:
        a = None
    elif rr < 0.95:
        a = nm()
    else:
        a = name
    return dict(k="from", mod=m, lvl=lvl, name=name, **{"as": a})


def gen_params(rng):
    r = rng.random()
    if r < 0.2:
        width = None
    elif r < 0.6:
        width = rng.randint(10, 40)
    elif r < 0.9:
        width = rng.randint(41, 100)
    else:
        width = rng.randint(101, 200)
    r = rng.random()
    if r < 0.2:
        align = False
    elif r < 0.45:
        align = True
    elif r < 0.75:
        align = rng.choice([0, 1, 2, rng.randint(0, 12), rng.randint(8, 40), rng.randint(8, 40), rng.randint(0, 120)])
    else:
        align = sorted(set(rng.randint(0, 48) for _ in range(rng.choice([1, 2, 2, 3, 4]))))
        if rng.random() < 0.3:
            rng.shuffle(align)
    return dict(width=width, align=align, from_spaces=rng.choice([1, 1, 2, 3, 3, 4, 5, 6, 7, 8]),
                hanging=rng.choice(["never", "auto", "always"]), indent=rng.choice([4, 4, 4, 0, 1, 2, 3, 8, 12]),
                sep_from=rng.random() < 0.5, align_future=rng.random() < 0.4)


def gen_case(rng):
    pool = []
    r = rng.random()
    if r < 0.5:
        n = rng.randint(1, 4)
    elif r < 0.9:
        n = rng.randint(4, 10)
    else:
        n = rng.randint(10, 25)
    imps = []
    # with some probability: many members from one module (long statements that must wrap)
    if rng.random() < 0.4:
        lvl = rng.choice([0, 0, 0, 1, 2])
        m = dotted(rng, 3, hi=rng.choice([6, 20, 60]))
        for _ in range(rng.randint(2, 14)):
            name = ident(rng, 1, rng.choice([4, 12, 60]))
            a = None if rng.random() < 0.75 else ident(rng, 1, 12)
            imps.append(dict(k="from", mod=m, lvl=lvl, name=name, **{"as": a}))
        pool.append(m)
    for _ in range(n):
        imps.append(gen_import(rng, pool))
    # __future__ imports over all features: alone, several, aliased (flags are recomputed when the text is parsed back)
    r = rng.random()
    if r < 0.10:
        feats = rng.sample(FUTURES, rng.choice([1, 1, 2, 3, len(FUTURES)]))
        fut = [dict(k="from", mod="__future__", lvl=0, name=f, **{"as": (None if rng.random() < 0.75 else ident(rng, 1, 6))}) for f in feats]
        imps = fut if rng.random() < 0.25 else imps + fut
    # one fullname under several local names: `from m import a as x, a as y, a as z`, `import m as x, m as y`
    # (their order in the text must come from the sort, never from a set's iteration order)
    if rng.random() < 0.10:
        imps.extend(alias_family(rng))
        if rng.random() < 0.3:
            imps.extend(alias_family(rng))
    # keep most sets non-conflicting (two different imports binding one local name): the claim excludes conflicts,
    # the error branch is still exercised at a low rate
    if rng.random() < 0.9:
        seen, keep = {}, []
        for i in imps:
            ln = None if i["name"] == "*" else (i["as"] if i["as"] is not None else i["name"])
            key = (i["k"], i["mod"], i["lvl"], i["name"])
            if ln is not None and seen.get(ln, key) != key:
                continue
            if ln is not None:
                seen[ln] = key
            keep.append(i)
        imps = keep
    rng.shuffle(imps)
    p = gen_params(rng)
    # boundary bias: set the width right at / next to the one-line length of some statement
    if rng.random() < 0.35 and imps:
        i = rng.choice(imps)
        base = len(render_stmt(i)) + (p["from_spaces"] - 1 if i["k"] == "from" else 0)
        w = base + rng.choice([-2, -1, 0, 1, 2])
        if 10 <= w <= 200:
            p["width"] = w
    case = dict(imports=imps, params=p, via=rng.choice(["split", "split", "text"]),
                align_kind=rng.choice(["tuple", "list", "set"]))
    # the text must not depend on the interpreter's string hash seed: these cases are formatted again under three
    # PYTHONHASHSEED values (sub-processes); always for alias families, else for a small sample
    if has_alias_family(imps) or rng.random() < 0.01:
        case["hashseeds"] = sorted(rng.sample(range(1, 100000), 3))
    return case


def alias_family(rng):
    k = rng.choice([2, 3, 3, 4, 5, 6])
    names = set()
    while len(names) < k:
        names.add(rng.choice(["x", "al", "n", "q"]) + str(rng.randint(0, 60)) if rng.random() < 0.7 else ident(rng, 1, 8))
    names = sorted(names)
    rng.shuffle(names)
    if rng.random() < 0.5:
        m = dotted(rng, 2, 6)
        lvl = rng.choice([0, 0, 0, 1])
        mem = ident(rng, 1, 6)
        out = [dict(k="from", mod=m, lvl=lvl, name=mem, **{"as": a}) for a in names]
        if rng.random() < 0.3:
            out.append(dict(k="from", mod=m, lvl=lvl, name=mem, **{"as": None}))
        return out
    m = ident(rng, 1, 8)
    out = [dict(k="imp", mod="", lvl=0, name=m, **{"as": a}) for a in names]
    if rng.random() < 0.3:
        out.append(dict(k="imp", mod="", lvl=0, name=m, **{"as": None}))
    return out


def has_alias_family(imps):
    seen = {}
    for i in imps:
        key = (i["k"], i["mod"], i["lvl"], i["name"])
        seen.setdefault(key, set()).add(i["as"])
    return any(len(v) >= 2 for v in seen.values())


def render_stmt(i):
    a = (" as " + i["as"]) if i["as"] is not None else ""
    if i["k"] == "imp":
        return "import %s%s" % (i["name"], a)
    return "from %s%s import %s%s" % ("." * i["lvl"], i["mod"], i["name"], a)


# ---- exhaustive small scope ------------------------------------------------------------------

SMALL_ALPHABET = [
    dict(k="imp", mod="", lvl=0, name="aaaa", **{"as": None}),
    dict(k="imp", mod="", lvl=0, name="aaaa.bb", **{"as": None}),
    dict(k="imp", mod="", lvl=0, name="aaaa", **{"as": "cc"}),
    dict(k="from", mod="aaaa", lvl=0, name="bb", **{"as": None}),
    dict(k="from", mod="aaaa", lvl=0, name="cccccc", **{"as": "dd"}),
    dict(k="from", mod="", lvl=2, name="eeee", **{"as": None}),
    dict(k="from", mod="aaaa", lvl=0, name="*", **{"as": None}),
    dict(k="from", mod="__future__", lvl=0, name="division", **{"as": None}),
]

GRID_WIDTH = [10, 17, 24, 31]
GRID_ALIGN = [False, True, 12, [8, 20]]
GRID_HANG = ["never", "auto", "always"]
GRID_SEP = [False, True]


def small_scope():
    """all sets of <= 3 imports over SMALL_ALPHABET x the 96-point parameter grid (8928 points)"""
    sets = []
    for n in range(0, 4):
        sets.extend(itertools.combinations(range(len(SMALL_ALPHABET)), n))
    grid = list(itertools.product(GRID_WIDTH, GRID_ALIGN, GRID_HANG, GRID_SEP))
    return sets, grid


def small_case(s, g, rng):
    w, al, h, sp = g
    imps = [dict(SMALL_ALPHABET[i]) for i in s]
    return dict(imports=imps,
                params=dict(width=w, align=al, from_spaces=rng.choice([1, 3]), hanging=h,
                            indent=rng.choice([4, 2]), sep_from=sp, align_future=rng.random() < 0.5),
                via="split", align_kind="tuple")


# ---- K(b): import statements in the subset of syntax the formatter can emit ---------------------

def gen_stmt_text(rng):
    """A block of import statements with free layout inside the emitted subset: spaces, backslash
    continuations, parenthesised lists with optional trailing comma; and (rate ~25 %) an illegal
    variant (parenthesised plain import, parenthesised star, trailing comma without parentheses,
    empty list, unclosed parenthesis, indented first line)."""
    out = []
    bad = False
    for _ in range(rng.choice([1, 1, 2, 3])):
        pool = []
        i = gen_import(rng, pool)
        sp = lambda: " " * rng.choice([1, 1, 1, 2, 5])
        cont = lambda: rng.choice([sp(), sp(), " \\\n" + " " * rng.choice([0, 4, 9])])
        names = [i]
        if i["name"] != "*":
            for _ in range(rng.choice([0, 0, 1, 2, 4])):
                nm = ident(rng, 1, 8)
                names.append(dict(i, name=nm if i["k"] == "from" else dotted(rng, 3, 6),
                                  **{"as": None if rng.random() < 0.6 else ident(rng, 1, 5)}))
        toks = []
        for n in names:
            toks.append(n["name"] + ((cont() + "as" + cont() + n["as"]) if n["as"] is not None else ""))
        mode = rng.random()
        head = ("import" if i["k"] == "imp" else "from" + cont() + "." * i["lvl"] + i["mod"] + cont() + "import")
        if mode < 0.45:
            body = cont() + ("," + rng.choice(["", " ", " \\\n  "])).join(toks)
        else:
            seps = [rng.choice([", ", ",", ",\n", " ,\n      ", ", \\\n "]) for _ in toks]
            body = rng.choice([" ", "", "  "]) + "(" + rng.choice(["", "\n", "\n    ", " "])
            for t, s_ in zip(toks, seps):
                body += t + s_
            if rng.random() < 0.6:
                body = body[:len(body) - len(seps[-1])]
            body += rng.choice(["", "\n", " "]) + ")"
            if i["k"] == "imp" or i["name"] == "*":
                bad = True
        s = head + body
        r = rng.random()
        if r < 0.05:
            s = s.rstrip() + ","
            bad = True
        elif r < 0.08:
            s = " " + s
            bad = True
        elif r < 0.11:
            s = head + " ()"
            bad = True
        elif r < 0.13:
            s = s.replace(")", "", 1) if ")" in s else s + " ("
            bad = True
        out.append(s + "\n")
    return "".join(out), bad


# ---- call sequences on ONE object ----------------------------------------------------------------
#
# A "seq" case is {"kind": "seq", "imports": [...], "via": ..., "steps": [step, ...]} where a step is one of
#   {"op": "pp", "params": P, "align_kind": k}          S.pretty_print(P)
#   {"op": "stmts", "sep_from": b}                       S.get_statements(separate_from_imports=b)
#   {"op": "repr"}                                        repr(S)
#   {"op": "statements"}                                  S.statements / S.imports (cached attributes)
#   {"op": "stmt_pp", "sep_from": b, "idx": n, "calls": [{"params": P, "col": c|None, "fs": n}, ...]}
#                                                         st = S.get_statements(b)[idx]; st.pretty_print(...) for every call, str(st)
#   {"op": "with"|"union", "other": [imports], "params": P}     S.with_imports(O) / S | O, then pretty_print(P)
#   {"op": "without", "remove": [imports], "params": P}         S.without_imports(R), then pretty_print(P)
# All steps are applied, in order, to the SAME ImportSet object; the harness repeats every step on a fresh,
# equal object and requires equal results.

def _flip(p, rng):
    """a configuration that differs from `p` in the way most likely to expose shared state"""
    q = dict(p)
    r = rng.random()
    if r < 0.55:
        q["sep_from"] = not p["sep_from"]
    if r > 0.35 or rng.random() < 0.3:
        g = gen_params(rng)
        for k in rng.sample(["width", "align", "from_spaces", "hanging", "indent", "align_future"], rng.randint(1, 3)):
            q[k] = g[k]
    return q


def gen_seq_case(rng):
    base = gen_case(rng)
    imps = base["imports"]
    # sequences are about shared state, not about conflicts: keep the set non-conflicting
    seen, keep = {}, []
    for i in imps:
        ln = None if i["name"] == "*" else (i["as"] if i["as"] is not None else i["name"])
        key = (i["k"], i["mod"], i["lvl"], i["name"])
        if ln is not None and seen.get(ln, key) != key:
            continue
        if ln is not None:
            seen[ln] = key
        keep.append(i)
    imps = keep
    # make sure plain and from imports with interleaving names are present most of the time
    if rng.random() < 0.7:
        pool = []
        imps.append(dict(k="imp", mod="", lvl=0, name=rng.choice(["zz", "mm.x", "zlib", "b"]) + ident(rng, 1, 3), **{"as": None}))
        imps.append(dict(k="from", mod=rng.choice(["aa", "json", "m", "c"]) + ident(rng, 1, 3), lvl=0, name="q" + ident(rng, 1, 3), **{"as": None}))
    p = base["params"]
    steps = []
    nsteps = rng.choice([2, 2, 3, 3, 4, 5, 6])
    while len(steps) < nsteps:
        r = rng.random()
        if r < 0.5:
            p = _flip(p, rng) if steps else p
            steps.append(dict(op="pp", params=p, align_kind=rng.choice(["tuple", "list", "set"])))
        elif r < 0.6:
            steps.append(dict(op="stmts", sep_from=rng.random() < 0.5))
        elif r < 0.68:
            steps.append(dict(op="repr"))
        elif r < 0.73:
            steps.append(dict(op="statements"))
        elif r < 0.83:
            calls = []
            for _ in range(rng.choice([2, 2, 3])):
                q = gen_params(rng)
                calls.append(dict(params=q, col=rng.choice([None, None, rng.randint(0, 40)]), fs=rng.choice([1, 1, 2, 3, 5])))
            steps.append(dict(op="stmt_pp", sep_from=rng.random() < 0.5, idx=rng.randint(0, 30), calls=calls))
        elif r < 0.93:
            pool = []
            other = [gen_import(rng, pool) for _ in range(rng.randint(1, 3))]
            if imps and rng.random() < 0.5:
                other.append(dict(rng.choice(imps)))
            steps.append(dict(op=rng.choice(["with", "union"]), other=other, params=_flip(p, rng)))
        else:
            cand = [i for i in imps if i["name"] != "*"]
            rem = rng.sample(cand, min(len(cand), rng.randint(1, 3))) if cand else []
            if rng.random() < 0.3:
                rem.append(dict(k="imp", mod="", lvl=0, name="absent_" + ident(rng, 1, 3), **{"as": None}))
            if rem:
                steps.append(dict(op="without", remove=rem, params=_flip(p, rng)))
    return dict(kind="seq", imports=imps, via=rng.choice(["split", "split", "text"]), steps=steps)


def small_seq_cases(rng, full):
    """small scope for sequences: every set of <= 3 imports of SMALL_ALPHABET x every ordered pair of
    separate_from_imports values x two alignment settings, with repr() in between for half of them"""
    out = []
    sets, _ = small_scope()
    for s in sets:
        if not s:
            continue
        for a, b in [(False, True), (True, False), (False, False), (True, True)]:
            for al in (False, 12):
                imps = [dict(SMALL_ALPHABET[i]) for i in s]
                p1 = dict(width=rng.choice([10, 24, None]), align=al, from_spaces=rng.choice([1, 3]), hanging=rng.choice(GRID_HANG),
                          indent=4, sep_from=a, align_future=False)
                p2 = dict(p1, sep_from=b, width=rng.choice([10, 17, 31]), align=rng.choice([al, True]))
                steps = [dict(op="pp", params=p1, align_kind="tuple")]
                if rng.random() < 0.5:
                    steps.append(dict(op="repr"))
                steps.append(dict(op="pp", params=p2, align_kind="tuple"))
                steps.append(dict(op="stmts", sep_from=a))
                out.append(dict(kind="seq", imports=imps, via="split", steps=steps))
    if not full:
        out = rng.sample(out, len(out) // 8)
    return out
