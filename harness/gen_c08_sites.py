"""
gen_c08_sites — source audit for C08: every place of pyflyby (lib/python/pyflyby/*.py, bin/*) that can write,
truncate, rename or remove a file by name.

The property speaks about *every* in-place replacement of a user's file, so the set of such call sites is an
obligation of its own: on the pinned tree every site either goes through `atomic_write_file`, is the inside of
that helper, writes to a device / an inherited descriptor, or creates the tool's own output file.  `scan(repo)`
lists the sites of the tree under test (AST, no line numbers, normalised source of the call); `audit(repo)`
compares them with BASELINE.  A site that is not in the baseline (new call, changed arguments, moved to another
function) or a baseline site that disappeared is reported; the check treats that as a broken obligation and then
searches for a failing input by driving the tool's entry points (harness/c08.py: search_cases).
"""
from __future__ import annotations

import ast
import glob
import os

WRITERS = {"write_file", "atomic_write_file"}
MOD_CALLS = {("os", "rename"), ("os", "replace"), ("os", "truncate"), ("os", "open"), ("os", "unlink"),
             ("os", "remove"), ("os", "link"), ("os", "symlink"), ("os", "fdopen"), ("os", "ftruncate"),
             ("os", "sendfile"), ("os", "copy_file_range"),
             ("shutil", "move"), ("shutil", "copy"), ("shutil", "copy2"), ("shutil", "copyfile"),
             ("shutil", "copyfileobj"), ("shutil", "rmtree"),
             ("tempfile", "mkstemp"), ("tempfile", "NamedTemporaryFile"), ("tempfile", "TemporaryFile")}
PATH_METHODS = {"write_text", "write_bytes"}

# classification of the sites of the pinned tree
ATOMIC = "goes through atomic_write_file"
HELPER = "inside of the atomic helper (temp file / the committing rename)"
DEVICE = "device or inherited descriptor, not a user file"
OWNFILE = "the tool's own output file (not an in-place rewrite of an existing user file's contents)"
MOVE = "atomic rename of a whole file (no contents are rewritten)"

BASELINE = {
    ("lib/python/pyflyby/_cmdline.py", "action_replace", "atomic_write_file",
     "atomic_write_file(m.filename, m.output_content)"): ATOMIC,
    ("lib/python/pyflyby/_interactive.py", "_install_in_ipython_config_file_40", "atomic_write_file",
     "atomic_write_file(config_fn, new_config_blob)"): ATOMIC,
    ("lib/python/pyflyby/_file.py", "write_file", "open:w", "open(str(filename), 'w')"): HELPER,
    ("lib/python/pyflyby/_file.py", "atomic_write_file", "write_file", "write_file(temp_filename, data)"): HELPER,
    ("lib/python/pyflyby/_file.py", "atomic_write_file", "os.rename",
     "os.rename(str(temp_filename), str(filename))"): HELPER,
    ("lib/python/pyflyby/_interactive.py", "_install_in_ipython_config_file_40", "os.rename",
     "os.rename(str(old_fn), str(trash_fn))"): MOVE,
    ("lib/python/pyflyby/_interactive.py", "_python_can_import_pyflyby", "open:w", "open('/dev/null', 'w')"): DEVICE,
    ("lib/python/pyflyby/_dbg.py", "_dev_tty_fd", "os.open", "os.open('/dev/tty', os.O_RDWR)"): DEVICE,
    ("lib/python/pyflyby/_dbg.py", "_StdioCtx", "os.open", "os.open(tty, os.O_RDWR)"): DEVICE,
    ("lib/python/pyflyby/_dbg.py", "_StdioCtx", "os.fdopen", "os.fdopen(0, 'r')"): DEVICE,
    ("lib/python/pyflyby/_dbg.py", "_StdioCtx", "os.fdopen", "os.fdopen(1, 'w')"): DEVICE,
    ("lib/python/pyflyby/_dbg.py", "_StdioCtx", "os.fdopen", "os.fdopen(2, 'w', 1)"): DEVICE,
    ("lib/python/pyflyby/_dbg.py", "_dev_null", "open:w+", "open('/dev/null', 'w+')"): DEVICE,
    ("lib/python/pyflyby/_dbg.py", "remote_print_stack", "os.fdopen", "os.fdopen(output_fd, 'w')"): DEVICE,
    # saveframe's output (default ./saveframe.pkl): open(O_WRONLY|O_CREAT|O_TRUNC) of the given name.  An existing
    # file of that name is truncated and rewritten in place — C17's subject; recorded as a candidate in notes/C08.md.
    ("lib/python/pyflyby/_saveframe.py", "_open_file", "os.open",
     "os.open(filename, os.O_WRONLY | os.O_CREAT | os.O_TRUNC, FILE_PERMISSION)"): OWNFILE,
    ("lib/python/pyflyby/_saveframe.py", "_open_file", "os.fdopen", "os.fdopen(fd, mode)"): OWNFILE,
}


def _scan_file(path, rel):
    try:
        tree = ast.parse(open(path, encoding="utf-8", errors="replace").read())
    except (SyntaxError, ValueError):
        return []
    out = []

    class V(ast.NodeVisitor):
        def __init__(self):
            self.stack = []

        def visit_FunctionDef(self, n):
            self.stack.append(n.name)
            self.generic_visit(n)
            self.stack.pop()
        visit_AsyncFunctionDef = visit_FunctionDef
        visit_ClassDef = visit_FunctionDef

        def visit_Call(self, n):
            f = n.func
            kind = None
            if isinstance(f, ast.Name) and f.id in WRITERS:
                kind = f.id
            elif isinstance(f, ast.Attribute) and f.attr in WRITERS:
                kind = f.attr
            elif (isinstance(f, ast.Name) and f.id == "open") or (
                    isinstance(f, ast.Attribute) and f.attr == "open" and isinstance(f.value, ast.Name)
                    and f.value.id in ("io", "codecs", "builtins", "_io")):
                mode = n.args[1] if len(n.args) > 1 else None
                for k in n.keywords:
                    if k.arg == "mode":
                        mode = k.value
                if mode is None:
                    pass                                  # default 'r'
                elif isinstance(mode, ast.Constant) and isinstance(mode.value, str):
                    if set(mode.value) & set("wax+"):
                        kind = "open:" + mode.value
                else:
                    kind = "open:?"                       # mode not a literal: cannot be excluded
            elif isinstance(f, ast.Attribute) and isinstance(f.value, ast.Name) and (f.value.id, f.attr) in MOD_CALLS:
                kind = f.value.id + "." + f.attr
            elif isinstance(f, ast.Attribute) and f.attr in PATH_METHODS:
                kind = "." + f.attr
            if kind:
                out.append((rel, ".".join(self.stack) or "<module>", kind, ast.unparse(n)))
            self.generic_visit(n)
    V().visit(tree)
    return out


def scan(repo):
    sites = []
    files = sorted(glob.glob(os.path.join(repo, "lib", "python", "pyflyby", "*.py")))
    files += [p for p in sorted(glob.glob(os.path.join(repo, "bin", "*"))) if os.path.isfile(p) and not os.path.islink(p)]
    for p in files:
        sites.extend(_scan_file(p, os.path.relpath(p, repo)))
    return sorted(set(sites))


def audit(repo):
    """-> dict(sites=n, new=[site…], gone=[site…])  (lists of 4-lists, JSON-able)"""
    got = set(scan(repo))
    base = set(BASELINE)
    return dict(sites=len(got), new=[list(s) for s in sorted(got - base)], gone=[list(s) for s in sorted(base - got)])
