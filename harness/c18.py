"""C18 — Import renaming is prefix-exact and keeps local names bound."""
from __future__ import annotations

import ast
import itertools
import json
import os
import re
import shutil
import subprocess
import sys
import tempfile

from vcommon import Prop, REPO
import gen_c18 as G


def _exc_enum(e):
    return type(e).__name__


class _Recorder:
    """Captures the per-block state of the transformer at output() time (for the correspondence check)."""

    def __init__(self):
        self.blocks_in = None
        self.blocks_out = None


def _blocks_snapshot(transformer, which):
    from pyflyby._imports2s import SourceToSourceImportBlockTransformation
    out = []
    for b in transformer.blocks:
        if isinstance(b, SourceToSourceImportBlockTransformation):
            imps = b.importset.imports
            out.append(dict(kind="imports", imports=[[i.fullname, i.import_as] for i in imps]))
        else:
            t = b.input.text.joined if which == "in" else b._output.text.joined
            out.append(dict(kind="text", text=t))
    return out


class C18(Prop):
    id = "C18"
    driver = "C18"
    lean_modules = ["Pfb.C18.Props"]
    theorems = ["Pfb.C18." + t for t in [
        "C18_exact", "C18_keeps_local", "C18_renames_together",
        "C18_under_iff", "trap_foo_foobar", "trap_ab_abc", "C18_exact_str",
        "C18_keeps_local_str", "C18_split_binds", "C18_as_iff", "C18_keeps_local_printed",
        "C18_alias_wellformed_partial", "D1_witness",
        "C18_wordReplace_spec", "C18_wordReplace_ident", "C18_ref_rewritten",
        "C18_no_match_unchanged", "C18_first_match", "nested_order_witness",
        "C18_exact_map", "firstMatch_under", "nonInterferingB_iff", "sibling_witness",
        "C18_fullname_components", "C18_alias_invariant", "C18_lookup_preserved", "lookup_domain_witness",
        "D2_witness", "D3_witness", "D3b_witness", "D7_witness",
    ]]
    anchors = [
        ("lib/python/pyflyby/_importstmt.py", "Import.replace"),
        ("lib/python/pyflyby/_importstmt.py", "Import.split"),
        ("lib/python/pyflyby/_importstmt.py", "Import.from_split"),
        ("lib/python/pyflyby/_imports2s.py", "transform_imports"),
        ("lib/python/pyflyby/_imports2s.py", "canonicalize_imports"),
        ("lib/python/pyflyby/_importclns.py", "ImportMap"),
        ("lib/python/pyflyby/_importclns.py", "ImportSet._from_imports"),
        ("lib/python/pyflyby/_importdb.py", "ImportDB._from_data"),
        ("bin/transform-imports", None),
    ]
    quick_cases = 3600
    thorough_cases = 60000
    quick_deadline_s = 55
    thorough_deadline_s = 600
    rule = ("generated universes (package trees with character-prefix trap siblings: foo/foobar/foo_/fo, b/bc/bcd) x rename maps "
            "(1-3 entries; nested OLDs in both orders; OLD a module, a member or a non-existent character-prefix; NEW fresh, of "
            "any depth, possibly inside an existing package) x programs (plain / aliased / from / from-as imports, multi-alias and "
            "parenthesised statements, two import blocks, function-level imports, references in calls, defaults, class bodies, "
            "try blocks) x ImportFormatParams x {transform_imports, canonicalize_imports(db) incl. __forget_imports__, "
            "bin/transform-imports, bin/tidy-imports with an import database (known imports under OLD paths, "
            "__canonical_imports__ in one or two assignments / files, __mandatory_imports__) on files that lack / have / "
            "already renamed the imports}; chained maps (NEW of one entry a dotted prefix of another entry's OLD, "
            "across top-level packages), judged by execution in a universe whose NEW-side sub-modules exist only once "
            "imported; programs that are modules of a package with relative imports (1-3 dots) of siblings named like "
            "OLD; plus correspondence-only cases with arbitrary maps (chains, swaps, OLD prefix of NEW) and an "
            "exhaustive small scope of Import.replace / split / from_split and of the body regex; a case is non-trivial when the "
            "output differs from the input; distinct by text+map+mode")
    trusted_base = ["CPython's import machinery and exec: the oracle runs input and output programs in-process, each in a fresh "
                    "universe of synthetic modules served by a meta-path finder (gen_c18.Universe): a NEW name yields the very "
                    "same object as its OLD name; real sub-modules are attributes of their package from the start, a NEW-side "
                    "sub-module becomes an attribute only when an import statement imports it",
                    "bin/tidy-imports route: the reference program is what the same command prints with --no-canonicalize "
                    "(route canonical) / the file itself (route --transform); no correspondence check on this route",
                    "stdlib ast/tokenize: which imports a text contains, where OLD occurs (program-domain validator)",
                    "modelled, not verified: Python's re (the \\b scan is modelled in Lean and compared with re.sub on an exhaustive "
                    "small scope and on every generated body); pretty-printing of the rewritten imports (property C11) - the "
                    "correspondence check compares the per-block import sets and body texts, the oracle parses the printed text"]
    assumptions = ["program domain (stated in the property): OLD is mentioned only through imports of OLD/OLD.* and references to the "
                   "local names they bind; never after a dot, in strings/comments, or through an import of a proper prefix of OLD",
                   "oracle domain for maps: OLDs distinct, NEWs distinct, no NEW prefix-related to another entry's OLD, except "
                   "chained maps (case flag `chain`): a NEW may be a dotted prefix of / equal to another entry's OLD; for these "
                   "the oracle demands: output parses, imports under no OLD unchanged, no import under OLD left as it was, "
                   "identical behaviour (swaps and other relations are checked against the model only)",
                   "a relative import's dotted path begins with a dot: it is under no OLD and must come out unchanged",
                   "the model's \\w is Python's on ASCII, U+0080-U+017F, Greek and CJK Unified Ideographs (compared with re on every "
                   "code point of these blocks); text outside that alphabet is not sent to the model (see known finding C18-D5)"]
    families = {}

    _tmp = None

    # -- lifecycle -------------------------------------------------------------
    def setup(self, tier, rng):
        self._tmp = tempfile.mkdtemp(prefix="pfbverif_c18_")
        self.guard = self._probe_guard()

    guard = False

    @staticmethod
    def _probe_guard():
        """Which body pattern does this tree use?  (plain `\\bK\\b`, or the dot-guarded one of fixes/C18-D3.diff)"""
        from pyflyby import transform_imports
        out = transform_imports("x = o.k\n", {"k": "v"}).text.joined
        return out == "x = o.k\n"

    def teardown(self):
        if self._tmp:
            shutil.rmtree(self._tmp, ignore_errors=True)
            self._tmp = None

    # -- cases -----------------------------------------------------------------
    def gen_case(self, rng, i, tier):
        r = rng.random()
        if tier == "search":
            return G.gen_odomain_case(rng)
        ncli = 120 if tier == "thorough" else 10
        ntidy = 200 if tier == "thorough" else 24
        if i < ncli:
            return G.gen_odomain_case(rng, mode="cli")
        if i < ncli + ntidy:
            return G.gen_tidy_case(rng)
        if r < 0.72:
            return G.gen_odomain_case(rng)
        return G.gen_konly_case(rng)

    def exhaustive_cases(self, tier, rng):
        """Small-scope exhaustive unit cases: Import.replace on all dotted names over a tiny alphabet,
        and the body regex on all short texts."""
        thorough = tier == "thorough"
        letters = "abc" if thorough else "ab"
        maxlen = 3 if thorough else 2
        idents = ["".join(t) for n in range(1, maxlen + 1) for t in itertools.product(letters, repeat=n)]
        if thorough:
            idents4 = idents + ["".join(t) for t in itertools.product(letters, repeat=4)]
        short = [x for x in idents if len(x) <= 2][:6]
        dotted = short + [a + "." + b for a in short for b in short] + ["a.b.c", "a.b.a", "a.a.a", "ab.a.b"]
        imps = []
        for f in dotted:
            for old in dotted:
                for a in {f, f.rsplit(".", 1)[-1], "a", "z"}:
                    imps.append([f, a, old, "x.y" if (len(f) + len(old)) % 2 else "q"])
        if thorough:
            for f in idents4:
                for old in idents4:
                    imps.append([f, f, old, "q"])
        else:
            imps = rng.sample(imps, 3000)
        # relative / odd names (correspondence of split/from_split and of the replace edge cases)
        for f in [".a", "..a.b", ".", "..", "a.", ".a.b", "a..b", "", "a.b."]:
            for old in ["a", ".a", "", "a.b", "."]:
                for a in {f, f.rsplit(".", 1)[-1], "a"}:
                    imps.append([f, a, old, "x"])
        alpha = ["a", "b", ".", " ", "_"] if thorough else ["a", "b", ".", " "]
        tl = 6 if thorough else 5
        texts = ["".join(t) for n in range(0, tl + 1) for t in itertools.product(alpha, repeat=n)]
        keys = ["a", "ab", "a.b", "b.a", "a.a", "a_", "a.b.a"]
        subs = [[k, "X.y", t] for t in texts for k in keys]
        if not thorough:
            subs = rng.sample(subs, 4000)
        # non-ASCII word characters: `é`, `模` are `\w` for Python; the model must agree (and `éa` is one word)
        alpha2 = ["a", "é", ".", " ", "模"]
        texts2 = ["".join(t) for n in range(1, 5) for t in itertools.product(alpha2, repeat=n)]
        subs2 = [[k, "X.y", t] for t in texts2 for k in ["a", "é", "a.é", "模", "é模"]]
        subs += subs2 if thorough else rng.sample(subs2, 1200)
        for f in ["é", "é.b", "a.é", "模块.子", "données.lecture.lire", "donnée.x"]:
            for old in ["é", "a", "données", "donnée", "données.lecture", "模块", "模"]:
                for a in {f, f.rsplit(".", 1)[-1], "é"}:
                    imps.append([f, a, old, "ζ.y"])
        out = []
        # `\w` itself, code point by code point, on the whole modelled alphabet (+ a band outside it)
        cps = list(range(0, 0x180)) + list(range(0x370, 0x400)) + list(range(0x4E00, 0xA000)) + \
            list(range(0x180, 0x250)) + [0x902, 0x3040, 0x3042, 0x1F600]
        out.append(dict(kind="unit", imps=[], subs=[], cps=cps, odomain=False, map=[], text="", mods={}))
        for i in range(0, len(imps), 400):
            out.append(dict(kind="unit", imps=imps[i:i + 400], subs=[], odomain=False, map=[], text="", mods={}))
        for i in range(0, len(subs), 800):
            out.append(dict(kind="unit", imps=[], subs=subs[i:i + 800], odomain=False, map=[], text="", mods={}))
        return out

    # -- implementation ----------------------------------------------------------
    def effective_map(self, case):
        # ImportMap.without_imports: "Matches both keys and values" (only a chained map has a value that is a key)
        forget = set(case.get("forget") or [])
        return [e for e in case["map"] if e[0] not in forget and e[1] not in forget]

    def family_map(self, case):
        """the map the known-finding families look at: for a chained map also the chained entries read over the
        original names ({a: n, n: m.w} behaves on `a` like {a: m.w})"""
        ents = self.effective_map(case)
        return ents + G.pulled_back(ents) if case.get("chain") else ents

    def run_impl(self, case):
        import pyflyby._imports2s as I2S
        from pyflyby import transform_imports, canonicalize_imports
        from pyflyby._importdb import ImportDB
        if case.get("kind") == "unit":
            return self._run_unit(case)
        text, entries, params = case["text"], case["map"], dict(case.get("params") or {})
        mode = case.get("mode", "transform")
        obs = dict(mode=mode)
        if mode not in ("cli", "tidy"):
            # calls made earlier in this process: first the ones the case carries, then the case itself is
            # remembered so that a state-dependent failure of a later case can be made self-contained
            for pc in case.get("prior_calls") or []:
                self._plain_call(pc)
            obs["hist_index"] = len(self._history)
            self._history.append(dict(text=text, map=[list(e) for e in entries], mode=mode,
                                      forget=case.get("forget"), dbsplit=case.get("dbsplit")))
        rec = _Recorder()
        Orig = I2S.SourceToSourceFileImportsTransformation

        class Rec(Orig):
            def preprocess(self):
                Orig.preprocess(self)
                rec.blocks_in = _blocks_snapshot(self, "in")

            def output(self, params=None):
                rec.blocks_out = _blocks_snapshot(self, "out")
                return Orig.output(self, params=params)

        if mode == "cli":
            return self._run_cli(case, obs)
        if mode == "tidy":
            return self._run_tidy(case, obs)
        I2S.SourceToSourceFileImportsTransformation = Rec
        from pyflyby._importstmt import ImportFormatParams
        if isinstance(params.get("align_imports"), list):
            params["align_imports"] = tuple(params["align_imports"])      # JSON has no tuples
        fp = ImportFormatParams(**params) if params else None
        try:
            if mode == "canonical":
                db = ImportDB(self._dbtext(entries, case.get("forget"), case.get("dbsplit")))
                obs["dbmap"] = [[k, v] for k, v in db.canonical_imports.items()]
                res = canonicalize_imports(text, params=fp, db=db)
            else:
                res = transform_imports(text, dict((k, v) for k, v in entries), params=fp)
            obs["out"] = res.text.joined
        except Exception as e:
            obs["err"] = _exc_enum(e)
            obs["errmsg"] = str(e)[:300]
        finally:
            I2S.SourceToSourceFileImportsTransformation = Orig
        obs["blocks_in"] = rec.blocks_in
        obs["blocks_out"] = rec.blocks_out
        return obs

    _history = []          # per process: every transform/canonicalize call made through run_impl, in order
    _iso_budget = 2        # per process: unlisted failures that get the fresh-process treatment

    @staticmethod
    def _dbtext(entries, forget=None, dbsplit=None):
        # several assignments are merged by ImportMap._merge in order
        cuts = [0] + sorted(set(dbsplit or [])) + [len(entries)]
        dbtext = ""
        for a, b in zip(cuts, cuts[1:]):
            if b > a:
                dbtext += "__canonical_imports__ = {%s}\n" % ", ".join("%r: %r" % (k, v) for k, v in entries[a:b])
        if forget:
            dbtext += "__forget_imports__ = [%s]\n" % ", ".join(repr(k) for k in forget)
        return dbtext

    def _plain_call(self, pc):
        """One earlier call; its result (or exception) is irrelevant."""
        from pyflyby import transform_imports, canonicalize_imports
        from pyflyby._importdb import ImportDB
        self._history.append(dict(text=pc["text"], map=[list(e) for e in pc["map"]], mode=pc.get("mode", "transform"),
                                  forget=pc.get("forget"), dbsplit=pc.get("dbsplit")))
        try:
            if pc.get("mode") == "canonical":
                canonicalize_imports(pc["text"], db=ImportDB(self._dbtext(pc["map"], pc.get("forget"), pc.get("dbsplit"))))
            else:
                transform_imports(pc["text"], dict((k, v) for k, v in pc["map"]))
        except Exception:
            pass

    def _run_unit(self, case):
        from pyflyby._importstmt import Import
        guard = self._probe_guard() if not hasattr(self, "_g") else self._g
        obs = dict(mode="unit", imps=[], subs=[])
        for f, a, old, new in case["imps"]:
            try:
                r = Import.from_parts(f, a).replace(old, new)
                sp = r.split
                rt = Import.from_split(sp)
                obs["imps"].append(dict(ok=[r.fullname, r.import_as], split=list(sp), rt=[rt.fullname, rt.import_as]))
            except Exception as e:
                obs["imps"].append(dict(err=_exc_enum(e)))
        pat = "(?<!\\.)\\b%s\\b" if guard else "\\b%s\\b"
        for k, v, t in case["subs"]:
            obs["subs"].append(re.sub(pat % re.escape(k), v, t))
        if case.get("cps"):
            obs["isw"] = [bool(re.fullmatch(r"\w", chr(n))) for n in case["cps"]]
        obs["guard"] = guard
        return obs

    def _run_cli(self, case, obs):
        d = tempfile.mkdtemp(prefix="c18cli_", dir=self._tmp)
        try:
            path = os.path.join(d, "prog.py")
            with open(path, "w", encoding="utf-8") as f:
                f.write(case["text"])
            env = dict(os.environ)
            env["PYTHONPATH"] = os.path.join(REPO, "lib", "python")
            env["PYFLYBY_PATH"] = "EMPTY"
            env["PYFLYBY_LOG_LEVEL"] = "ERROR"
            env["PYTHONUTF8"] = "1"
            cmd = [sys.executable, os.path.join(REPO, "bin", "transform-imports")]
            for k, v in case["map"]:
                cmd += ["--transform", "%s=%s" % (k, v)]
            cmd += ["--print", path]
            p = subprocess.run(cmd, env=env, stdout=subprocess.PIPE, stderr=subprocess.PIPE, text=True,
                               encoding="utf-8", timeout=60)
            if p.returncode != 0:
                obs["err"] = "cli-exit-%d" % p.returncode
                obs["errmsg"] = p.stderr[-300:]
            else:
                obs["out"] = p.stdout
        finally:
            shutil.rmtree(d, ignore_errors=True)
        return obs

    def _run_tidy(self, case, obs):
        """bin/tidy-imports (sub-process, default options) on the case's file with the case's import database:
        once with the rename (obs["out"]) and once without it (obs["t0"]: --no-canonicalize / no --transform).
        The program the rename applies to is t0 - the file with the imports tidy-imports itself adds or drops."""
        d = tempfile.mkdtemp(prefix="c18tidy_", dir=self._tmp)
        try:
            path = os.path.join(d, "prog.py")
            with open(path, "w", encoding="utf-8") as f:
                f.write(case["file"])
            route = case.get("route", "canonical")
            db = "".join(l + "\n" for l in case.get("known") or [])
            if case.get("mandatory"):
                db += "__mandatory_imports__ = [%s]\n" % ", ".join(repr(x) for x in case["mandatory"])
            db2 = None
            if route == "canonical":
                if case.get("dbfiles") == 2 and len(case["map"]) > 1:
                    # two database files on PYFLYBY_PATH (ImportDB.__or__ / ImportMap.__or__): the known imports and
                    # the first renames in one, the remaining renames in the other
                    cut = (case.get("dbsplit") or [1])[0]
                    db += self._dbtext(case["map"][:cut])
                    db2 = self._dbtext(case["map"][cut:], case.get("forget"))
                else:
                    db += self._dbtext(case["map"], case.get("forget"), case.get("dbsplit"))
            dbpath = os.path.join(d, "db.py")
            with open(dbpath, "w", encoding="utf-8") as f:
                f.write(db)
            if db2 is not None:
                with open(os.path.join(d, "db2.py"), "w", encoding="utf-8") as f:
                    f.write(db2)
                dbpath += os.pathsep + os.path.join(d, "db2.py")
            env = dict(os.environ)
            env["PYTHONPATH"] = os.path.join(REPO, "lib", "python")
            env["PYFLYBY_PATH"] = dbpath
            env["PYFLYBY_LOG_LEVEL"] = "ERROR"
            env["PYTHONUTF8"] = "1"
            base = [sys.executable, os.path.join(REPO, "bin", "tidy-imports"), "--print"]
            with_rename, without = list(base), list(base)
            if route == "canonical":
                without.append("--no-canonicalize")
            else:
                for k, v in case["map"]:
                    with_rename += ["--transform", "%s=%s" % (k, v)]
            procs = [subprocess.Popen(cmd + [path], env=env, cwd=d, stdout=subprocess.PIPE, stderr=subprocess.PIPE,
                                      text=True, encoding="utf-8") for cmd in (without, with_rename)]
            res = [(pr.communicate(timeout=120), pr.returncode) for pr in procs]
            (o0, e0), rc0 = res[0]
            (o1, e1), rc1 = res[1]
            if rc0 != 0:
                obs["t0_err"] = "cli-exit-%d" % rc0
                obs["t0_errmsg"] = e0[-300:]
            else:
                obs["t0"] = o0
            if rc1 != 0:
                obs["err"] = "cli-exit-%d" % rc1
                obs["errmsg"] = e1[-300:]
            else:
                obs["out"] = o1
        finally:
            shutil.rmtree(d, ignore_errors=True)
        return obs

    # -- oracle ----------------------------------------------------------------
    def _oracle_unit(self, case, obs):
        """Prefix-exactness of Import.replace in the property's own words, on every (name, OLD) pair."""
        fails = []
        for (f, a, old, new), o in zip(case["imps"], obs["imps"]):
            if not (G._dotted_ident(f) and G._dotted_ident(old) and G._dotted_ident(a)):
                continue
            if "err" in o:
                fails.append(dict(what="Import.replace raised", imp=[f, a], old=old, new=new, err=o["err"]))
                continue
            if G.under(f, old):
                want = [G.rename(f, old, new), G.rename(a, old, new) if G.under(a, old) else a]
            else:
                want = [f, a]
            if o["ok"] != want:
                fails.append(dict(what="Import.replace is not prefix-exact", imp=[f, a], old=old, new=new,
                                  got=o["ok"], want=want))
            else:
                # the printed form binds the local name
                bound = o["split"][2] if o["split"][2] is not None else o["split"][1]
                if bound != want[1]:
                    fails.append(dict(what="split form binds another name", imp=[f, a], old=old, new=new,
                                      split=o["split"]))
        return fails[:4]

    def oracle(self, case, obs):
        fails = self._oracle_core(case, obs)
        if fails and not case.get("_isolated"):
            try:
                self._make_self_contained(case, obs, fails)
            except Exception as e:       # never turn the bookkeeping into a harness error
                for fl in fails:
                    fl["isolation_error"] = repr(e)[:200]
        return fails

    # -- state-dependent failures ------------------------------------------------------
    def _unlisted(self, case, fails):
        if not hasattr(self, "_known"):
            from vcommon import load_known_findings
            self._known = [e for e in load_known_findings(self.id) if e.get("status") == "finding"]
        out = []
        for fl in fails:
            hit = False
            for e in self._known:
                fam = self.families.get(e.get("family"))
                try:
                    if fam and fam(case, fl):
                        hit = True
                        break
                except Exception:
                    pass
            if not hit:
                out.append(fl)
        return out

    def _fresh_eval(self, case, prior):
        """Evaluate `case` preceded by the calls `prior` in a brand-new interpreter; list of failure 'what's."""
        c = {k: v for k, v in case.items() if not k.startswith("_")}
        c["prior_calls"] = prior
        c["_isolated"] = True
        env = dict(os.environ)
        env["PYTHONUTF8"] = "1"
        p = subprocess.run([sys.executable, os.path.abspath(__file__), "--eval"], input=json.dumps(c), env=env,
                           stdout=subprocess.PIPE, stderr=subprocess.PIPE, text=True, encoding="utf-8", timeout=300)
        for line in reversed(p.stdout.splitlines()):
            if line.startswith("C18EVAL "):
                return json.loads(line[len("C18EVAL "):])
        raise RuntimeError("fresh evaluation failed: " + p.stderr[-300:])

    def _make_self_contained(self, case, obs, fails):
        """A failure that is not a listed finding must replay from the case alone.  The pool workers evaluate
        many cases per process; if this failure needs calls made earlier in this process, find a small set of
        them and record it as the case's `prior_calls` (through obs -> stats(), see there)."""
        if case.get("kind") == "unit" or obs.get("mode") in ("cli", "tidy") or "hist_index" not in obs:
            return
        if not self._unlisted(case, fails):
            return
        if C18._iso_budget <= 0:
            return
        C18._iso_budget -= 1
        own = list(case.get("prior_calls") or [])
        if self._fresh_eval(case, own):
            for fl in fails:
                fl["self_contained"] = True
            return
        # passes on its own: the failure depends on what this process did before
        hist = self._history[:obs["hist_index"] - len(own)]
        olds = {o for o, _ in case["map"]}
        related = [h for h in hist if olds & {o for o, _ in h["map"]}]
        cand = None
        for trial in (related[-60:], hist[-400:]):
            if trial and self._fresh_eval(case, trial + own):
                cand = trial
                break
        if cand is None:
            for fl in fails:
                fl["state_dependent"] = "passes in a fresh process; no prefix of this worker's earlier calls reproduces it"
            return
        # minimise: a single earlier call is the common case, then greedy removal (bounded)
        trials = 0
        single = None
        for h in reversed(cand[-12:]):
            trials += 1
            if self._fresh_eval(case, [h] + own):
                single = [h]
                break
        if single is not None:
            cand = single
        else:
            n = 2
            while len(cand) > 1 and trials < 30:
                size = max(1, len(cand) // n)
                reduced = False
                for i in range(0, len(cand), size):
                    rest = cand[:i] + cand[i + size:]
                    trials += 1
                    if rest and self._fresh_eval(case, rest + own):
                        cand, n, reduced = rest, max(2, n - 1), True
                        break
                    if trials >= 30:
                        break
                if not reduced:
                    if size == 1:
                        break
                    n = min(len(cand), n * 2)
        obs["prior_calls"] = cand + own
        for fl in fails:
            fl["state_dependent"] = "needs %d earlier call(s) in the same process (recorded as prior_calls)" % len(cand)
            fl["prior_calls"] = cand + own

    def _oracle_core(self, case, obs):
        if case.get("kind") == "unit":
            return self._oracle_unit(case, obs)
        if not case.get("odomain"):
            return []
        text, entries = case["text"], self.effective_map(case)
        chain = bool(case.get("chain"))
        may_drop = False
        if case.get("mode") == "tidy":
            # the rename applies to what tidy-imports makes of the file before renaming (missing imports added
            # from the database, unused ones dropped): that program is the reference, not the file
            if obs.get("t0") is None:
                obs["tidy_reference_failed"] = True
                return []
            # route canonical: the database's renames are applied last, to obs["t0"].  Route transform:
            # --transform is applied first, to the file itself; the tidying that follows may drop imports
            # (unused / made redundant), never add one here (the file lacks none)
            text = obs["t0"] if case.get("route", "canonical") == "canonical" else case["file"]
            may_drop = text is not obs["t0"]
        base = dict(map=case["map"], text=text, mode=case.get("mode"))
        if case.get("mode") == "tidy":
            base["file"] = case.get("file")
        # chained maps: the program-domain conditions also hold for the chained entries read over the original names
        dom = G.domain_problems(text, entries + G.pulled_back(entries) if chain else entries)
        if dom:
            if case.get("mode") == "tidy":
                obs["tidy_reference_outside_domain"] = True
            return []           # outside the property's program domain: nothing is claimed
        if not (G.map_in_chain_domain(entries) if chain else G.map_in_odomain(entries)):
            return []
        if "err" in obs:
            return [dict(base, what="rename raised", err=obs["err"], msg=obs.get("errmsg"))]
        out = obs["out"]
        fails = []
        try:
            imp_in = G.toplevel_imports(text)
            imp_out = G.toplevel_imports(out)
        except SyntaxError as e:
            return [dict(base, what="output does not parse", out=out)]
        set_out = set(imp_out)
        accounted = set()
        for f, l in imp_in:
            matches = [(o, n) for o, n in entries if G.under(f, o)]
            if not matches:
                accounted.add((f, l))
                if (f, l) not in set_out and not may_drop:
                    got = sorted(x for x in set_out if x[1] == l or x[0] == f)
                    fails.append(dict(base, what="an import whose path is not under OLD was changed",
                                      imp=[f, l], got=got, out=out))
                continue
            if chain:
                # chained maps: which path the import ends at is judged by running the program; here only
                # "an import under OLD does not stay"
                if (f, l) in set_out:
                    fails.append(dict(base, what="an import under OLD was not rewritten", imp=[f, l], out=out))
                continue
            images = set()
            for o, n in matches:
                l2 = G.rename(l, o, n) if G.under(l, o) else l
                images.add((G.rename(f, o, n), l2))
            accounted |= images
            if not (images & set_out) and not (may_drop and (f, l) not in set_out):
                got = sorted(x for x in set_out if x[1] == l)
                if (f, l) in set_out:
                    fails.append(dict(base, what="an import under OLD was not rewritten", imp=[f, l], out=out))
                elif any(x[0] in {i[0] for i in images} for x in set_out):
                    fails.append(dict(base, what="rewritten import no longer binds the local name the code uses",
                                      imp=[f, l], want=sorted(images), got=sorted(set_out), out=out))
                else:
                    fails.append(dict(base, what="import under OLD rewritten to an unexpected path",
                                      imp=[f, l], want=sorted(images), got=sorted(set_out), out=out))
        # function-level imports: the statement says "the imports", so they are checked too
        try:
            nin, nout = G.nested_imports(text), G.nested_imports(out)
        except SyntaxError:
            nin, nout = [], []
        nset = {(f, l) for f, l, _ in nout}
        for f, l, seg in nin:
            matches = [(o, n) for o, n in entries if G.under(f, o)]
            if not matches:
                if (f, l) not in nset:
                    fails.append(dict(base, what="an import whose path is not under OLD was changed", nested=True,
                                      imp=[f, l], out=out))
                continue
            images = {(G.rename(f, o, n), G.rename(l, o, n) if G.under(l, o) else l) for o, n in matches}
            if chain:
                if (f, l) in nset:
                    fails.append(dict(base, what="an import under OLD was not rewritten", nested=True, imp=[f, l],
                                      stmt=seg, out=out))
                continue
            if not (images & nset):
                fails.append(dict(base, what="an import under OLD was not rewritten", nested=True, imp=[f, l],
                                  stmt=seg, out=out))
        extra = set_out - accounted
        if extra and not fails and not chain:
            fails.append(dict(base, what="output has an import that is no image of an input import",
                              extra=sorted(extra), out=out))
        # behaviour under the aliasing universe
        t_in, t_out = G.run_both(case["mods"], entries, text, out, case.get("pkg"))
        if t_in is None:
            # no universe in which every NEW denotes its OLD's object could be built: no reference behaviour
            obs["universe_inconsistent"] = True
            return fails[:4]
        if any(x.startswith("EXC ") or x == "SyntaxError" for x in t_in):
            # the input program does not run in its own universe: no reference behaviour, nothing is claimed
            # (a generator defect; visible as `input_fails` in the evidence distribution)
            obs["input_fails"] = True
            return fails[:4]
        if t_in != t_out:
            k = 0
            while k < min(len(t_in), len(t_out)) and t_in[k] == t_out[k]:
                k += 1
            fails.append(dict(base, what="behaviour differs after the rename",
                              first_diff=[t_in[k:k + 1], t_out[k:k + 1]], out=out))
        return fails[:4]

    # -- model -----------------------------------------------------------------------
    def model_requests(self, case, obs):
        g = bool(self.guard)
        if case.get("kind") == "unit":
            reqs = [dict(op="replace", imp=[f, a], old=old, new=new) for f, a, old, new in case["imps"]]
            reqs += [dict(op="sub", old=k, new=v, text=t, guard=bool(obs.get("guard"))) for k, v, t in case["subs"]]
            if case.get("cps"):
                reqs.append(dict(op="isw", cps=case["cps"]))
            return reqs
        if obs.get("mode") in ("cli", "tidy") or obs.get("blocks_in") is None:
            return []
        if not all(G.in_alphabet(b.get("text", "")) for b in obs["blocks_in"]) or \
                not all(G.in_alphabet(k + v) for k, v in case["map"]):
            return []
        return [dict(op="transform", map=self.effective_map(case), guard=g, blocks=obs["blocks_in"])]

    @staticmethod
    def _canon_blocks(bs):
        out = []
        for b in bs:
            if b["kind"] == "imports":
                out.append(("imports", tuple(sorted(map(tuple, b["imports"])))))
            else:
                out.append(("text", b["text"]))
        return out

    def compare(self, case, obs, resps):
        if case.get("kind") == "unit":
            n = len(case["imps"])
            for (f, a, old, new), o, r in zip(case["imps"], obs["imps"], resps[:n]):
                if "err" in o:
                    return "Import.replace(%r,%r,%r,%r) raised %s; the model is total" % (f, a, old, new, o["err"])
                if o["ok"] != r["ok"] or o["split"] != r["split"] or o["rt"] != r["rt"]:
                    return "Import(%r as %r).replace(%r,%r): impl=%r model=%r" % (f, a, old, new, o, r)
            if case.get("cps"):
                r = resps[-1]
                for cp, py, lw, ina in zip(case["cps"], obs["isw"], r["ok"], r["in"]):
                    if ina != G.in_alphabet(chr(cp)):
                        return "modelled alphabet differs at U+%04X: lean=%r harness=%r" % (cp, ina, G.in_alphabet(chr(cp)))
                    if ina and py != lw:
                        return "\\w differs at U+%04X: re=%r model=%r" % (cp, py, lw)
            for (k, v, t), o, r in zip(case["subs"], obs["subs"], resps[n:]):
                if o != r["ok"]:
                    return "re.sub(%r -> %r, %r): re=%r model=%r" % (k, v, t, o, r["ok"])
                if r["tok"] != r["ok"] and k[:1].isalnum() and k[-1:].isalnum():
                    return "token-level specification differs from the scan on (%r, %r): %r vs %r" % (k, t, r["tok"], r["ok"])
            return None
        if obs.get("mode") == "canonical" and obs.get("dbmap") is not None:
            if obs["dbmap"] != [list(e) for e in self.effective_map(case)]:
                return "ImportMap iteration order/content: impl=%r expected=%r" % (obs["dbmap"], self.effective_map(case))
        r = resps[0]
        if case.get("odomain") and G.map_in_odomain(self.effective_map(case)) and not r.get("nonint"):
            return "hypothesis NonInterfering of C18_exact_map does not hold for a map of the oracle's domain: %r" % (
                self.effective_map(case),)
        if obs.get("blocks_out") is None:
            # failed before the block loop finished (parse errors): not modelled
            return None
        # (an error raised later, while pretty-printing, belongs to other properties; the blocks are still compared)
        got = self._canon_blocks(obs["blocks_out"])
        want = self._canon_blocks(r["ok"])
        if got != want:
            for i, (x, y) in enumerate(zip(got, want)):
                if x != y:
                    return "block %d: impl=%r model=%r" % (i, x, y)
            return "block count impl=%d model=%d" % (len(got), len(want))
        return None

    # -- known-finding families ------------------------------------------------------
    @staticmethod
    def _nonplain_single_locals(case):
        try:
            imps = G.toplevel_imports(case["text"]) + [(f, l) for f, l, _ in G.nested_imports(case["text"])]
            return [(f, l) for f, l in imps if "." not in l and f != l]
        except SyntaxError:
            return []

    def fam_alias_is_old_dotted_new(self, case, failure):
        """C18-D1: a from-/aliased import's local name (module-level or function-level import) equals a
        single-component OLD whose NEW is dotted: the dotted NEW lands in alias / member position."""
        ents = self.family_map(case)
        return any(l == o and "." in n for _, l in self._nonplain_single_locals(case) for o, n in ents)

    def fam_alias_is_old_nested_order(self, case, failure):
        """C18-D2: local name equals a single-component OLD_j, the import's path is under a longer OLD_i that
        comes earlier in the map (so the path no longer matches OLD_j when its turn comes)."""
        ents = self.family_map(case)
        for f, l in self._nonplain_single_locals(case):
            for j, (oj, nj) in enumerate(ents):
                if l != oj:
                    continue
                for i in range(j):
                    oi = ents[i][0]
                    if oi != oj and G.under(oi, oj) and G.under(f, oi):
                        return True
        return False

    def fam_new_contains_later_old(self, case, failure):
        """C18-D3: (a) a non-leading component sequence of NEW_i equals OLD_j for a later entry j, or
        (b) the dotted path of an import under OLD_j contains OLD_j again after a dot (`import a.a`).
        Either way the body regex matches text preceded by a dot."""
        ents = self.family_map(case)
        for i, (oi, ni) in enumerate(ents):
            for oj, nj in ents[i + 1:]:
                m = re.search(r"\b%s\b" % re.escape(oj), ni)
                if m and m.start() > 0:
                    return True
        try:
            imps = G.toplevel_imports(case["text"]) + [(f, l) for f, l, _ in G.nested_imports(case["text"])]
        except SyntaxError:
            return False
        for f, l in imps:
            for oj, nj in ents:
                if G.under(f, oj) and re.search(r"\.%s\b" % re.escape(oj), f):
                    return True
        return False

    def fam_nested_from_import(self, case, failure):
        """C18-D4: a function-level from-import whose statement text does not contain OLD contiguously
        (OLD spans the `import` keyword) is left alone: only module-level import blocks are parsed."""
        ents = self.family_map(case)
        # (b) the member name of a function-level from-import is a single-component OLD: the textual replacement
        #     puts NEW in member position ('from zy.y import zy.y') - same root cause, the statement is not parsed
        try:
            tree = ast.parse(case["text"])
            top = set(map(id, tree.body))
            for node in ast.walk(tree):
                if isinstance(node, ast.ImportFrom) and id(node) not in top:
                    if any(a.name == o for a in node.names for o, n in ents):
                        return True
        except SyntaxError:
            pass
        if not (failure.get("nested") and failure.get("what") == "an import under OLD was not rewritten"):
            return False
        seg = failure.get("stmt") or ""
        f = failure["imp"][0]
        ents = self.family_map(case)
        return seg.startswith("from ") and not any(
            G.under(f, o) and re.search(r"\b%s\b" % re.escape(o), seg) for o, n in ents)

    def fam_reads_through_package_binding(self, case, failure):
        """C18-D6: the only binding of a top-level package name is a plain dotted import under OLD that moves to
        another package; the body reads other attributes of that package through it."""
        if failure.get("what") != "behaviour differs after the rename":
            return False
        return G.reads_through_package_binding(failure.get("text") or case["text"], self.family_map(case))

    def fam_spaced_old_reference(self, case, failure):
        """C18-D7: the body has a reference under a dotted OLD with white space / a line break / a backslash
        continuation around a dot inside the OLD part: the word-boundary pattern does not match it, so the import
        is renamed and the reference is not (NameError / stale binding)."""
        if failure.get("what") != "behaviour differs after the rename":
            return False
        return G.spaced_old_reference(failure.get("text") or case["text"], self.family_map(case))

    def fam_identifier_not_w(self, case, failure):
        """C18-D5: the program has an identifier with a code point that continues an identifier but is not `\\w`."""
        return any(not re.fullmatch(r"\w+", m) for m in re.findall(r"[^\s.()\[\],=:'\"#+*/<>-]+", case["text"])
                   if m.isidentifier())

    # -- statistics ----------------------------------------------------------------
    def nontrivial_key(self, case, obs):
        if obs.get("mode") == "tidy":
            if obs.get("out") is not None and obs.get("t0") is not None and obs["out"] != obs["t0"]:
                return (case["file"], json.dumps(case["map"]), "tidy", json.dumps(case.get("known")))
            return None
        if obs.get("out") is not None and obs["out"] != case["text"]:
            return (case["text"], json.dumps(case["map"]), case.get("mode"))
        return None

    def sample_repr(self, case, obs):
        return dict(map=case["map"], mode=case.get("mode"), text=case["text"][:300], out=(obs.get("out") or "")[:300])

    def stats(self, case, obs, acc):
        def inc(k):
            acc[k] = acc.get(k, 0) + 1
        if obs.get("prior_calls") is not None:
            # found by _make_self_contained in the worker: the replay file is written from this dict
            case["prior_calls"] = obs["prior_calls"]
            inc("state_dependent_failures_made_self_contained")
        if case.get("kind") == "unit":
            inc("unit_cases")
            return
        if case.get("prior_calls"):
            inc("with_prior_calls")
        if "import *" in case["text"]:
            inc("star_import")
        if any(len(n) >= 25 for _, n in case["map"]):
            inc("long_new_25plus")
        ai = (case.get("params") or {}).get("align_imports")
        if isinstance(ai, (list, int)) and not isinstance(ai, bool):
            inc("integer_align_column")
        es_ = case["map"]
        if any(i != j and a[0].startswith(b[0]) and not G.under(a[0], b[0]) for i, a in enumerate(es_) for j, b in enumerate(es_)):
            inc("sibling_char_prefix_olds")
            if any(i != j and a[0].startswith(b[0]) and not G.under(a[0], b[0]) and a[1] == b[1] + a[0][len(b[0]):]
                   for i, a in enumerate(es_) for j, b in enumerate(es_)):
                inc("sibling_olds_parallel_news")
        if not case["text"].isascii() or not all((k + v).isascii() for k, v in case["map"]):
            inc("non_ascii_identifiers")
            if any(not o.split(".")[0].isascii() for o, _ in case["map"]):
                inc("non_ascii_old_root")
        if case.get("chain"):
            inc("chained_map")
            if len({o.split(".")[0] for o, _ in case["map"]} | {n.split(".")[0] for _, n in case["map"]}) > 1:
                inc("chained_map_across_packages")
        if case.get("pkg"):
            inc("relative_imports")
            inc("relative_imports_%d_dots" % max(len(m.group(1)) for m in re.finditer(r"^from (\.+)", case["text"], re.M)))
        if case.get("mode") == "tidy":
            inc("tidy_route_" + case.get("route", "?"))
            if case.get("file") != case["text"]:
                inc("tidy_file_lacks_or_renames_imports")
            if case.get("mandatory"):
                inc("tidy_mandatory_import")
            if case.get("dbfiles") == 2:
                inc("tidy_two_database_files")
            for k in ("tidy_reference_failed", "tidy_reference_outside_domain"):
                if obs.get(k):
                    inc(k)
            if obs.get("t0") is not None and obs.get("out") is not None and obs["t0"] != obs["out"]:
                inc("tidy_changed")
        inc("src_" + case.get("_src", "?"))
        inc("mode_" + case.get("mode", "transform"))
        inc("odomain" if case.get("odomain") else "konly")
        inc("entries_%d" % len(case["map"]))
        if "err" in obs:
            inc("err_" + obs["err"])
        es = case["map"]
        if any(i != j and G.under(a[0], b[0]) for i, a in enumerate(es) for j, b in enumerate(es)):
            inc("nested_olds")
        if any(len(o.split(".")) != len(n.split(".")) for o, n in es):
            inc("depth_changes")
        if case.get("forget"):
            inc("with_forget")
        if obs.get("input_fails"):
            inc("input_fails")
        if obs.get("universe_inconsistent"):
            inc("universe_inconsistent")
        if case.get("dbsplit"):
            inc("db_two_assignments")
        if obs.get("out") is not None and obs["out"] != case["text"]:
            inc("changed")


def _on_program(fam):
    """tidy route: the program the rename applies to is what tidy-imports made of the file (carried by the
    failure as `text`), the family predicates read that one"""
    def wrapped(case, failure):
        if case.get("mode") == "tidy" and failure.get("text"):
            case = dict(case, text=failure["text"])
        return fam(case, failure)
    return wrapped


PROP = C18()
PROP.families = {
    "alias_is_old_dotted_new": PROP.fam_alias_is_old_dotted_new,
    "alias_is_old_nested_order": PROP.fam_alias_is_old_nested_order,
    "new_contains_later_old": PROP.fam_new_contains_later_old,
    "nested_from_import": PROP.fam_nested_from_import,
    "identifier_not_w": PROP.fam_identifier_not_w,
    "reads_through_package_binding": PROP.fam_reads_through_package_binding,
    "spaced_old_reference": PROP.fam_spaced_old_reference,
}
PROP.families = {k: _on_program(v) for k, v in PROP.families.items()}


def _eval_main():
    """`python c18.py --eval` < case.json : evaluate one case (with its prior_calls) in this fresh interpreter."""
    import random
    import vcommon
    vcommon.setup_repo_path()
    case = json.loads(sys.stdin.read())
    PROP.setup("quick", random.Random(0))
    try:
        obs = PROP.run_impl(case)
        fails = PROP._oracle_core(case, obs)
    finally:
        PROP.teardown()
    print("C18EVAL " + json.dumps([f.get("what") for f in fails]))


if __name__ == "__main__" and "--eval" in sys.argv:
    sys.path.insert(0, os.path.dirname(os.path.abspath(__file__)))
    _eval_main()
