"""Entry point: python harness/run.py Cxx [--tier quick|thorough] [--replay FILE]"""
import argparse
import importlib
import os
import sys
import traceback

sys.path.insert(0, os.path.dirname(os.path.abspath(__file__)))


def main():
    ap = argparse.ArgumentParser()
    ap.add_argument("prop")
    ap.add_argument("--tier", default=os.environ.get("VERIF_TIER") or "quick", choices=["quick", "thorough"])
    ap.add_argument("--replay", default=None)
    a = ap.parse_args()
    import vcommon
    try:
        mod = importlib.import_module(a.prop.lower())
        prop = mod.PROP
        rc = vcommon.run_check(prop, tier=a.tier, replay=a.replay)
    except Exception:
        traceback.print_exc()
        print(f"INFRA property={a.prop}: harness crashed")
        rc = 2
    sys.stdout.flush()
    os._exit(rc)


if __name__ == "__main__":
    main()
