"""
gen_c08 — machinery of the C08 check that is independent of the property module:

* deterministic file contents,
* the in-child interception layer (`Tracer`): every file-system call that touches the
  scratch directory is a numbered *call boundary*; at a boundary the child can die
  (`os._exit(9)` — a true process death, nothing is flushed), raise an injected OSError,
  or wait for a scheduler token,
* the parent-side runners: `run_single` (one child), `run_pair` (two children stepped by a
  token-passing scheduler), directory snapshots.

The writes are intercepted at the `write(2)` boundary: `open()` for writing under the
scratch root builds the same stack `io.open` builds (FileIO -> BufferedWriter ->
TextIOWrapper, buffer size = st_blksize) with a FileIO subclass whose `write`/`close` are
call boundaries; an optional cap makes the raw write short (the kernel may do that), which
varies the chunking.  `strace` confirms (thorough tier) that the unpatched interpreter issues
the same system calls.
"""
from __future__ import annotations

import builtins
import errno as _errno
import hashlib
import io
import json
import os
import select
import signal
import stat as _stat
import sys
import time

# EINTR is absent on purpose: CPython retries interrupted calls itself (PEP 475), the code under test never sees it
ERRNOS = ["EIO", "ENOSPC", "EACCES", "EPERM", "EROFS", "EDQUOT", "ESTALE"]


def content(tag: str, size: int) -> str:
    """ASCII text of exactly `size` bytes; every line names the tag and its number, so a
    mix of two contents or a truncation never equals a complete content."""
    if size == 0:
        return ""
    out, n, i = [], 0, 0
    while n < size:
        l = "# %s line %07d abcdefghijklmnopqrstuvwxyz0123456789\n" % (tag, i)
        out.append(l)
        n += len(l)
        i += 1
    return "".join(out)[:size]


def py_source(tag: str, size: int) -> str:
    """compilable source with an unused import (tidy-imports rewrites it); about `size` bytes"""
    head = "import os, sys\n"
    tail = "print(sys.argv)\n"
    fill = content(tag, max(0, size - len(head) - len(tail)))
    if fill and not fill.endswith("\n"):
        fill = fill[:-1] + "\n"
    return head + fill + tail


def sha(b: bytes) -> str:
    return hashlib.sha1(b).hexdigest()[:16]


def errname(e) -> str:
    if isinstance(e, OSError) and e.errno is not None:
        return _errno.errorcode.get(e.errno, "E%d" % e.errno)
    return type(e).__name__


# ----------------------------------------------------------------------------
# child side
# ----------------------------------------------------------------------------

class Tracer:
    """Installed in a forked child only."""

    def __init__(self, root, wfd, plan, rfd=None):
        self.root = os.path.realpath(root) + os.sep
        self.wfd = wfd
        self.rfd = rfd            # token pipe (scheduler) or None
        self.plan = plan          # dict(kind=None|'crash'|'fault', k=int, errno=str, cap=int|None)
        self.idx = 0
        self.armed = False
        self.fds = {}             # fds returned by the traced os.open -> rel path
        self.fdpath = {}          # fds of traced file objects -> rel path (for sendfile & co)
        self.real = {}

    # -- protocol ------------------------------------------------------------
    def emit(self, d):
        data = (json.dumps(d) + "\n").encode()
        while data:
            n = self.real_write(self.wfd, data)
            data = data[n:]

    def under(self, p):
        try:
            if isinstance(p, int) or p is None:
                return False
            p = os.fspath(p)
            if isinstance(p, bytes):
                p = os.fsdecode(p)
            ap = os.path.abspath(p)
            return (ap + os.sep).startswith(self.root) or ap.startswith(self.root)
        except Exception:
            return False

    def rel(self, p):
        p = os.fspath(p)
        if isinstance(p, bytes):
            p = os.fsdecode(p)
        return os.path.abspath(p)[len(self.root):]

    def gate(self, op, mutating, **desc):
        """A call boundary.  Returns the call index, or None for an untraced prelude call
        (reads/stats before the replacement's first mutating call)."""
        if not self.armed:
            if not mutating:
                return None
            self.armed = True
            ca = self.plan.get("chmod_at_arm")
            if ca:
                # "in another terminal": the owner changes the mode right before the replacement's first call
                self.real["chmod"](ca[0], ca[1])
        i = self.idx
        self.idx += 1
        self.emit(dict(i=i, op=op, **desc))
        if self.rfd is not None:
            t = self.real_read(self.rfd, 1)
            if not t:
                os._exit(7)          # scheduler went away
        k = self.plan.get("kind")
        if k == "crash" and i == self.plan["k"]:
            os._exit(9)
        if k == "faultcrash" and i == self.plan["j"]:
            os._exit(9)              # process death at a later boundary, after the injected error
        if k in ("fault", "faultcrash") and i == self.plan["k"]:
            en = getattr(_errno, self.plan["errno"])
            self.emit(dict(i=i, res=self.plan["errno"], injected=True))
            raise OSError(en, os.strerror(en))
        return i

    def done(self, i, res):
        if i is not None:
            m = dict(i=i, res=res)
            if self.plan.get("watch"):
                m["snap"] = self.snap()      # what an observer of the target sees right after this call
            self.emit(m)

    def snap(self):
        """bytes + mode of the watched path, read with the unpatched os functions"""
        try:
            fd = self.r_open(self.plan["watch"], os.O_RDONLY)
        except FileNotFoundError:
            return None
        except OSError as e:
            return dict(kind="unreadable", err=errname(e))
        try:
            st = os.fstat(fd)
            parts = []
            while True:
                b = self.real_read(fd, 1 << 20)
                if not b:
                    break
                parts.append(b)
        finally:
            self.r_close(fd)
        if not _stat.S_ISREG(st.st_mode):
            return dict(kind="notregular", mode="%06o" % st.st_mode)
        data = b"".join(parts)
        return dict(len=len(data), sha=sha(data), mode="%04o" % _stat.S_IMODE(st.st_mode), gid=st.st_gid)

    # -- wrappers ------------------------------------------------------------
    def install(self):
        T = self
        self.real_write = os.write
        self.real_read = os.read
        self.r_open = os.open
        self.r_close = os.close
        real_open = builtins.open

        class TFileIO(io.FileIO):
            def __init__(self, file, mode="r", closefd=True, opener=None):
                self._t_closed = True
                if isinstance(file, int):
                    self._t_path = T.fds.pop(file, "fd")
                    self._t_i = None
                    super().__init__(file, mode, closefd)
                else:
                    self._t_path = T.rel(file)
                    i = T.gate("open", True, path=self._t_path, mode=mode)
                    try:
                        super().__init__(file, mode, closefd, opener)
                    except OSError as e:
                        T.done(i, errname(e))
                        raise
                    T.done(i, "ok")
                    try:
                        T.fdpath[self.fileno()] = self._t_path
                    except Exception:
                        pass
                self._t_closed = False

            def write(self, b):
                mv = memoryview(b).cast("B")
                i = T.gate("write", True, path=self._t_path, n=len(mv), sha=sha(bytes(mv)))
                cap = T.plan.get("cap")
                if cap and len(mv) > cap:
                    mv = mv[:cap]
                try:
                    n = super().write(mv)
                except OSError as e:
                    T.done(i, errname(e))
                    raise
                T.done(i, "ok:%d" % n)
                return n

            def close(self):
                if self._t_closed or self.closed:
                    return super().close()
                self._t_closed = True
                try:
                    T.fdpath.pop(self.fileno(), None)
                except Exception:
                    pass
                try:
                    i = T.gate("close", True, path=self._t_path)
                except OSError:
                    super().close()      # close(2) releases the descriptor even when it reports an error
                    raise
                super().close()
                T.done(i, "ok")

        def myopen(file, mode="r", buffering=-1, encoding=None, errors=None, newline=None,
                   closefd=True, opener=None):
            traced = (isinstance(file, int) and file in T.fds) or \
                     (not isinstance(file, int) and T.under(file))
            if not traced or not (set(mode) & set("wax+")):
                return real_open(file, mode, buffering, encoding, errors, newline, closefd, opener)
            # the layering of io.open (cf. Lib/_pyio.py open)
            modes = set(mode)
            binary = "b" in modes
            rawmode = ("x" if "x" in modes else "") + ("r" if "r" in modes else "") + \
                      ("w" if "w" in modes else "") + ("a" if "a" in modes else "") + \
                      ("+" if "+" in modes else "")
            raw = TFileIO(file, rawmode, closefd, opener)
            try:
                line_buffering = False
                if buffering == 1 or (buffering < 0 and raw.isatty()):
                    buffering = -1
                    line_buffering = True
                if buffering < 0:
                    buffering = io.DEFAULT_BUFFER_SIZE
                    try:
                        bs = os.fstat(raw.fileno()).st_blksize
                        if bs > 1:
                            buffering = bs
                    except (OSError, AttributeError):
                        pass
                if buffering == 0:
                    if binary:
                        return raw
                    raise ValueError("can't have unbuffered text I/O")
                if "+" in modes:
                    buf = io.BufferedRandom(raw, buffering)
                elif modes & set("wax"):
                    buf = io.BufferedWriter(raw, buffering)
                else:
                    buf = io.BufferedReader(raw, buffering)
                if binary:
                    return buf
                text = io.TextIOWrapper(buf, encoding, errors, newline, line_buffering)
                text.mode = mode
                return text
            except BaseException:
                raw.close()
                raise

        builtins.open = myopen
        io.open = myopen

        def wrap(name, npaths, mutating):
            real = getattr(os, name, None)
            if real is None:
                return
            self.real[name] = real

            def w(*a, **k):
                paths = list(a[:npaths])
                for kw in ("path", "src", "dst"):
                    if kw in k:
                        paths.append(k[kw])
                if not any(T.under(p) for p in paths):
                    return real(*a, **k)
                rels = [T.rel(p) if T.under(p) else "<outside>" for p in paths]
                extra = {}
                if name in ("chmod", "lchmod") and len(a) > 1:
                    extra["mode"] = _stat.S_IMODE(a[1])
                if name in ("chown", "lchown") and len(a) > 2:
                    extra["uid"], extra["gid"] = a[1], a[2]
                i = T.gate(name, mutating, paths=rels, **extra)
                try:
                    r = real(*a, **k)
                except OSError as e:
                    T.done(i, errname(e))
                    raise
                T.done(i, "ok")
                return r
            w.__name__ = name
            setattr(os, name, w)

        for name, npaths, mut in (("stat", 1, False), ("lstat", 1, False), ("chmod", 1, True),
                                  ("lchmod", 1, True), ("chown", 1, True), ("lchown", 1, True),
                                  ("rename", 2, True), ("replace", 2, True), ("unlink", 1, True),
                                  ("remove", 1, True), ("link", 2, True), ("symlink", 2, True),
                                  ("truncate", 1, True), ("utime", 1, True), ("mkdir", 1, True),
                                  ("rmdir", 1, True), ("access", 1, False)):
            wrap(name, npaths, mut)

        real_os_open, real_os_close, real_fsync = os.open, os.close, os.fsync

        def os_open(path, flags, mode=0o777, *, dir_fd=None):
            if not T.under(path) or dir_fd is not None or not (flags & (os.O_WRONLY | os.O_RDWR | os.O_CREAT | os.O_TRUNC)):
                return real_os_open(path, flags, mode, dir_fd=dir_fd)
            i = T.gate("open", True, path=T.rel(path), mode="os.open:%o" % flags)
            try:
                fd = real_os_open(path, flags, mode)
            except OSError as e:
                T.done(i, errname(e))
                raise
            T.done(i, "ok")
            T.fds[fd] = T.rel(path)
            return fd

        def os_write(fd, data):
            if fd not in T.fds:
                return T.real_write(fd, data)
            mv = memoryview(data).cast("B")
            i = T.gate("write", True, path=T.fds[fd], n=len(mv), sha=sha(bytes(mv)))
            cap = T.plan.get("cap")
            if cap and len(mv) > cap:
                mv = mv[:cap]
            try:
                n = T.real_write(fd, mv)
            except OSError as e:
                T.done(i, errname(e))
                raise
            T.done(i, "ok:%d" % n)
            return n

        def os_close(fd):
            if fd not in T.fds:
                return real_os_close(fd)
            p = T.fds.pop(fd)
            try:
                i = T.gate("close", True, path=p)
            except OSError:
                real_os_close(fd)
                raise
            real_os_close(fd)
            T.done(i, "ok")

        def os_fsync(fd):
            return real_fsync(fd)

        os.open, os.write, os.close, os.fsync = os_open, os_write, os_close, os_fsync

        # descriptor-level writers that bypass FileIO.write (shutil's fast copy uses sendfile)
        def wrapfd(name, fdpos):
            real = getattr(os, name, None)
            if real is None:
                return

            def w(*a, **k):
                fd = a[fdpos] if len(a) > fdpos else None
                path = T.fdpath.get(fd) or T.fds.get(fd)
                if path is None:
                    return real(*a, **k)
                i = T.gate(name, True, path=path)
                try:
                    r = real(*a, **k)
                except OSError as e:
                    T.done(i, errname(e))
                    raise
                T.done(i, "ok")
                return r
            setattr(os, name, w)

        for name, fdpos in (("sendfile", 0), ("copy_file_range", 1), ("splice", 1), ("pwrite", 0), ("writev", 0),
                            ("pwritev", 0), ("ftruncate", 0), ("posix_fallocate", 0), ("fchmod", 0), ("fchown", 0)):
            wrapfd(name, fdpos)


def _child_main(entry, root, wfd, plan, rfd, prepare):
    """Runs in the forked child; never returns."""
    try:
        signal.alarm(60)
        if prepare:
            prepare(os.getpid())
        T = Tracer(root, wfd, plan, rfd)
        T.install()
        if plan.get("fsize"):
            # a real kernel-level limit: writes beyond it are cut short, then fail with EFBIG (disk full / quota)
            import resource
            signal.signal(signal.SIGXFSZ, signal.SIG_IGN)
            resource.setrlimit(resource.RLIMIT_FSIZE, (plan["fsize"], resource.getrlimit(resource.RLIMIT_FSIZE)[1]))
        try:
            entry()
            out = "returned"
        except SystemExit as e:
            out = "returned" if e.code in (0, None) else "raised:SystemExit"
        except OSError as e:
            out = "raised:" + errname(e)
        except BaseException as e:
            out = "raised:" + type(e).__name__
        T.emit(dict(fin=out, ncalls=T.idx))
    except BaseException as e:  # harness trouble inside the child
        try:
            os.write(wfd, (json.dumps(dict(fin="harness:" + repr(e)[:200])) + "\n").encode())
        except Exception:
            pass
    finally:
        os._exit(0)


# ----------------------------------------------------------------------------
# parent side
# ----------------------------------------------------------------------------

class _Lines:
    def __init__(self, fd):
        self.fd = fd
        self.buf = b""
        self.eof = False

    def next(self, timeout=30.0):
        """next JSON message or None at EOF"""
        end = time.time() + timeout
        while b"\n" not in self.buf:
            if self.eof:
                return None
            r, _, _ = select.select([self.fd], [], [], max(0.0, end - time.time()))
            if not r:
                raise TimeoutError("child did not answer")
            d = os.read(self.fd, 65536)
            if not d:
                self.eof = True
                return None
            self.buf += d
        line, self.buf = self.buf.split(b"\n", 1)
        return json.loads(line)


def fold_trace(msgs):
    """messages -> ([{op, path(s), res, ...}], fin)"""
    calls, fin, ncalls = [], None, None
    for m in msgs:
        if "fin" in m:
            fin, ncalls = m["fin"], m.get("ncalls")
        elif "res" in m:
            calls[m["i"]]["res"] = m["res"]
            if "snap" in m:
                calls[m["i"]]["snap"] = m["snap"]
            if m.get("injected"):
                calls[m["i"]]["injected"] = True
        else:
            assert m["i"] == len(calls), (m, len(calls))
            calls.append({k: v for k, v in m.items() if k != "i"})
    return calls, fin, ncalls


def snapshot(root, names=None):
    """{name: {len, sha, mode, gid}} of the regular files of the scratch directory"""
    out = {}
    for n in sorted(os.listdir(root)):
        if names is not None and n not in names:
            continue
        p = os.path.join(root, n)
        try:
            st = os.lstat(p)
            if _stat.S_ISREG(st.st_mode):
                with open(p, "rb") as f:
                    b = f.read()
                out[n] = dict(len=len(b), sha=sha(b), mode="%04o" % _stat.S_IMODE(st.st_mode), gid=st.st_gid)
            else:
                out[n] = dict(kind="notregular", mode="%06o" % st.st_mode)
        except FileNotFoundError:
            pass
    return out


def snap_one(root, name):
    return snapshot(root, {name}).get(name)


def read_follow(path):
    """what a reader of `path` gets (symlinks followed): {len, sha, mode, gid} or None"""
    try:
        with open(path, "rb") as f:
            st = os.fstat(f.fileno())
            b = f.read()
    except FileNotFoundError:
        return None
    except OSError as e:
        return dict(kind="unreadable", err=errname(e))
    if not _stat.S_ISREG(st.st_mode):
        return dict(kind="notregular", mode="%06o" % st.st_mode)
    return dict(len=len(b), sha=sha(b), mode="%04o" % _stat.S_IMODE(st.st_mode), gid=st.st_gid)


def _spawn(entry, root, plan, sched, prepare):
    r, w = os.pipe()
    tr = tw = None
    if sched:
        tr, tw = os.pipe()
    sys.stdout.flush()
    sys.stderr.flush()
    pid = os.fork()
    if pid == 0:
        try:
            os.close(r)
            if tw is not None:
                os.close(tw)
            dn = os.open(os.devnull, os.O_RDWR)
            for fd in (0, 1, 2):
                os.dup2(dn, fd)
        except BaseException:
            os._exit(8)
        _child_main(entry, root, w, plan, tr, prepare)
    os.close(w)
    if tr is not None:
        os.close(tr)
    return pid, _Lines(r), tw


def _reap(pid, kill=False):
    if kill:
        try:
            os.kill(pid, signal.SIGKILL)
        except ProcessLookupError:
            pass
    _, status = os.waitpid(pid, 0)
    if os.WIFEXITED(status):
        return "exit:%d" % os.WEXITSTATUS(status)
    return "signal:%d" % os.WTERMSIG(status)


def run_single(entry, root, plan, prepare=None):
    """Fork one child that runs `entry()` under the tracer with `plan`.
    Returns dict(pid, calls, fin, exit)."""
    pid, lines, _ = _spawn(entry, root, plan, False, prepare)
    msgs = []
    try:
        while True:
            m = lines.next()
            if m is None:
                break
            msgs.append(m)
        ex = _reap(pid)
    except TimeoutError:
        ex = _reap(pid, kill=True)
        os.close(lines.fd)
        raise
    os.close(lines.fd)
    calls, fin, ncalls = fold_trace(msgs)
    return dict(pid=pid, calls=calls, fin=fin, exit=ex)


def run_pair(entries, root, plans, sched, target_name, prepares=(None, None)):
    """Two children stepped at call boundaries by `sched` (string over 'A','B').
    A token lets the named child perform exactly one intercepted call; after each token the
    parent (the observer) snapshots the target.  When the schedule is exhausted unfinished
    children are killed (a crash of both at that point)."""
    ch = {}
    for X, e, p, prep in zip("AB", entries, plans, prepares):
        pid, lines, tw = _spawn(e, root, p, True, prep)
        ch[X] = dict(pid=pid, lines=lines, tw=tw, msgs=[], waiting=False, over=False)

    def advance(c):
        """read until the child is at a boundary (announced a call) or is over"""
        while True:
            m = c["lines"].next()
            if m is None:
                c["over"] = True
                return
            c["msgs"].append(m)
            if "fin" in m:
                c["over"] = True
                return
            if "res" not in m:
                c["waiting"] = True
                return
    snaps = []
    try:
        for X in "AB":
            advance(ch[X])
        snaps.append(snap_one(root, target_name))
        for tok in sched:
            c = ch[tok]
            if not c["over"] and c["waiting"]:
                c["waiting"] = False
                os.write(c["tw"], b"g")
                advance(c)          # reads the result of this call, then the next boundary / fin
            snaps.append(snap_one(root, target_name))
    finally:
        res = {}
        for X in "AB":
            c = ch[X]
            fin_seen = any("fin" in m for m in c["msgs"])
            ex = _reap(c["pid"], kill=not fin_seen)
            for fd in (c["lines"].fd, c["tw"]):
                try:
                    os.close(fd)
                except OSError:
                    pass
            calls, fin, _ = fold_trace(c["msgs"])
            res[X] = dict(pid=c["pid"], calls=calls, fin=fin, exit=ex)
    return dict(A=res["A"], B=res["B"], snaps=snaps)
