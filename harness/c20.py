"""C20 — Name analysis has no side effects on user objects."""
from __future__ import annotations

import ast
import json
import sys
import types

from vcommon import Prop
import gen_c05 as G

ROOTS = ["ta", "tb", "tc"]
PARTS = ["b", "c", "d"]
VN = ["a", "x", "y"]

EVENTS = []


def _fire(self, what, *more):
    d = object.__getattribute__(self, "__dict__")
    EVENTS.append([what, d["_idx"]] + list(more))
    if d.get("_explode"):
        raise RuntimeError("trap %s fired on object %d" % (what, d["_idx"]))


class _TrapMixin(object):
    """Every way of touching the object other than identity comparison and `__class__` is recorded."""

    def __getattribute__(self, name):
        if name == "__class__":          # isinstance() fallback: outside the property's quantifier
            return object.__getattribute__(self, name)
        _fire(self, "getattr", name)
        attrs = object.__getattribute__(self, "__dict__")["_attrs"]
        if name in attrs:
            return attrs[name]
        raise AttributeError(name)

    def __setattr__(self, name, value):
        _fire(self, "setattr", name)
        object.__getattribute__(self, "__dict__")["_attrs"][name] = value

    def __delattr__(self, name):
        _fire(self, "delattr", name)
        object.__getattribute__(self, "__dict__")["_attrs"].pop(name, None)

    def __eq__(self, other):
        _fire(self, "eq")
        return self is other

    def __ne__(self, other):
        _fire(self, "eq")
        return self is not other

    def __hash__(self):
        _fire(self, "hash")
        return 7

    def __bool__(self):
        _fire(self, "bool")
        return True

    def __len__(self):
        _fire(self, "len")
        return 1

    def __iter__(self):
        _fire(self, "iter")
        return iter(())

    def __contains__(self, x):
        _fire(self, "contains")
        return False

    def __call__(self, *a, **k):
        _fire(self, "call")

    def __repr__(self):
        _fire(self, "repr")
        return "<trap>"

    __str__ = __repr__


class Trap(_TrapMixin):
    pass


class TrapModule(_TrapMixin, types.ModuleType):
    """a ModuleType subclass"""


# Objects whose *class* has an attribute called `used` (the name of `_UseChecker`'s flag): a class constant, a property
# with a recording setter, a dataclass field with a default, on plain objects and on a ModuleType subclass.  Reading the
# class attribute through `type(obj)` records nothing (it does not touch the object); assigning `obj.used = …` does.
class TrapUsedConst(_TrapMixin):
    used = False


def _used_get(self):
    _fire(self, "getattr", "used")
    return object.__getattribute__(self, "__dict__")["_attrs"].get("used", False)


def _used_set(self, value):
    _fire(self, "setattr", "used")
    object.__getattribute__(self, "__dict__")["_attrs"]["used"] = value


class TrapUsedProp(_TrapMixin):
    used = property(_used_get, _used_set)


import dataclasses as _dc


@_dc.dataclass(eq=False, repr=False)
class TrapUsedField(_TrapMixin):
    used: bool = False
    name: str = ""
    lineno: int = 0


class TrapModuleUsed(_TrapMixin, types.ModuleType):
    """a ModuleType subclass with a class-level `used`"""
    used = False


USED_KINDS = {"trap_uc": TrapUsedConst, "trap_up": TrapUsedProp, "trap_ud": TrapUsedField}


def _mk_prop_class(names):
    """a class whose listed attributes are recording properties and whose other attributes go through __getattr__"""
    ns = {}

    def mk(n):
        def get(self):
            _fire(self, "getattr", n)
            return object.__getattribute__(self, "__dict__")["_attrs"][n]
        return property(get)
    for n in names:
        ns[n] = mk(n)

    def __getattr__(self, name):
        _fire(self, "getattr", name)
        raise AttributeError(name)
    ns["__getattr__"] = __getattr__
    for k in ("__eq__", "__ne__", "__hash__", "__bool__", "__len__", "__iter__", "__contains__", "__call__", "__repr__", "__str__"):
        ns[k] = _TrapMixin.__dict__[k]
    return type("PropTrap", (object,), ns)


class _Tripwire(object):
    """sys.meta_path entry recording every import that reaches the finders"""

    def __init__(self):
        self.seen = []

    def find_spec(self, name, path=None, target=None):
        self.seen.append(name)
        return None


def build(spec):
    """spec["objs"][i] = {"kind": trap|tmod|prop|none|int, "attrs": {name: j}}  ->  list of Python objects"""
    objs = []
    registered = set(spec["registry"].values())
    for i, o in enumerate(spec["objs"]):
        k = o["kind"]
        if k == "none":
            objs.append(None)
            continue
        if k == "int":
            objs.append(1000 + i)
            continue
        if k in ("tmod", "tmod_uc"):
            x = types.ModuleType.__new__(TrapModule if k == "tmod" else TrapModuleUsed)
            types.ModuleType.__init__(x, "tm%d" % i)
        elif k in USED_KINDS:
            x = object.__new__(USED_KINDS[k])
        elif k == "prop":
            x = object.__new__(_mk_prop_class(sorted(o["attrs"])))
        else:
            x = object.__new__(Trap)
        d = object.__getattribute__(x, "__dict__")
        d["_idx"] = i
        d["_attrs"] = {}
        d["_explode"] = i not in registered
        objs.append(x)
    for i, o in enumerate(spec["objs"]):
        if o["kind"] in ("none", "int"):
            continue
        d = object.__getattribute__(objs[i], "__dict__")
        for n, j in o["attrs"].items():
            d["_attrs"][n] = objs[j]
    return objs


def dotted_names_of(code):
    """all dotted chains (and their prefixes) that occur in the source text / dotted string"""
    out = set()
    try:
        tree = ast.parse(code)
    except SyntaxError:
        return out
    for n in ast.walk(tree):
        parts = None
        if isinstance(n, ast.Attribute):
            m, rev = n, []
            while isinstance(m, ast.Attribute):
                rev.append(m.attr)
                m = m.value
            if isinstance(m, ast.Name):
                parts = [m.id] + rev[::-1]
        elif isinstance(n, ast.Name):
            parts = [n.id]
        elif isinstance(n, ast.alias):
            parts = n.name.split(".")
        if parts:
            for k in range(1, len(parts) + 1):
                out.add(".".join(parts[:k]))
    return out


class C20(Prop):
    id = "C20"
    driver = "C20"
    lean_modules = ["Pfb.C20.Props", "Pfb.PyCore.Json"]
    theorems = [
        "Pfb.C20.C20_symbol_effects",
        "Pfb.C20.C20_effects",
        "Pfb.C20.C20_effects_cases",
        "Pfb.C20.C20_readonly",
        "Pfb.PyCore.symbolNeedsImport_spec",
    ]
    rule = ("find_missing_imports(code, namespaces) with code = a dotted name of depth 1-5, a generated mini-Python program "
            "(source) or its ast; namespaces = 1-3 dicts populated with trap objects (recording __getattribute__, __setattr__, "
            "__delattr__, properties, __eq__, __hash__, __bool__, __len__, __iter__, __call__, __repr__; ModuleType subclasses; "
            "proxies; objects whose class has an attribute named `used` — class constant, property with recording setter, "
            "dataclass field — like the analysis' own `_UseChecker`), None and ints; "
            "a registry (sys.modules entries for a private universe ta/tb/tc) that is mostly, not always, consistent with the "
            "attribute graph; objects that are nobody's registry entry raise on any touch; a recording sys.meta_path finder. "
            "non-trivial = at least one recorded event or one reported name; distinct by code+namespaces+registry")
    trusted_base = ["the trap classes of harness/c20.py record every attribute access except `__class__` (the isinstance() fallback, "
                    "stated outside the quantifier); plain ints/None cannot record",
                    "debug logging stays off (repr of namespace values under DEBUG is outside the quantifier)"]
    assumptions = ["namespaces are real dicts with str keys (dict subclasses with user __getitem__/__missing__ are not in the quantifier)",
                   "the theorems hold for the unchanged analysis and for the analysis carrying the proposed C05 repairs (all `Fixes`)"]
    anchors = [
        ("lib/python/pyflyby/_autoimp.py", "ScopeStack"),
        ("lib/python/pyflyby/_autoimp.py", "symbol_needs_import"),
        ("lib/python/pyflyby/_autoimp.py", "_MissingImportFinder"),
        ("lib/python/pyflyby/_autoimp.py", "find_missing_imports"),
        ("lib/python/pyflyby/_autoimp.py", "_find_missing_imports_in_ast"),
    ]
    quick_cases = 5000
    thorough_cases = 80000
    quick_deadline_s = 50
    thorough_deadline_s = 600
    families = {}

    # -- cases -----------------------------------------------------------------
    def gen_case(self, rng, i, tier):
        nobj = rng.choice([2, 3, 4, 5, 6])
        objs = []
        for k in range(nobj):
            r = rng.random()
            kind = "trap" if r < 0.4 else "tmod" if r < 0.65 else "prop" if r < 0.85 else "none" if r < 0.93 else "int"
            if kind == "trap" and r >= 0.25:
                kind = "trap_uc" if r < 0.30 else "trap_up" if r < 0.35 else "trap_ud"
            elif kind == "tmod" and r >= 0.60:
                kind = "tmod_uc"
            objs.append(dict(kind=kind, attrs={}))
        for o in objs:
            if o["kind"] in ("none", "int"):
                continue
            for _ in range(rng.choice([0, 1, 1, 2, 3])):
                o["attrs"][rng.choice(PARTS)] = rng.randrange(nobj)
        # registry: dotted names of the universe -> object index; mostly consistent with the attribute graph
        registry = {}
        for _ in range(rng.choice([0, 1, 1, 2, 2, 3])):
            root = rng.choice(ROOTS)
            j = rng.randrange(nobj)
            registry[root] = j
            name, cur = root, j
            for _ in range(rng.choice([0, 1, 2, 3])):
                part = rng.choice(PARTS)
                if rng.random() < 0.75 and objs[cur]["kind"] not in ("none", "int"):
                    nxt = rng.randrange(nobj)
                    if rng.random() < 0.8:
                        objs[cur]["attrs"][part] = nxt
                    name, cur = name + "." + part, nxt
                    registry[name] = cur
        nss = []
        for _ in range(rng.choice([1, 1, 1, 2, 3])):
            d = {}
            for _ in range(rng.choice([0, 1, 2, 2, 3])):
                r = rng.random()
                if r < 0.6:
                    key = rng.choice(ROOTS)
                elif r < 0.85:
                    key = rng.choice(VN + PARTS)
                else:
                    key = rng.choice(ROOTS) + "." + rng.choice(PARTS)
                if registry and rng.random() < 0.45:
                    nm = rng.choice(sorted(registry))
                    d[key if rng.random() < 0.3 else nm] = registry[nm]
                else:
                    d[key] = rng.randrange(nobj)
            nss.append(d)
        r = rng.random()
        if r < 0.5:
            parts = [rng.choice(ROOTS + VN)] + [rng.choice(PARTS) for _ in range(rng.choice([0, 1, 1, 2, 2, 3, 4]))]
            code = dict(mode="dotted", name=".".join(parts))
        else:
            g = G.Gen(rng)
            g.R, g.S, g.M, g.A, g.V = ROOTS, PARTS, PARTS, PARTS, VN
            prog = g.program(nstmts=rng.choice([1, 1, 2, 3]))
            # `del NAME` / `global NAME; del NAME` of names that only the caller's namespaces bind (the property's claim
            # "namespaces are left unmodified" holds for all code, also for code outside C05's claimed domain)
            keys = sorted({k for d in nss for k in d if "." not in k}) or VN
            for _ in range(rng.choice([0, 0, 1, 1, 2])):
                n = rng.choice(keys + VN[:1])
                r2 = rng.random()
                if r2 < 0.45:
                    st = ["delete", [["name", n]]]
                elif r2 < 0.6:
                    st = ["delete", [["name", n], ["attr", ["name", rng.choice(keys)], rng.choice(PARTS)]]]
                elif r2 < 0.85:
                    st = ["funcDef", "f", {"args": [], "defaults": []}, [["global", [n]], ["delete", [["name", n]]]], [], None]
                else:
                    st = ["classDef", "C", [], [["delete", [["name", n]]]], []]
                prog["body"].insert(rng.randrange(len(prog["body"]) + 1), st)
            code = dict(mode="prog" if rng.random() < 0.7 else "ast", prog=prog)
        return dict(objs=objs, registry=registry, ns=nss, code=code)

    # -- implementation --------------------------------------------------------
    def setup(self, tier, rng):
        G.install_builtins()
        from pyflyby import find_missing_imports
        find_missing_imports("zz.yy\nimport qq\ndef f(): return ww\n", [{}])     # warm-up: lazy imports of pyflyby itself

    def run_impl(self, case):
        from pyflyby import find_missing_imports
        G.install_builtins()
        objs = build(case)
        code = case["code"]
        if code["mode"] == "dotted":
            arg = src = code["name"]
            located = None
        else:
            src, _, located = G.render_full(code["prog"])
            arg = src if code["mode"] == "prog" else ast.parse(src)
        dump0 = ast.dump(arg) if isinstance(arg, ast.AST) else None
        nss = [{k: objs[j] for k, j in d.items()} for d in case["ns"]]
        before = [list(d.items()) for d in nss]
        saved = {}
        for name, j in case["registry"].items():
            saved[name] = sys.modules.get(name, saved)
            sys.modules[name] = objs[j]
        keys0 = set(sys.modules)
        wire = _Tripwire()
        sys.meta_path.insert(0, wire)
        del EVENTS[:]
        obs = dict(src=src)
        try:
            res = find_missing_imports(arg, nss)
            obs["result"] = sorted(str(x) for x in res)
        except Exception as e:
            obs["err"] = type(e).__name__ + ": " + str(e)[:200]
        finally:
            sys.meta_path.remove(wire)
            obs["events"] = [list(e) for e in EVENTS]
            obs["imports"] = list(wire.seen)
            obs["sysmodules_added"] = sorted(set(sys.modules) - keys0)
            after = [list(d.items()) for d in nss]
            obs["ns_same"] = (len(before) == len(after) and all(
                len(a) == len(b) and all(ka == kb and va is vb for (ka, va), (kb, vb) in zip(a, b))
                for a, b in zip(before, after)))
            # which recorded getattr hit the sys.modules entry of a dotted name, by identity
            regnames = {}
            for name in case["registry"]:
                regnames.setdefault(case["registry"][name], []).append(name)
            obs["regnames"] = {str(k): v for k, v in regnames.items()}
            for name in case["registry"]:
                if saved[name] is saved:
                    sys.modules.pop(name, None)
                else:
                    sys.modules[name] = saved[name]
            for m in obs["sysmodules_added"]:
                sys.modules.pop(m, None)
        obs["ast_same"] = (dump0 is None) or (ast.dump(arg) == dump0)
        obs["located"] = located
        obs["fixes"] = G.probe_fixes()
        return obs

    # -- oracle ----------------------------------------------------------------
    def oracle(self, case, obs):
        fails = []
        src = obs["src"]
        dotted = dotted_names_of(src)
        for e in obs["events"]:
            ok = False
            if e[0] == "getattr":
                for p in obs["regnames"].get(str(e[1]), []):
                    if (p + "." + e[2]) in dotted:
                        ok = True
            if not ok:
                fails.append(dict(what="user object touched by analysis", event=e, src=src, case_ns=case["ns"],
                                  registry=case["registry"]))
                break
        if obs["imports"] or obs["sysmodules_added"]:
            fails.append(dict(what="import attempted by analysis", imports=obs["imports"][:5], added=obs["sysmodules_added"][:5], src=src))
        if not obs["ns_same"]:
            fails.append(dict(what="caller's namespaces modified", src=src))
        if not obs["ast_same"]:
            fails.append(dict(what="source AST modified", src=src))
        if "err" in obs and not fails:
            fails.append(dict(what="analysis raised", err=obs["err"], src=src, case_ns=case["ns"], registry=case["registry"]))
        return fails

    # -- model -------------------------------------------------------------------
    def model_requests(self, case, obs):
        def val(j):
            return None if case["objs"][j]["kind"] == "none" else j
        ns = [[[k, val(j)] for k, j in d.items()] for d in case["ns"]]
        mods = [[n, val(j)] for n, j in case["registry"].items()]
        attrs = []
        for i, o in enumerate(case["objs"]):
            for a, j in o["attrs"].items():
                attrs.append([i, a, val(j)])
        import builtins
        b = [[n, 100000 + k] for k, n in enumerate(builtins.__dict__.keys())]
        req = dict(op="c20", mode=case["code"]["mode"], builtins=b, ns=ns, registry=dict(mods=mods, attrs=attrs),
                   fixes=obs.get("fixes", {}))
        if case["code"]["mode"] == "dotted":
            req["name"] = case["code"]["name"]
        else:
            req["prog"] = obs["located"]
        return [req]

    def compare(self, case, obs, resps):
        m = resps[0]
        if "err" in obs:
            return "implementation raised %s (model: %r)" % (obs["err"], m.get("missing"))
        if obs["result"] != m["missing"]:
            return "decision differs: impl=%r model=%r src=%r" % (obs["result"], m["missing"], obs["src"])
        want = []
        for e in m["effects"]:
            if e[0] in ("getattr", "truth", "eq", "hash") and e[1] is not None and case["objs"][e[1]]["kind"] == "int":
                continue          # a plain int cannot record
            if e[0] == "getattr" and e[1] is not None:
                want.append(["getattr", e[1], e[3]])
            elif e[0] in ("truth", "eq", "hash") and e[1] is not None:
                want.append([{"truth": "bool"}.get(e[0], e[0]), e[1]])
            elif e[0] == "import":
                want.append(["import", e[1]])
        got = [e for e in obs["events"]] + [["import", n] for n in obs["imports"]]
        if got != want:
            return "effects differ: recorded=%r model=%r src=%r" % (got[:12], want[:12], obs["src"])
        if not m["readonly"]:
            return "model wrote to a caller namespace"
        return None

    def nontrivial_key(self, case, obs):
        if obs.get("events") or len(obs.get("result", [])) > 0:
            return obs["src"] + json.dumps(case["ns"], sort_keys=True) + json.dumps(case["registry"], sort_keys=True)
        return None

    def sample_repr(self, case, obs):
        return dict(src=obs["src"][:200], ns=case["ns"], registry=case["registry"], result=obs.get("result"), events=obs.get("events", [])[:8])

    def stats(self, case, obs, acc):
        def inc(k):
            acc[k] = acc.get(k, 0) + 1
        inc("mode_" + case["code"]["mode"])
        inc("cases_from_" + case.get("_src", "?"))
        n = len(obs.get("events", []))
        inc("getattr_events_%s" % ("0" if n == 0 else "1-3" if n <= 3 else ">3"))
        if "err" in obs:
            inc("impl_raised")


PROP = C20()
