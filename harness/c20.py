"""C20 — Name analysis has no side effects on user objects."""
from __future__ import annotations

import ast
import builtins
import json
import re
import sys
import types

from vcommon import Prop
import gen_c05 as G
import gen_c20 as G20

ROOTS = ["ta", "tb", "tc"]
PARTS = ["b", "c", "d"]
VN = ["a", "x", "y"]

EVENTS = []


def _fire(self, what, *more):
    d = object.__getattribute__(self, "__dict__")
    EVENTS.append([what, d["_idx"]] + list(more))
    if d.get("_explode"):
        raise RuntimeError("trap %s fired on object %d" % (what, d["_idx"]))


class _TrapMixin(object):
    """Every way of touching the object other than identity comparison and `__class__` is recorded."""

    def __getattribute__(self, name):
        if name == "__class__":          # isinstance() fallback: outside the property's quantifier
            return object.__getattribute__(self, name)
        _fire(self, "getattr", name)
        attrs = object.__getattribute__(self, "__dict__")["_attrs"]
        if name in attrs:
            return attrs[name]
        raise AttributeError(name)

    def __setattr__(self, name, value):
        _fire(self, "setattr", name)
        object.__getattribute__(self, "__dict__")["_attrs"][name] = value

    def __delattr__(self, name):
        _fire(self, "delattr", name)
        object.__getattribute__(self, "__dict__")["_attrs"].pop(name, None)

    def __eq__(self, other):
        _fire(self, "eq")
        return self is other

    def __ne__(self, other):
        _fire(self, "eq")
        return self is not other

    def __hash__(self):
        _fire(self, "hash")
        return 7

    def __bool__(self):
        _fire(self, "bool")
        return True

    def __len__(self):
        _fire(self, "len")
        return 1

    def __iter__(self):
        _fire(self, "iter")
        return iter(())

    def __contains__(self, x):
        _fire(self, "contains")
        return False

    def __call__(self, *a, **k):
        _fire(self, "call")

    def __repr__(self):
        _fire(self, "repr")
        return "<trap>"

    __str__ = __repr__


class Trap(_TrapMixin):
    pass


class TrapModule(_TrapMixin, types.ModuleType):
    """a ModuleType subclass"""


# Objects whose *class* has an attribute called `used` (the name of `_UseChecker`'s flag): a class constant, a property
# with a recording setter, a dataclass field with a default, on plain objects and on a ModuleType subclass.  Reading the
# class attribute through `type(obj)` records nothing (it does not touch the object); assigning `obj.used = …` does.
class TrapUsedConst(_TrapMixin):
    used = False


def _used_get(self):
    _fire(self, "getattr", "used")
    return object.__getattribute__(self, "__dict__")["_attrs"].get("used", False)


def _used_set(self, value):
    _fire(self, "setattr", "used")
    object.__getattribute__(self, "__dict__")["_attrs"]["used"] = value


class TrapUsedProp(_TrapMixin):
    used = property(_used_get, _used_set)


import dataclasses as _dc


@_dc.dataclass(eq=False, repr=False)
class TrapUsedField(_TrapMixin):
    used: bool = False
    name: str = ""
    lineno: int = 0


class TrapModuleUsed(_TrapMixin, types.ModuleType):
    """a ModuleType subclass with a class-level `used`"""
    used = False


USED_KINDS = {"trap_uc": TrapUsedConst, "trap_up": TrapUsedProp, "trap_ud": TrapUsedField}


# C20-H2: an object whose `__class__` is a *property* (lazy proxies, mocks): `isinstance(obj, X)` reads it when
# `type(obj)` is not a subclass of X.  Recorded, never raising (the read itself is the event).
def _class_get(self):
    EVENTS.append(["getattr", object.__getattribute__(self, "__dict__")["_idx"], "__class__"])
    return type(self)


class TrapClassProp(_TrapMixin):
    __class__ = property(_class_get)


USED_KINDS["trap_cls"] = TrapClassProp


class _Weak(object):
    pass


def _dead_proxy():
    """a weakref.proxy whose referent is gone: every attribute read (also `__class__`) raises ReferenceError"""
    import weakref
    o = _Weak()
    p = weakref.proxy(o)
    del o
    return p


# C20-H3: namespaces that are dict subclasses.  `ns[key]` runs `__missing__` (user code; defaultdict also inserts the key).
class MissingDict(dict):
    def __missing__(self, key):
        EVENTS.append(["missing", -1, key])
        raise KeyError(key)


def _mk_ns(nsclass, items):
    if nsclass == "defaultdict":
        import collections
        d = collections.defaultdict(list)
    elif nsclass == "missing":
        d = MissingDict()
    else:
        d = {}
    for k, v in items:
        dict.__setitem__(d, k, v)
    return d


_C20_PROBE = {}


def probe_c20():
    """which of the C20 repairs the tree under test carries (by behaviour): typeCheck = fixes/C20-H2, dictGet = fixes/C20-H3"""
    import pyflyby
    key = pyflyby.__file__
    if key not in _C20_PROBE:
        from pyflyby._autoimp import symbol_needs_import
        n0 = len(EVENTS)
        x = object.__new__(TrapClassProp)
        d = object.__getattribute__(x, "__dict__")
        d["_idx"], d["_attrs"], d["_explode"] = -7, {}, False
        out = {}
        try:
            symbol_needs_import("c20probe", [{"c20probe": x}])
            out["typeCheck"] = len(EVENTS) == n0
        except Exception:
            out["typeCheck"] = False
        del EVENTS[n0:]
        md = _mk_ns("missing", [])
        try:
            symbol_needs_import("c20probe.b", [md])
            out["dictGet"] = len(EVENTS) == n0
        except Exception:
            out["dictGet"] = False
        del EVENTS[n0:]
        try:
            from pyflyby import find_missing_imports
            out["aliasClassScope"] = [str(x) for x in find_missing_imports("class C:\n    q = 1\n    type X = q\n", [{}])] == []
        except Exception:
            out["aliasClassScope"] = False
        _C20_PROBE[key] = out
    return dict(_C20_PROBE[key])


def _mk_prop_class(names):
    """a class whose listed attributes are recording properties and whose other attributes go through __getattr__"""
    ns = {}

    def mk(n):
        def get(self):
            _fire(self, "getattr", n)
            return object.__getattribute__(self, "__dict__")["_attrs"][n]
        return property(get)
    for n in names:
        ns[n] = mk(n)

    def __getattr__(self, name):
        _fire(self, "getattr", name)
        raise AttributeError(name)
    ns["__getattr__"] = __getattr__
    for k in ("__eq__", "__ne__", "__hash__", "__bool__", "__len__", "__iter__", "__contains__", "__call__", "__repr__", "__str__"):
        ns[k] = _TrapMixin.__dict__[k]
    return type("PropTrap", (object,), ns)


class _Tripwire(object):
    """sys.meta_path entry recording every import that reaches the finders"""

    def __init__(self):
        self.seen = []

    def find_spec(self, name, path=None, target=None):
        self.seen.append(name)
        return None


def build(spec):
    """spec["objs"][i] = {"kind": trap|tmod|prop|none|int, "attrs": {name: j}}  ->  list of Python objects"""
    objs = []
    registered = set(spec["registry"].values())
    for i, o in enumerate(spec["objs"]):
        k = o["kind"]
        if k == "none":
            objs.append(None)
            continue
        if k == "int":
            objs.append(1000 + i)
            continue
        if k == "deadproxy":
            objs.append(_dead_proxy())
            continue
        if k in ("tmod", "tmod_uc"):
            x = types.ModuleType.__new__(TrapModule if k == "tmod" else TrapModuleUsed)
            types.ModuleType.__init__(x, "tm%d" % i)
        elif k in USED_KINDS:
            x = object.__new__(USED_KINDS[k])
        elif k == "prop":
            x = object.__new__(_mk_prop_class(sorted(o["attrs"])))
        else:
            x = object.__new__(Trap)
        d = object.__getattribute__(x, "__dict__")
        d["_idx"] = i
        d["_attrs"] = {}
        d["_explode"] = i not in registered
        objs.append(x)
    for i, o in enumerate(spec["objs"]):
        if o["kind"] in ("none", "int", "deadproxy"):
            continue
        d = object.__getattribute__(objs[i], "__dict__")
        for n, j in o["attrs"].items():
            d["_attrs"][n] = objs[j]
    return objs


def parse_like_impl(src):
    """the two-step parse of find_missing_imports(str): -> (tree, type comments were parsed)"""
    try:
        return ast.parse(src, type_comments=True), True
    except SyntaxError:
        return ast.parse(src), False


def read_type_comments(tree):
    """the type comments the analysis visits (`_visit_typecomment`): those of def / for / parameters"""
    return [n.type_comment for n in ast.walk(tree)
            if isinstance(n, (ast.FunctionDef, ast.AsyncFunctionDef, ast.For, ast.AsyncFor, ast.arg)) and getattr(n, "type_comment", None)]


def _chains(tree, out):
    for n in ast.walk(tree):
        parts = None
        if isinstance(n, ast.Attribute):
            m, rev = n, []
            while isinstance(m, ast.Attribute):
                rev.append(m.attr)
                m = m.value
            if isinstance(m, ast.Name):
                parts = [m.id] + rev[::-1]
        elif isinstance(n, ast.Name):
            parts = [n.id]
        elif isinstance(n, ast.alias):
            parts = n.name.split(".")
        elif isinstance(n, ast.Constant) and isinstance(n.value, str) and re.fullmatch(r"[A-Za-z_]\w*(\.[A-Za-z_]\w*)*", n.value):
            parts = n.value.split(".")          # `__all__ = ["a.b"]`
        if parts:
            for k in range(1, len(parts) + 1):
                out.add(".".join(parts[:k]))


def dotted_names_of(code, typed=False, text=False):
    """all dotted chains (and their prefixes) that occur in the source text / dotted string; typed: also those inside the
    type comments the analysis reads; text: every dotted word of the text (docstrings: doctests, `{name}`)"""
    out = set()
    if text:
        for w in re.findall(r"[A-Za-z_]\w*(?:\.[A-Za-z_]\w*)*", code):
            parts = w.split(".")
            for k in range(1, len(parts) + 1):
                out.add(".".join(parts[:k]))
        return out
    try:
        tree, tc = parse_like_impl(code) if typed else (ast.parse(code), False)
    except SyntaxError:
        return out
    _chains(tree, out)
    if tc:
        for c in read_type_comments(tree):
            try:
                _chains(ast.parse(c, mode="func_type") if "->" in c else ast.parse(c), out)
            except SyntaxError:
                pass
    return out


class C20(Prop):
    id = "C20"
    driver = "C20"
    lean_modules = ["Pfb.C20.Props", "Pfb.PyCore.Json"]
    theorems = [
        "Pfb.C20.C20_symbol_effects",
        "Pfb.C20.C20_effects",
        "Pfb.C20.C20_effects_cases",
        "Pfb.C20.C20_readonly",
        "Pfb.PyCore.symbolNeedsImport_spec",
    ]
    rule = ("find_missing_imports(code, namespaces) with code = a dotted name of depth 1-5 (str or DottedIdentifier), a generated "
            "mini-Python program as source / ast / PythonBlock (gen_c05's statements plus, from gen_c20: dict and set displays, "
            "comparisons, and/or/not, f-strings, slices, */**/keyword arguments, yield, walrus, match statements with every pattern "
            "kind, `type` aliases, PEP 695 generics, async def/for/with, assert, raise-from, except*, star imports, __all__, "
            "del v[i], attribute/subscript comprehension targets, type comments), a code object / function / lambda / callable "
            "object / builtin (byte-code analysis), or scan_for_import_issues(PythonBlock) in unused-import mode with docstrings; "
            "namespaces = 1-3 dicts passed as list / single dict / tuple / ScopeStack, populated with trap objects (recording "
            "__getattribute__, __setattr__, "
            "__delattr__, properties, __eq__, __hash__, __bool__, __len__, __iter__, __call__, __repr__; ModuleType subclasses; "
            "proxies; objects whose class has an attribute named `used` — class constant, property with recording setter, "
            "dataclass field — like the analysis' own `_UseChecker`), None and ints; trap objects also in `builtins`; "
            "a registry (sys.modules entries for a private universe ta/tb/tc) that is mostly, not always, consistent with the "
            "attribute graph; objects that are nobody's registry entry raise on any touch; a recording sys.meta_path finder. "
            "K covers every case whose program desugars to the model's constructs (gen_c20 header); O-only: walrus inside "
            "comprehension/lambda, PEP 695 generics, type comments that are read, code object of a whole program, unused-import mode. "
            "non-trivial = at least one recorded event or one reported name; distinct by code+namespaces+registry")
    trusted_base = ["the trap classes of harness/c20.py record every attribute access; `__class__` is recorded by the kind `trap_cls` "
                    "(a `__class__` property; known finding H2 until fixes/C20-H2.diff is applied) and let through by the other kinds' "
                    "`__getattribute__`; plain ints/None cannot record, a dead weakref.proxy raises ReferenceError on any read",
                    "debug logging stays off (repr of namespace values under DEBUG is outside the quantifier)"]
    assumptions = ["namespaces are dicts or dict subclasses (collections.defaultdict, a subclass with a recording `__missing__`: known "
                   "finding H3 until fixes/C20-H3.diff is applied) with str keys; K skips dict-subclass cases on a tree without the repair",
                   "the theorems hold for the unchanged analysis and for the analysis carrying the proposed C05 repairs (all `Fixes`)"]
    anchors = [
        ("lib/python/pyflyby/_autoimp.py", "ScopeStack"),
        ("lib/python/pyflyby/_autoimp.py", "symbol_needs_import"),
        ("lib/python/pyflyby/_autoimp.py", "_MissingImportFinder"),
        ("lib/python/pyflyby/_autoimp.py", "find_missing_imports"),
        ("lib/python/pyflyby/_autoimp.py", "_find_missing_imports_in_ast"),
    ]
    quick_cases = 5000
    thorough_cases = 80000
    quick_deadline_s = 50
    thorough_deadline_s = 600
    families = {
        # C20-H2: the only thing that happened to the object is the `__class__` read of `isinstance(var, _UseChecker)`
        "class_read_by_isinstance": lambda case, f: (
            (f.get("what") == "user object touched by analysis" and f.get("event", [None])[0] == "getattr"
             and f["event"][2] == "__class__" and case["objs"][f["event"][1]]["kind"] == "trap_cls")
            or (f.get("what") == "analysis raised" and str(f.get("err", "")).startswith("ReferenceError")
                and any(o["kind"] == "deadproxy" for o in case["objs"]))),
        # C20-H3: dict-subclass namespace: `__missing__` ran, or (defaultdict) keys were appended and nothing else changed
        "missing_of_dict_subclass": lambda case, f: (
            (case.get("nsclass") in ("missing", "defaultdict") and f.get("what") == "namespace __missing__ called by analysis")
            or (case.get("nsclass") == "defaultdict" and f.get("what") == "caller's namespaces modified"
                and f.get("diff") == "keys-appended")),
    }

    # -- cases -----------------------------------------------------------------
    def gen_case(self, rng, i, tier):
        nobj = rng.choice([2, 3, 4, 5, 6])
        objs = []
        for k in range(nobj):
            r = rng.random()
            kind = "trap" if r < 0.4 else "tmod" if r < 0.65 else "prop" if r < 0.85 else "none" if r < 0.93 else "int"
            if kind == "trap" and r >= 0.25:
                kind = "trap_uc" if r < 0.30 else "trap_up" if r < 0.35 else "trap_ud"
            elif kind == "tmod" and r >= 0.60:
                kind = "tmod_uc"
            objs.append(dict(kind=kind, attrs={}))
        for o in objs:
            if o["kind"] in ("none", "int"):
                continue
            for _ in range(rng.choice([0, 1, 1, 2, 3])):
                o["attrs"][rng.choice(PARTS)] = rng.randrange(nobj)
        # registry: dotted names of the universe -> object index; mostly consistent with the attribute graph
        registry = {}
        for _ in range(rng.choice([0, 1, 1, 2, 2, 3])):
            root = rng.choice(ROOTS)
            j = rng.randrange(nobj)
            registry[root] = j
            name, cur = root, j
            for _ in range(rng.choice([0, 1, 2, 3])):
                part = rng.choice(PARTS)
                if rng.random() < 0.75 and objs[cur]["kind"] not in ("none", "int"):
                    nxt = rng.randrange(nobj)
                    if rng.random() < 0.8:
                        objs[cur]["attrs"][part] = nxt
                    name, cur = name + "." + part, nxt
                    registry[name] = cur
        nss = []
        for _ in range(rng.choice([1, 1, 1, 2, 3])):
            d = {}
            for _ in range(rng.choice([0, 1, 2, 2, 3])):
                r = rng.random()
                if r < 0.6:
                    key = rng.choice(ROOTS)
                elif r < 0.85:
                    key = rng.choice(VN + PARTS)
                else:
                    key = rng.choice(ROOTS) + "." + rng.choice(PARTS)
                if registry and rng.random() < 0.45:
                    nm = rng.choice(sorted(registry))
                    d[key if rng.random() < 0.3 else nm] = registry[nm]
                else:
                    d[key] = rng.randrange(nobj)
            nss.append(d)
        case = dict(objs=objs, registry=registry, ns=nss)
        # the forms in which namespaces may be passed (ScopeStack.__init__): list, one dict, tuple, a ScopeStack
        r = rng.random()
        if r < 0.12 and len(nss) == 1:
            case["nsform"] = "dict"
        elif r < 0.2:
            case["nsform"] = "tuple"
        elif r < 0.28:
            case["nsform"] = "stack"
        # trap objects in `builtins` (the first scope of every ScopeStack; IPython and users put objects there)
        if rng.random() < 0.12:
            case["builtins"] = {rng.choice(ROOTS + VN): rng.randrange(nobj)}
            if registry and rng.random() < 0.5:
                root = rng.choice(sorted(registry)).split(".")[0]       # the root of a registry chain is always registered
                case["builtins"][root] = registry[root]
        keys = sorted({k for d in nss for k in d if "." not in k}) or VN
        r = rng.random()
        if r < 0.38:
            parts = [rng.choice(ROOTS + VN)] + [rng.choice(PARTS) for _ in range(rng.choice([0, 1, 1, 2, 2, 3, 4]))]
            code = dict(mode="dotted", name=".".join(parts))
            if rng.random() < 0.15:
                code["form"] = "ident"           # a DottedIdentifier instead of a str
        elif r < 0.44:
            # a code object / function / lambda / callable object / builtin: the byte-code analysis
            names = []
            for _ in range(rng.choice([1, 2, 3, 4])):
                names.append(".".join([rng.choice(ROOTS + VN + keys)] + [rng.choice(PARTS) for _ in range(rng.choice([0, 1, 1, 2, 3]))]))
            code = dict(mode="code", names=names, form=rng.choice(["code", "func", "lambda", "callable", "callable", "builtin"]))
            if rng.random() < 0.3:
                # the code object of a whole generated program (stores, closures, loops, nested code objects): O-only
                code = dict(mode="code", form="module", names=[],
                            prog=G20.Gen20(rng, ROOTS, PARTS, VN, new=rng.choice([0.0, 0.15])).program(nstmts=rng.choice([1, 2, 3])))
        else:
            scan = r < 0.50
            g = G20.Gen20(rng, ROOTS, PARTS, VN, new=0.0 if scan else rng.choice([0.0, 0.12, 0.25, 0.35]))
            prog = g.program(nstmts=rng.choice([1, 1, 2, 3]))
            # `del NAME` / `global NAME; del NAME` of names that only the caller's namespaces bind (the property's claim
            # "namespaces are left unmodified" holds for all code, also for code outside C05's claimed domain)
            for _ in range(rng.choice([0, 0, 1, 1, 2])):
                n = rng.choice(keys + VN[:1])
                r2 = rng.random()
                if r2 < 0.45:
                    st = ["delete", [["name", n]]]
                elif r2 < 0.6:
                    st = ["delete", [["name", n], ["attr", ["name", rng.choice(keys)], rng.choice(PARTS)]]]
                elif r2 < 0.85:
                    st = ["funcDef", "f", {"args": [], "defaults": []}, [["global", [n]], ["delete", [["name", n]]]], [], None]
                else:
                    st = ["classDef", "C", [], [["delete", [["name", n]]]], []]
                prog["body"].insert(rng.randrange(len(prog["body"]) + 1), st)
            if scan:
                # tidy-imports' entry: unused-import mode, docstrings with doctests and `{name}` references
                def doc():
                    ws = [".".join([rng.choice(ROOTS + VN)] + [rng.choice(PARTS) for _ in range(rng.choice([0, 1, 2]))]) for _ in range(3)]
                    return ["expr", ["str", "text {%s} {%s}\n>>> %s(%s)\n>>> import %s\n" % (ws[0].split(".")[0], rng.choice(VN + ["class"]), ws[1], ws[2], rng.choice(ROOTS))]]
                prog["body"].insert(0, doc())
                for st in prog["body"]:
                    if st[0] in ("funcDef", "classDef") and rng.random() < 0.6:
                        st[3].insert(0, doc())
                for _ in range(rng.choice([1, 2, 3])):
                    root = rng.choice(ROOTS)
                    imp = rng.choice([["import", [[root, None]]], ["import", [[root + "." + rng.choice(PARTS), None]]],
                                      ["import", [[root, rng.choice(VN)]]], ["importFrom", root, [[rng.choice(PARTS), rng.choice(VN + [None])]]],
                                      ["importFrom", root, [["*", None]]]])
                    prog["body"].insert(rng.randrange(1, len(prog["body"]) + 1), imp)
                code = dict(mode="scan", prog=prog, docstrings=rng.random() < 0.8, unused=rng.random() < 0.85)
            else:
                r3 = rng.random()
                code = dict(mode="prog" if r3 < 0.6 else "ast" if r3 < 0.85 else "block", prog=prog)
        case["code"] = code
        # C20-H2 / C20-H3 (drawn last: the earlier choices of a case do not depend on them)
        if rng.random() < 0.30:
            for o in objs:
                if o["kind"] == "trap" and rng.random() < 0.6:
                    o["kind"] = "trap_cls"          # `__class__` is a recording property
        if rng.random() < 0.10:
            free = [k for k in range(nobj) if k not in registry.values() and objs[k]["kind"] not in ("none", "int")]
            if free:
                objs[rng.choice(free)] = dict(kind="deadproxy", attrs={})      # dead weakref.proxy: any read raises
        if rng.random() < 0.12:
            case["nsclass"] = rng.choice(["defaultdict", "missing"])           # namespaces are dict subclasses
        return case

    def exhaustive_cases(self, tier, rng):
        """every construct of gen_c20.snippets() against two fixed trap namespaces, as source / ast / PythonBlock"""
        setups = [
            # x: an exploding trap; ta -> ta.b -> ta.b.c a registry-consistent chain of recording objects
            dict(objs=[dict(kind="trap_up", attrs={"b": 3}), dict(kind="tmod", attrs={"b": 2}), dict(kind="trap", attrs={"c": 3}),
                       dict(kind="prop", attrs={"d": 0})],
                 registry={"ta": 1, "ta.b": 2, "ta.b.c": 3}, ns=[{"x": 0, "ta": 1}]),
            # x is itself a registered proxy module; ta is a module object that is NOT the registry entry; y is bound
            dict(objs=[dict(kind="prop", attrs={"b": 2}), dict(kind="tmod_uc", attrs={"b": 2}), dict(kind="trap_ud", attrs={}),
                       dict(kind="tmod", attrs={"b": 2}), dict(kind="none", attrs={})],
                 registry={"x": 0, "ta": 3, "x.b": 2}, ns=[{"x": 0, "y": 4}, {"ta": 1, "q": 2}], builtins={"w": 2}),
        ]
        out = []
        for label, body in G20.snippets():
            for k, st in enumerate(setups):
                for mode in ("prog", "ast", "block"):
                    c = json.loads(json.dumps(st))
                    c["code"] = dict(mode=mode, prog={"body": json.loads(json.dumps(body)), "calls": []})
                    c["label"] = label
                    if mode == "block":
                        c["nsform"] = ["tuple", "stack"][k]
                    out.append(c)
        # unused-import mode (tidy-imports' entry), O-only: rebinding imports in handlers / conditionals, docstrings
        scans = [
            [["expr", ["str", "doc {x} {class} {w}\n>>> ta.b.c(x.b)\n>>> import ta\n"]], ["import", [["ta", "x"]]],
             ["try", [["expr", ["name", "w"]]], [[["name", "Exception"], "x", [["expr", ["attr", ["name", "x"], "b"]]]]], [], []],
             ["expr", ["attr", ["attr", ["name", "ta"], "b"], "c"]]],
            [["import", [["ta.b", None]]], ["import", [["ta", None]]], ["if", ["name", "w"], [["importFrom", "ta", [["b", "x"]]]], []],
             ["funcDef", "f", {"args": [], "defaults": []}, [["expr", ["str", ">>> x.b\n"]], ["return", ["attr", ["name", "x"], "b"]]], [], None],
             ["importFrom", "ta", [["*", None]]], ["assign", [["attr", ["attr", ["name", "ta"], "b"], "c"]], ["name", "w"]]],
        ]
        for body in scans:
            for k, st in enumerate(setups):
                for unused in (True, False):
                    c = json.loads(json.dumps(st))
                    c["code"] = dict(mode="scan", prog={"body": json.loads(json.dumps(body)), "calls": []}, docstrings=True, unused=unused)
                    c["label"] = "scan"
                    out.append(c)
        return out

    # -- implementation --------------------------------------------------------
    def setup(self, tier, rng):
        G.install_builtins()
        from pyflyby import find_missing_imports
        find_missing_imports("zz.yy\nimport qq\ndef f(): return ww\n", [{}])     # warm-up: lazy imports of pyflyby itself

    def run_impl(self, case):
        from pyflyby import find_missing_imports
        G.install_builtins()
        objs = build(case)
        G20.ALIAS_SEES_CLASS_SCOPE = probe_c20()["aliasClassScope"]
        code = case["code"]
        mode = code["mode"]
        obs = dict(nok=[], features=[])
        located = None
        call = find_missing_imports
        if mode == "dotted":
            arg = src = code["name"]
            if code.get("form") == "ident":
                from pyflyby._idents import DottedIdentifier
                arg = DottedIdentifier(src)
        elif mode == "code":
            names = code["names"]
            src = "\n".join(names) + "\n"
            g = {}
            form = code["form"]
            if form == "module":
                src, _, ctx = G20.render(code["prog"])
                obs["nok"] = ["code-of-program"]
                obs["features"] = sorted(ctx.features)
                try:
                    arg = compile(src, "<c20prog>", "exec")
                except SyntaxError:           # e.g. `yield` in a class body: rejected by the compiler, not by the parser
                    arg = src
                    obs["src_fallback"] = True      # analysed as source text: the type comments are read
            elif form == "lambda":
                arg = eval("lambda: (%s,)" % ", ".join(names), g)
            elif form == "builtin":
                arg = len
            elif form == "callable":
                exec("class Cb(object):\n    def __call__(self):\n" + "".join("        %s\n" % n for n in names), g)
                arg = g["Cb"]()
            else:
                exec("def f():\n" + "".join("    %s\n" % n for n in names), g)
                arg = g["f"].__code__ if form == "code" else g["f"]
        else:
            src, located, ctx = G20.render(code["prog"])
            obs["nok"] = sorted(set(ctx.nok))
            obs["features"] = sorted(ctx.features)
            if mode == "prog":
                arg = src
                tree, typed = parse_like_impl(src)
                if typed and read_type_comments(tree):
                    obs["nok"].append("type-comment-read")
            elif mode == "ast":
                arg = ast.parse(src)
            else:
                from pyflyby._parse import PythonBlock
                arg = PythonBlock(src)
                tree, typed = parse_like_impl(src)
                if typed and read_type_comments(tree):
                    obs["nok"].append("type-comment-read")
                if mode == "scan":
                    from pyflyby._autoimp import scan_for_import_issues
                    obs["nok"].append("scan-mode")

                    def call(a, nss):
                        missing, unused = scan_for_import_issues(a, find_unused_imports=code.get("unused", True), parse_docstrings=code.get("docstrings", True))
                        return [m[1] for m in missing]
        obs["src"] = src
        dump0 = ast.dump(arg) if isinstance(arg, ast.AST) else None
        nss = [_mk_ns(case.get("nsclass"), [(k, objs[j]) for k, j in d.items()]) for d in case["ns"]]
        before = [list(d.items()) for d in nss]
        nsform = case.get("nsform", "list")
        if nsform == "dict":
            nsarg = nss[0]
        elif nsform == "tuple":
            nsarg = tuple(nss)
        elif nsform == "stack":
            from pyflyby._autoimp import ScopeStack
            nsarg = ScopeStack(nss)
        else:
            nsarg = nss
        saved = {}
        for name, j in case["registry"].items():
            saved[name] = sys.modules.get(name, saved)
            sys.modules[name] = objs[j]
        bsaved = {}
        for name, j in case.get("builtins", {}).items():
            bsaved[name] = builtins.__dict__.get(name, bsaved)
            builtins.__dict__[name] = objs[j]
        b0 = [(k, id(v)) for k, v in builtins.__dict__.items()]
        keys0 = set(sys.modules)
        wire = _Tripwire()
        sys.meta_path.insert(0, wire)
        del EVENTS[:]
        try:
            res = call(arg, nsarg)
            obs["result"] = sorted(set(str(x) for x in res))
        except Exception as e:
            obs["err"] = type(e).__name__ + ": " + str(e)[:200]
        finally:
            sys.meta_path.remove(wire)
            obs["events"] = [list(e) for e in EVENTS]
            obs["imports"] = list(wire.seen)
            obs["sysmodules_added"] = sorted(set(sys.modules) - keys0)
            after = [list(d.items()) for d in nss]
            obs["ns_same"] = (len(before) == len(after) and all(
                len(a) == len(b) and all(ka == kb and va is vb for (ka, va), (kb, vb) in zip(a, b))
                for a, b in zip(before, after)))
            obs["ns_diff"] = "same" if obs["ns_same"] else "keys-appended" if (len(before) == len(after) and all(
                len(a) <= len(b) and all(ka == kb and va is vb for (ka, va), (kb, vb) in zip(a, b))
                for a, b in zip(before, after))) else "other"
            obs["builtins_same"] = b0 == [(k, id(v)) for k, v in builtins.__dict__.items()]
            for name, v in bsaved.items():
                if v is bsaved:
                    builtins.__dict__.pop(name, None)
                else:
                    builtins.__dict__[name] = v
            # which recorded getattr hit the sys.modules entry of a dotted name, by identity
            regnames = {}
            for name in case["registry"]:
                regnames.setdefault(case["registry"][name], []).append(name)
            obs["regnames"] = {str(k): v for k, v in regnames.items()}
            for name in case["registry"]:
                if saved[name] is saved:
                    sys.modules.pop(name, None)
                else:
                    sys.modules[name] = saved[name]
            for m in obs["sysmodules_added"]:
                sys.modules.pop(m, None)
        obs["ast_same"] = (dump0 is None) or (ast.dump(arg) == dump0)
        obs["located"] = located
        obs["fixes"] = G.probe_fixes()
        obs["c20fix"] = probe_c20()
        return obs

    # -- oracle ----------------------------------------------------------------
    def oracle(self, case, obs):
        fails = []
        src = obs["src"]
        mode = case["code"]["mode"]
        # the dotted names the analysed text mentions; type comments are read from source text and PythonBlocks only;
        # in unused-import mode the docstrings are analysed too (doctests, `{name}`): every dotted word of the text counts
        dotted = dotted_names_of(src, typed=mode in ("prog", "block", "scan") or bool(obs.get("src_fallback")), text=mode == "scan")
        seen = set()
        for e in obs["events"]:
            ok = False
            if e[0] == "getattr":
                for p in obs["regnames"].get(str(e[1]), []):
                    if (p + "." + e[2]) in dotted:
                        ok = True
            if not ok:
                # one failure per class of event: `__missing__` of a namespace / `__class__` read / anything else
                cls = "missing" if e[0] == "missing" else "class" if e[0] == "getattr" and e[2] == "__class__" else "other"
                if cls in seen:
                    continue
                seen.add(cls)
                fails.append(dict(what="namespace __missing__ called by analysis" if cls == "missing" else "user object touched by analysis",
                                  event=e, src=src, case_ns=case["ns"], registry=case["registry"]))
        if obs["imports"] or obs["sysmodules_added"]:
            fails.append(dict(what="import attempted by analysis", imports=obs["imports"][:5], added=obs["sysmodules_added"][:5], src=src))
        if not obs["ns_same"]:
            fails.append(dict(what="caller's namespaces modified", src=src, diff=obs.get("ns_diff")))
        if not obs.get("builtins_same", True):
            fails.append(dict(what="builtins namespace modified", src=src))
        if not obs["ast_same"]:
            fails.append(dict(what="source AST modified", src=src))
        if "err" in obs and not fails:
            fails.append(dict(what="analysis raised", err=obs["err"], src=src, case_ns=case["ns"], registry=case["registry"]))
        return fails

    # -- model -------------------------------------------------------------------
    def model_requests(self, case, obs):
        """No request (the case is O-only) when the analysed program has a construct whose desugaring is not equivalent
        (obs["nok"]: walrus inside a comprehension / lambda, PEP 695 generics, `type` in a class body, a type comment the
        analysis reads, unused-import mode) — see gen_c20's header."""
        if obs.get("nok"):
            return []
        fx = obs.get("c20fix", {})
        if case.get("nsclass") and not fx.get("dictGet"):
            return []          # unrepaired C20-H3: `ns[key]` of a dict subclass is not the model's pure lookup (O judges)
        if not fx.get("typeCheck") and str(obs.get("err", "")).startswith("ReferenceError") \
                and any(o["kind"] == "deadproxy" for o in case["objs"]):
            return []          # unrepaired C20-H2: isinstance() of a dead weakref.proxy raised (O judges)

        def val(j):
            return None if case["objs"][j]["kind"] == "none" else j
        ns = [[[k, val(j)] for k, j in d.items()] for d in case["ns"]]
        mods = [[n, val(j)] for n, j in case["registry"].items()]
        attrs = []
        for i, o in enumerate(case["objs"]):
            for a, j in o["attrs"].items():
                attrs.append([i, a, val(j)])
        inj = case.get("builtins", {})
        b = [[n, 100000 + k] for k, n in enumerate(builtins.__dict__.keys()) if n not in inj] + [[n, val(j)] for n, j in inj.items()]
        mode = case["code"]["mode"]
        req = dict(op="c20", mode="dotted" if mode in ("dotted", "code") else "prog", builtins=b, ns=ns,
                   registry=dict(mods=mods, attrs=attrs), fixes=obs.get("fixes", {}))
        if mode == "dotted":
            return [dict(req, name=case["code"]["name"])]
        if mode == "code":
            # `_find_missing_imports_in_code`: symbol_needs_import for every global load of the code object, in sorted order
            if case["code"]["form"] == "builtin":
                return []
            return [dict(req, name=n) for n in sorted(set(case["code"]["names"]))]
        return [dict(req, prog=obs["located"])]

    def compare(self, case, obs, resps):
        m = dict(missing=sorted(set(x for r in resps for x in r["missing"])), effects=[e for r in resps for e in r["effects"]],
                 readonly=all(r["readonly"] for r in resps))
        if "err" in obs:
            return "implementation raised %s (model: %r)" % (obs["err"], m.get("missing"))
        if obs["result"] != m["missing"]:
            return "decision differs: impl=%r model=%r src=%r" % (obs["result"], m["missing"], obs["src"])
        want = []
        for e in m["effects"]:
            if e[0] in ("getattr", "truth", "eq", "hash") and e[1] is not None and case["objs"][e[1]]["kind"] in ("int", "deadproxy"):
                continue          # a plain int cannot record
            if e[0] == "getattr" and e[1] is not None:
                want.append(["getattr", e[1], e[3]])
            elif e[0] in ("truth", "eq", "hash") and e[1] is not None:
                want.append([{"truth": "bool"}.get(e[0], e[0]), e[1]])
            elif e[0] == "import":
                want.append(["import", e[1]])
        got = [e for e in obs["events"]] + [["import", n] for n in obs["imports"]]
        if not obs.get("c20fix", {}).get("typeCheck"):
            # unrepaired C20-H2: the `__class__` reads of isinstance() are not in the model (O lists them as the known finding)
            got = [e for e in got if not (e[0] == "getattr" and e[2:] == ["__class__"])]
        if got != want:
            return "effects differ: recorded=%r model=%r src=%r" % (got[:12], want[:12], obs["src"])
        if not m["readonly"]:
            return "model wrote to a caller namespace"
        return None

    def nontrivial_key(self, case, obs):
        if obs.get("events") or len(obs.get("result", [])) > 0:
            return obs["src"] + json.dumps(case["ns"], sort_keys=True) + json.dumps(case["registry"], sort_keys=True)
        return None

    def sample_repr(self, case, obs):
        return dict(src=obs["src"][:200], ns=case["ns"], registry=case["registry"], result=obs.get("result"), events=obs.get("events", [])[:8])

    def stats(self, case, obs, acc):
        def inc(k):
            acc[k] = acc.get(k, 0) + 1
        inc("mode_" + case["code"]["mode"])
        inc("cases_from_" + case.get("_src", "?"))
        n = len(obs.get("events", []))
        inc("getattr_events_%s" % ("0" if n == 0 else "1-3" if n <= 3 else ">3"))
        if "err" in obs:
            inc("impl_raised")
        inc("nsform_" + case.get("nsform", "list"))
        if case.get("builtins"):
            inc("builtins_traps")
        if case.get("nsclass"):
            inc("nsclass_" + case["nsclass"])
        for o in case["objs"]:
            if o["kind"] in ("trap_cls", "deadproxy"):
                inc("objkind_" + o["kind"])
        for f in obs.get("features", []):
            inc("construct_" + f)
        for r in obs.get("nok", []):
            inc("O_only_" + r)
        if obs.get("nok"):
            inc("O_only_cases")


PROP = C20()
