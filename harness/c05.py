"""C05 — Missing-name analysis agrees with Python's name resolution."""
from __future__ import annotations

import json
import sys

from vcommon import Prop
import gen_c05 as G


def heads(report):
    return {d.split(".")[0] for d in report}


# ----------------------------------------------------------------------------
# known-finding families (D9): narrow syntactic predicates on (program, failing name)
# ----------------------------------------------------------------------------
def _unsound(fl, variant="ast"):
    return fl.get("what") == "NameError name not reported" and fl.get("variant") == variant


def _stmts(case):
    return list(G.walk_stmts(G.all_stmts(case["prog"])))


def _class_level(body):
    """statements lexically at the level of a class body (not inside a nested def / class)."""
    for s in body:
        yield s
        if s[0] not in ("funcDef", "classDef"):
            for b in G.sub_bodies(s):
                yield from _class_level(b)


def _bound_in_class_level(body, n):
    for s in _class_level(body):
        es, ts = G.stmt_exprs(s)
        if any(n in G.target_names(t) for t in ts):
            return True
        if s[0] in ("funcDef", "classDef") and s[1] == n:
            return True
        if s[0] == "import" and any((a or d.split(".")[0]) == n for d, a in s[1]):
            return True
        if s[0] == "importFrom" and any((a or d) == n for d, a in s[2]):
            return True
        if s[0] == "try" and any(h[1] == n for h in s[2]):
            return True
    return False


def _comp_inner_reads(e, n):
    """`n` read inside a comprehension of `e` other than in the first iterable (that part runs in its own scope)."""
    for x in G.walk_exprs(e):
        if x[0] in ("listComp", "setComp", "genExp", "dictComp"):
            gens = x[-1]
            inner = [x[1]] + ([x[2]] if x[0] == "dictComp" else [])
            for i, g in enumerate(gens):
                inner += list(g[2]) + ([g[1]] if i > 0 else [])
            if any(n in G.names_read(y) for y in inner):
                return True
        if x[0] == "lambda" and n in G.names_read(x[2]):
            return True
    return False


def fam_a(case, fl):
    """a comprehension (or lambda body) at class-body level reads a name bound in that class body"""
    if not _unsound(fl):
        return False
    n = fl["name"]
    for s in _stmts(case):
        if s[0] == "classDef" and _bound_in_class_level(s[3], n):
            for t in _class_level(s[3]):
                es, ts = G.stmt_exprs(t)
                if any(_comp_inner_reads(e, n) for e in es + ts):
                    return True
    return False


def _except_name(case, fl):
    return _unsound(fl) and any(s[0] == "try" and any(h[1] == fl["name"] for h in s[2]) for s in _stmts(case))


def fam_b(case, fl):
    """the name of an `except … as n` clause (n not bound in a caller namespace: that is family exceptNameInCallerNs)"""
    return _except_name(case, fl) and not any(fl["name"] in d for d in fl.get("ns", []))


def fam_c(case, fl):
    """augmented assignment whose target is the plain name n"""
    return _unsound(fl) and any(s[0] == "augAssign" and s[1] == ["name", fl["name"]] for s in _stmts(case))


def _reads_in_body_level(body, n):
    for t in _class_level(body):
        es, ts = G.stmt_exprs(t)
        if any(n in G.names_read(e) for e in es) or any(n in G.names_read(x, True) for x in ts):
            return True
    return False


def fam_d(case, fl):
    """n is the name of a class statement of the program: `_remove_from_missing_imports(n)` drops the reads of n seen
    so far (own body / bases / decorators, or simply earlier in the module)"""
    return _unsound(fl) and any(s[0] == "classDef" and s[1] == fl["name"] for s in _stmts(case))


def fam_b2(case, fl):
    """the name of an `except … as n` clause that is also bound in a caller namespace: the handler's implicit `del n`
    unbinds the caller's name, which an analysis that never writes to the caller's namespaces cannot record"""
    return _except_name(case, fl) and any(fl["name"] in d for d in fl.get("ns", []))


def fam_b3(case, fl):
    """the name of an `except … as n` clause (unbound again when the handler ends) that a *function body* reads: the
    read was resolved while n was still bound (before the try statement), so the later unbinding is not seen —
    the same blind spot as `del n` after a function that reads n (documented as unsupported)"""
    import ast as _ast
    if not _except_name(case, fl) or any(fl["name"] in d for d in fl.get("ns", [])):
        return False
    try:
        tree = _ast.parse(fl["src"])
    except SyntaxError:
        return False
    n = fl["name"]
    for f in _ast.walk(tree):
        if isinstance(f, (_ast.FunctionDef, _ast.AsyncFunctionDef, _ast.Lambda)):
            body = f.body if isinstance(f.body, list) else [f.body]
            for b in body:
                if any(isinstance(x, _ast.Name) and x.id == n and isinstance(x.ctx, _ast.Load) for x in _ast.walk(b)):
                    return True
    return False


def fam_l(case, fl):
    """inside a function: n is a comprehension variable and is read by a nested comprehension / lambda inside that same
    `for` clause's iterable.  The deferred check aliases (does not clone) the enclosing comprehension scope, so the
    later store of the loop variable hides the read; at run time the iterable is evaluated before n exists"""
    if not _unsound(fl):
        return False
    n = fl["name"]
    for s in _stmts(case):
        es, ts = G.stmt_exprs(s)
        for e in es + ts:
            for x in G.walk_exprs(e):
                if x[0] in ("listComp", "setComp", "genExp", "dictComp"):
                    for g in x[-1]:
                        if n in G.target_names(g[0]) and _comp_or_lambda_reads(g[1], n):
                            return True
    return False


def _comp_or_lambda_reads(e, n):
    for x in G.walk_exprs(e):
        if x[0] in ("listComp", "setComp", "genExp", "dictComp", "lambda") and n in G.names_read(x):
            return True
    return False


def fam_imp(case, fl):
    """imprecision: a dotted name below a package that an import statement of the program loads as a side effect
    (`from pa.s2 import m1` makes `pa.s2` resolvable when `pa` was already bound)"""
    if fl.get("what") != "reported name whose lookups all succeed":
        return False
    d = fl["name"].split(".")
    for s in _stmts(case):
        mods = []
        if s[0] == "import":
            mods = [m for m, a in s[1]]
        elif s[0] == "importFrom":
            mods = [s[1]] + [s[1] + "." + m for m, a in s[2]]
        for m in mods:
            mp = m.split(".")
            for k in range(2, min(len(mp), len(d)) + 1):
                if mp[:k] == d[:k]:
                    return True
    return False


def fam_e(case, fl):
    """a binding of n exists in the program text but the run did not execute it"""
    return _unsound(fl) and bool(fl.get("unexecuted_binding"))


def fam_f(case, fl):
    """`for` / `with` whose target binds n while its header expression reads n"""
    if not _unsound(fl):
        return False
    n = fl["name"]
    for s in _stmts(case):
        if s[0] == "for" and n in G.target_names(s[1]) and n in G.names_read(s[2]):
            return True
    return False


def fam_g(case, fl):
    """annotated assignment whose target is the plain name n"""
    return _unsound(fl) and any(s[0] == "annAssign" and s[1] == ["name", fl["name"]] for s in _stmts(case))


def fam_i(case, fl):
    """a store to an attribute chain whose head is n (`n.a = …`, `for n.a in …`, `with … as n.a`, `n.a += …`)"""
    if not _unsound(fl):
        return False
    n = fl["name"]
    for s in _stmts(case):
        es, ts = G.stmt_exprs(s)
        if any(n in G.target_attr_heads(t) for t in ts):
            return True
        for e in es + ts:          # the same store as the target of a comprehension's `for`
            for x in G.walk_exprs(e):
                if x[0] in ("listComp", "setComp", "genExp", "dictComp") and any(n in G.target_attr_heads(g[0]) for g in x[-1]):
                    return True
    return False


def _fn_params(s):
    a = s[2]
    return {p[0] for p in a.get("args", []) + a.get("kwonly", [])} | {x for x in (a.get("vararg"), a.get("kwarg")) if x}


def fam_j(case, fl):
    """a parameter/return annotation of a def reads a name that is a parameter of that def"""
    if not _unsound(fl):
        return False
    n = fl["name"]
    for s in _stmts(case):
        if s[0] == "funcDef" and n in _fn_params(s):
            anns = [p[1] for p in s[2].get("args", []) + s[2].get("kwonly", []) if p[1] is not None]
            if s[5] is not None:
                anns.append(s[5])
            if any(n in G.names_read(e) for e in anns):
                return True
    return False


def _attr_stored_prefix(case, dotted):
    parts = dotted.split(".")
    pre = {".".join(parts[:k]) for k in range(2, len(parts) + 1)}
    for s in _stmts(case):
        es, ts = G.stmt_exprs(s)
        for t in ts:
            for x in ([t] if t[0] != "tuple" else t[1]):
                if x[0] == "attr":
                    try:
                        if G.r_expr(x) in pre:
                            return True
                    except Exception:
                        pass
    return False


def _code(fl, what):
    return fl.get("variant") == "code" and fl.get("what") == what


def _code_load_and_store(src, name):
    """some code object of the compiled program both loads `name` as a global (LOAD_NAME / LOAD_GLOBAL) and stores it
    (STORE_NAME / STORE_GLOBAL) — what `_find_loads_without_stores_in_code` matches against each other"""
    import dis
    try:
        top = compile(src, "<c05>", "exec", dont_inherit=True)
    except SyntaxError:
        return False
    for co in G._all_code(top):
        ops = {(i.opname, i.argval) for i in dis.get_instructions(co)}
        if ({("LOAD_NAME", name), ("LOAD_GLOBAL", name)} & ops) and ({("STORE_NAME", name), ("STORE_GLOBAL", name)} & ops):
            return True
    return False


def fam_code_bound(case, fl):
    """bytecode variant, unsound: the SAME code object that loads the name also stores it somewhere (the variant only
    looks for a STORE of the same name in the same code object: a store in a branch not taken, in a loop that does not
    run, or after the load once there is a backward jump hides the load).  A store in a different code object (a class
    body, another function) does not belong here."""
    return _code(fl, "NameError name not reported") and _code_load_and_store(fl["src"], fl["name"])


def fam_code_b2(case, fl):
    """bytecode variant of exceptNameInCallerNs: the name of an `except … as n` clause that a caller namespace binds — the
    handler's implicit `del n` unbinds it, the analysis sees it in the namespaces given"""
    return _code(fl, "NameError name not reported") and any(fl["name"] in d for d in fl.get("ns", [])) and \
        any(s[0] == "try" and any(h[1] == fl["name"] for h in s[2]) for s in _stmts(case))


def fam_code_attr(case, fl):
    """bytecode variant, unsound: `n.a = v` (LOAD n; STORE_ATTR a) is recorded as a store of `n.a`, never as a load of n"""
    return _code(fl, "NameError name not reported") and fam_i(case, dict(fl, variant="ast"))


def fam_code_imprecise(case, fl):
    """bytecode variant, imprecise: `__annotations__`, or a (dotted) name whose head is bound by the program itself
    (loads in a code object are only matched against stores of the identical dotted name in the same code object)"""
    return _code(fl, "reported name whose lookups all succeed") and (
        fl["name"] == "__annotations__" or bool(G.binding_sites(fl["src"], fl["name"].split(".")[0])[0])
        or _attr_stored_prefix(case, fl["name"]))


def _funcs_with_classes(body, enclosing=None):
    """(function statement, class statement nested in it — through compound statements and other classes, not through
    another function) pairs"""
    for st in body:
        if st[0] == "funcDef":
            yield from _funcs_with_classes(st[3], st)
        else:
            if st[0] == "classDef" and enclosing is not None:
                yield enclosing, st
            for b in G.sub_bodies(st):
                yield from _funcs_with_classes(b, enclosing)


def _function_binds(fn, n):
    if n in _fn_params(fn):
        return True
    return _bound_in_class_level(fn[3], n)          # (same walk: statements of the body, not of nested defs / classes)


def fam_m(case, fl):
    """a class body inside a function reads a name n that the class body also binds, and the enclosing function binds n
    too (parameter or local): CPython compiles the read as LOAD_NAME (class namespace, then globals — the function's
    scope is skipped), the analysis finds n in the function's scope"""
    if not _unsound(fl):
        return False
    n = fl["name"]
    for fn, cl in _funcs_with_classes(G.all_stmts(case["prog"])):
        if _function_binds(fn, n) and _bound_in_class_level(cl[3], n) and \
                (_reads_in_body_level(cl[3], n) or any(t[0] == "augAssign" and t[1] == ["name", n] for t in _class_level(cl[3]))):
            return True
    return False


def _all_targets(case):
    """every store target of the program: statement targets, `with`/`for` targets, comprehension targets (tuples flattened)"""
    def flat(t):
        if t is None:
            return
        if t[0] in ("tuple", "list"):
            for x in t[1]:
                yield from flat(x)
        else:
            yield t
    for s in _stmts(case):
        es, ts = G.stmt_exprs(s)
        for t in ts:
            yield from flat(t)
        for e in es + ts:
            for x in G.walk_exprs(e):
                if x[0] in ("listComp", "setComp", "genExp", "dictComp"):
                    for g in x[-1]:
                        yield from flat(g[0])


def fam_alias(case, fl):
    """imprecision: the program stores an attribute through a name that a caller namespace binds to a `sys.modules` entry
    (`c.s1 = v` with c = the module pa): at run time `pa.s1…` resolves, the analysis looked at the module before the run"""
    if fl.get("what") != "reported name whose lookups all succeed":
        return False
    mods = {n: v[1] for d in fl.get("ns", []) for n, v in d.items() if v[0] == "mod"}
    for t in _all_targets(case):
        if t[0] == "attr":
            try:
                parts = G.r_expr(t).split(".")
            except Exception:
                continue
            if parts[0] in mods and all(p.isidentifier() for p in parts):
                dotted = ".".join([mods[parts[0]]] + parts[1:])
                if fl["name"] == dotted or fl["name"].startswith(dotted + "."):
                    return True
    return False


def fam_b5(case, fl):
    """the name of an `except … as n` clause inside a `for` loop, read in that loop: the handler unbinds n, the next
    iteration reads it (the analysis visits the loop body once, top to bottom)"""
    if not _except_name(case, fl):
        return False
    n = fl["name"]
    for s in _stmts(case):
        if s[0] == "for":
            inner = list(G.walk_stmts(s[3]))
            if any(t[0] == "try" and any(h[1] == n for h in t[2]) for t in inner):
                for t in inner:
                    es, ts = G.stmt_exprs(t)
                    if any(n in G.names_read(e) for e in es) or any(n in G.names_read(x, True) for x in ts) \
                            or (t[0] == "augAssign" and t[1] == ["name", n]):
                        return True
    return False


def _has_star(case, fl):
    import ast as _ast
    try:
        tree = _ast.parse(fl["src"])
    except (SyntaxError, KeyError):
        return None
    stars = [n.lineno for n in _ast.walk(tree) if isinstance(n, _ast.ImportFrom) and any(a.name == "*" for a in n.names)]
    return (tree, min(stars)) if stars else None


def fam_star(case, fl):
    """the program holds `from m import *` and the name is read after it (or inside a function / lambda body, which is
    checked when the module is complete): after a star import nothing is reported (`has_star_import`), by design —
    the analysis cannot know what the star import binds"""
    import ast as _ast
    if not _unsound(fl):
        return False
    hs = _has_star(case, fl)
    if not hs:
        return False
    tree, line = hs
    n = fl["name"]
    aug = {id(a.target) for a in _ast.walk(tree) if isinstance(a, _ast.AugAssign)}      # `n += v` reads n
    for f in _ast.walk(tree):
        if isinstance(f, _ast.Name) and f.id == n and (not isinstance(f.ctx, _ast.Store) or id(f) in aug) and f.lineno > line:
            return True
        if isinstance(f, (_ast.FunctionDef, _ast.AsyncFunctionDef, _ast.Lambda)):
            body = f.body if isinstance(f.body, list) else [f.body]
            if any(isinstance(x, _ast.Name) and x.id == n for b in body for x in _ast.walk(b)):
                return True
    return False


def fam_code_star(case, fl):
    """bytecode variant, imprecise: a name that a star import of the program binds at run time (a member or sub-package
    of the universe module) — the code object has no STORE for it"""
    import re
    return _code(fl, "reported name whose lookups all succeed") and bool(_has_star(case, fl)) and \
        bool(re.fullmatch(r"m\d|d\d|s\d+", fl["name"].split(".")[0]))


FAMILIES = dict(aliasedModuleAttrStore=fam_alias, exceptNameLoopCarried=fam_b5, classInFunctionSkipsFunctionScope=fam_m, starImport=fam_star, codeStarImport=fam_code_star, classCompRead=fam_a, exceptNameAfter=fam_b, augUnbound=fam_c, classNameRemoved=fam_d,
                unexecutedBinding=fam_e, targetInHeader=fam_f, annAssignTarget=fam_g, attrStoreUnbound=fam_i,
                paramInAnnotation=fam_j, compVarInOwnIterable=fam_l, exceptNameInCallerNs=fam_b2, exceptNameReadInFunction=fam_b3, importSideEffect=fam_imp,
                codeStoreExists=fam_code_bound, codeExceptNameInCallerNs=fam_code_b2, codeAttrStore=fam_code_attr, codeImprecise=fam_code_imprecise)


class C05(Prop):
    id = "C05"
    driver = "C05"
    lean_modules = ["Pfb.C05.Props", "Pfb.PyCore.Json", "Pfb.PyCore.Unused", "Pfb.C05.PropsG", "Pfb.C05.PropsH", "Pfb.C05.PropsI", "Pfb.C05.PropsJ"]
    theorems = [
        "Pfb.C05.C05_sound_fragB",
        "Pfb.C05.C05_precise_fragB",
        "Pfb.C05.C05_sound_fragC",
        "Pfb.C05.C05_precise_fragC",
        "Pfb.C05.fragB_C",
        "Pfb.C05.C05_sound_fragE",
        "Pfb.C05.C05_precise_fragE",
        "Pfb.C05.witness_del_unbound",
        "Pfb.C05.witness_del_caller_ns",
        "Pfb.C05.witness_del_dotted",
        "Pfb.C05.witness_del_after_def",
        "Pfb.C05.C05_sound_fragA",
        "Pfb.C05.C05_precise_fragA",
        "Pfb.C05.C02_read_import_not_unused",
        "Pfb.C05.C02_read_import_not_unused_fragC",
        "Pfb.C05.witness_dotted_rebind",
        "Pfb.C05.witness_import_rebinds_def",
        "Pfb.PyCore.symbolNeedsImport_spec",
        "Pfb.PyCore.walkAttrs_none_iff",
        "Pfb.C05.agree_mk",
        "Pfb.C05.witness_a", "Pfb.C05.witness_b", "Pfb.C05.witness_c", "Pfb.C05.witness_d", "Pfb.C05.witness_d2",
        "Pfb.C05.witness_e", "Pfb.C05.witness_f", "Pfb.C05.witness_g", "Pfb.C05.witness_g2", "Pfb.C05.witness_h",
        "Pfb.C05.witness_i", "Pfb.C05.witness_j", "Pfb.C05.witness_l",
        "Pfb.C05.C05_sound_fragG", "Pfb.C05.C05_precise_fragG", "Pfb.C05.fragB_sub_fragG",
        "Pfb.C05.witness_comp_var_no_leak", "Pfb.C05.witness_comp_empty_iter", "Pfb.C05.witness_comp_false_cond",
        "Pfb.C05.witness_comp_iter_outer_scope", "Pfb.C05.witness_lambda_param_local", "Pfb.C05.witness_lambda_body_deferred",
        "Pfb.C05.C05_sound_fragH", "Pfb.C05.C05_precise_fragH", "Pfb.C05.fragC_sub_fragH", "Pfb.C05.plainB_plainH_fragC",
        "Pfb.C05.witness_default_not_param", "Pfb.C05.witness_default_evaluated_at_def",
        "Pfb.C05.witness_lambda_param_local_H", "Pfb.C05.witness_lambda_late_binding_H",
        "Pfb.C05.C05_sound_fragI", "Pfb.C05.C05_precise_fragI", "Pfb.C05.fragB_sub_fragI",
        "Pfb.C05.witness_class_local", "Pfb.C05.witness_class_lookup", "Pfb.C05.witness_self_body",
        "Pfb.C05.witness_self_before", "Pfb.C05.witness_method", "Pfb.C05.witness_method_inline",
        "Pfb.C05.C05_sound_fragJ", "Pfb.C05.C05_precise_fragJ", "Pfb.C05.C05_method_reads_fragJ", "Pfb.C05.fragI_sub_fragJ",
        "Pfb.C05.witness_method_J", "Pfb.C05.witness_method_late_global", "Pfb.C05.witness_dunder_class",
    ]
    anchors = [
        ("lib/python/pyflyby/_autoimp.py", "ScopeStack"),
        ("lib/python/pyflyby/_autoimp.py", "symbol_needs_import"),
        ("lib/python/pyflyby/_autoimp.py", "_MissingImportFinder"),
        ("lib/python/pyflyby/_autoimp.py", "_find_missing_imports_in_ast"),
        ("lib/python/pyflyby/_autoimp.py", "_find_missing_imports_in_code"),
        ("lib/python/pyflyby/_autoimp.py", "_find_loads_without_stores_in_code"),
        ("lib/python/pyflyby/_autoimp.py", "find_missing_imports"),
        ("lib/python/pyflyby/_idents.py", "DottedIdentifier"),
    ]
    quick_cases = 2000
    thorough_cases = 20000
    quick_deadline_s = 55
    thorough_deadline_s = 600
    rule = ("mini-Python programs from harness/gen_c05.py (assign/augassign/annassign/import/def with defaults, annotations, "
            "decorators/lambda/class/4 comprehension kinds/for/while/if/with/try/raise/return, attribute chains, calls; nesting "
            "depth <= 3; every function and method called after the last module-level statement) x initial namespaces (empty, "
            "names present, registry modules with/without the attribute, non-registry module objects) x loaded part of a synthetic "
            "import universe; each case is executed on CPython by define-and-rerun (one oracle evaluation per run) and analysed by "
            "find_missing_imports on source and on the compiled code object; plus the D9 corpus and an exhaustive small scope of "
            "<= 3 statements over 16 statement forms x 2 names; half of the generated programs also use dict displays, async def / "
            "async for / async with / await, `__all__` in its forms, star imports and docstrings with doctest examples and {name} "
            "references (rewritten to model constructs for K, see gen_c05.desugar); every case is also analysed through the other "
            "entry forms of find_missing_imports (ast node, PythonBlock, function, callable object, namespaces as dict / ScopeStack, "
            "dotted-name string / DottedIdentifier), which must agree with the str / code form; raw source snippets with type comments "
            "(judged) and match / walrus / type alias / PEP 695 (explored: crash + names not bound by those constructs) run O-only; "
            "non-trivial = program of >= 2 lines, distinct by source+namespaces")
    trusted_base = ["CPython 3.12 executes the rendered program: NameError/AttributeError events, executed reads and stores are "
                    "taken from sys.settrace opcode events (the oracle never consults the Lean models)",
                    "Pfb.PyCore.Exec is a model of CPython validated run-by-run by K(b), not derived from CPython",
                    "the renderer mini-AST -> source and the universal dummy `_K` (harness/gen_c05.py)"]
    assumptions = ["claimed domain: no function/lambda runs before the last module-level statement (checked per run, cases that "
                   "violate it are not judged); global/nonlocal/del are generated at a low rate as unclaimed extension and not judged",
                   "soundness/precision theorems are proved for fragment A only (straight-line module-level code over names, "
                   "constants, +, tuples, lists, subscripts, conditional expressions, single-name assignments); outside it the "
                   "claim rests on K(a) (findMissing = find_missing_imports), K(b) (Exec = CPython) and the oracle",
                   "the unchanged code is unsound on the D9 families listed in known_findings/C05.json (each with a decide-proved "
                   "counterexample in Pfb/C05/Props.lean)",
                   "K(b) is not run for programs with a star import (the run-time model has none; K(a) is), and raw source snippets "
                   "(type comments, match, walrus, type alias, PEP 695) have no model at all: O only",
                   "K(b) skips runs in which CPython or the model raises an exception type the model does not track exactly "
                   "(TypeError etc.) and tolerates one CPython 3.12 quirk (PEP 709 sibling-comprehension fast locals)"]

    # excluded sub-cases of the round-3 theorems, replayed on the real code at every run (printed, not judged):
    # (theorem, program, caller namespaces, run index, NameError'd name)
    ROUND3_WITNESSES = [
        ("witness_del_unbound", [["delete", [["name", "y"]]]], [], [{}], 0, "y"),
        ("witness_del_caller_ns", [["assign", [["name", "x"]], ["const"]], ["delete", [["name", "x"]]], ["expr", ["name", "x"]]],
         [], [{"x": ["obj"]}], 0, "x"),
        ("witness_del_dotted", [["import", [["pa.s1", None]]], ["delete", [["name", "pa"]]],
                                ["expr", ["attr", ["attr", ["name", "pa"], "s1"], "m1"]]], [], [{}], 0, "pa"),
        ("witness_del_after_def", [["assign", [["name", "x"]], ["const"]],
                                   ["funcDef", "f", {"args": [], "defaults": []}, [["return", ["name", "x"]]], [], None],
                                   ["delete", [["name", "x"]]]],
         [["expr", ["call", ["name", "f"], []]]], [{}], 0, "x"),
    ]

    def replay_round3_witnesses(self):
        """-> [(theorem, CPython NameErrors, find_missing_imports report, verdict)] on the code under test"""
        out = []
        for wid, body, calls, nss, run, name in self.ROUND3_WITNESSES:
            case = dict(prog=dict(body=body, calls=calls), ns=nss, loaded=[], ext="del")
            try:
                obs = self.run_impl(case)
                r = obs["runs"][run]
                rep = r["report"]
                covered = isinstance(rep, list) and any(x == name or x.startswith(name + ".") for x in rep)
                verdict = ("falsity reproduced" if name in r["ne"] and not covered
                           else "repaired in this tree" if name in r["ne"] else "not raised")
                out.append((wid, r["ne"], rep, verdict))
            except Exception as e:
                out.append((wid, None, None, "replay failed: %s" % type(e).__name__))
        return out

    def setup(self, tier, rng):
        G.install_builtins()
        for what in G.probe_unmodelled():
            print("NOTE property=C05: unused-import correspondence (op `unused`) SKIPPED: the code under test has a mechanism "
                  "the model lacks: %s" % what)
        for wid, ne, rep, verdict in self.replay_round3_witnesses():
            print("WITNESS-REPLAY property=C05 %s: CPython NameError %r, find_missing_imports %r -> %s" % (wid, ne, rep, verdict))

    def teardown(self):
        G.universe_remove()

    # -- cases -----------------------------------------------------------------
    def gen_case(self, rng, i, tier):
        for _ in range(6):
            g = G.Gen(rng, ext=(rng.random() < 0.05), more=(rng.random() < 0.5))
            r = rng.random()
            prog = g.program(nstmts=rng.choice([1, 1, 2]) if r < 0.3 else None)
            try:
                compile(G.render(prog)[0], "<gen>", "exec", dont_inherit=True)
                break
            except SyntaxError:        # e.g. `global y` after a use of y: not a program
                continue
        nss, loaded = G.gen_nsspec(rng)
        return dict(prog=prog, ns=nss, loaded=loaded, ext=("ext" in g.features))

    FORMS = None

    @classmethod
    def forms(cls):
        if cls.FORMS is None:
            N = lambda s: ["name", s]
            K = ["const"]
            out = []
            for a in ("x", "y"):
                for b in ("x", "y"):
                    out += [
                        ["expr", N(a)],
                        ["assign", [N(a)], N(b)],
                        ["assign", [N(a)], K],
                        ["augAssign", N(a), N(b)],
                        ["import", [["pa", a]]],
                        ["importFrom", "pa", [["m1", a]]],
                        ["funcDef", "f", {"args": [], "defaults": []}, [["return", N(a)]], [], None],
                        ["funcDef", "g", {"args": [[a, None]], "defaults": [N(b)]}, [["assign", [N(b)], N(a)], ["return", N(b)]], [], None],
                        ["classDef", "C", [], [["assign", [N(a)], N(b)], ["funcDef", "f", {"args": [], "defaults": []}, [["return", N(a)]], [], None]], []],
                        ["for", N(a), ["list", [N(b)]], [["pass"]], []],
                        ["if", ["bool", False], [["assign", [N(a)], K]], [["expr", N(b)]]],
                        ["try", [["expr", N(b)], ["raise", N("Exception")]], [[N("Exception"), a, [["pass"]]]], [], []],
                        ["assign", [N(a)], ["listComp", N(b), [[N(b), ["list", [N(a)]], []]]]],
                        ["with", [[N(b), N(a)]], [["pass"]]],
                        ["assign", [["attr", N(a), "u"]], N(b)],
                        ["annAssign", N(a), N(b), N(b)],
                    ]
            # drop exact duplicates
            seen, uniq = set(), []
            for f in out:
                k = json.dumps(f)
                if k not in seen:
                    seen.add(k)
                    uniq.append(f)
            cls.FORMS = uniq
        return cls.FORMS

    @staticmethod
    def dynamic_attr_cases():
        """dotted reads through a registry module of the initial namespace whose attribute is served dynamically
        (module-level `__getattr__`, PEP 562: `getattr` finds it, `vars(module)` does not), at module level, inside a
        function called at the end, below a loaded sub-package, and next to a plain member"""
        N = lambda s: ["name", s]
        A = lambda e, a: ["attr", e, a]
        pa = N("pa")
        progs = [
            ([["expr", A(pa, "d1")]], []),
            ([["assign", [N("x")], A(A(pa, "d2"), "u")]], []),
            ([["expr", ["call", A(pa, "d1"), [A(pa, "m1")]]]], []),
            ([["expr", A(A(pa, "s1"), "d1")], ["expr", A(A(pa, "s1"), "m2")]], []),
            ([["funcDef", "f", {"args": [], "defaults": []}, [["return", ["tuple", [A(pa, "d2"), A(A(pa, "s1"), "d2")]]]], [], None]],
             [["expr", ["call", N("f"), []]]]),
            ([["importFrom", "pa", [["d1", "x"]]], ["expr", ["binop", N("x"), A(pa, "d1")]]], []),
        ]
        for body, calls in progs:
            yield dict(prog=dict(body=body, calls=calls), ns=[{"pa": ["mod", "pa"]}], loaded=["pa", "pa.s1"], ext=False)

    @staticmethod
    def scoped_attr_cases():
        """attribute access / method call written directly on an expression with a scope of its own (list / set / dict
        comprehension, generator expression, lambda): the loop variables and parameters are bound inside and only inside
        that expression.  Alone (every lookup of the variable succeeds: nothing about it may be reported), followed by a
        module-level read of the variable (NameError: must be reported), and followed by a function that reads it."""
        N = lambda s: ["name", s]
        K = ["const"]
        def bases(v):
            gens = [[N(v), ["list", [K]], []]]
            gens2 = [[N("b"), ["list", [["list", [K]]]], []], [N(v), N("b"), []]]
            return [
                ["listComp", N(v), gens], ["listComp", N(v), gens2], ["genExp", N(v), gens], ["setComp", N(v), gens],
                ["dictComp", N(v), N(v), gens], ["dictComp", K, N(v), gens2],
                ["lambda", {"args": [[v, None]], "defaults": []}, N(v)],
                ["lambda", {"args": [], "defaults": [], "vararg": v}, N(v)],
            ]
        for v in ("x",):
            for base in bases(v):
                uses = [
                    ["expr", ["attr", base, "u"]],
                    ["expr", ["call", ["attr", base, "u"], [K]]],
                    ["assign", [N("y")], ["attr", ["attr", base, "u"], "v"]],
                    ["expr", ["subscript", ["attr", base, "u"], K]],
                ]
                for use in uses:
                    guarded = ["try", [use], [[N("Exception"), None, [["pass"]]]], [], []]
                    f = ["funcDef", "f", {"args": [], "defaults": []}, [["return", N(v)]], [], None]
                    for body, calls in (
                        ([use], []),
                        ([guarded], []),
                        ([guarded, ["expr", N(v)]], []),
                        ([guarded, f], [["expr", ["call", N("f"), []]]]),
                        ([["import", [["pa", v]]], guarded, ["expr", N(v)]], []),
                    ):
                        yield dict(prog=dict(body=body, calls=calls), ns=[{}], loaded=[], ext=False)

    @staticmethod
    def raw_cases(rng, tier):
        """raw source snippets (gen_c05.RAW_TEMPLATES): every template once per run with random holes (twice in thorough)"""
        out = []
        for _ in range(3 if tier == "thorough" else 1):
            for kind, src, marker in G.raw_snippets(rng, per_kind=None):
                r = rng.random()
                ns = [{}] if r < 0.6 else [{rng.choice(G.VNAMES): ["obj"]}] if r < 0.8 else [{"pa": ["mod", "pa"]}]
                out.append(dict(prog=dict(body=[], calls=[]), raw=src, marker=marker, kind=kind, ns=ns,
                                loaded=["pa", "pa.s1"] if r >= 0.8 or rng.random() < 0.3 else [],
                                ext=(kind in G.RAW_EXT_KINDS)))
        # large inputs ("for any code"): a long if/elif chain and a long operator chain, the unbound name at the far
        # end.  (CPython compiles these; sizes stay below the depth at which the clean analysis itself hits the
        # recursion limit: ~330 branches / ~490 terms with the default limit, see C10 D61 for the same limit there.)
        n1, n2 = rng.choice([200, 260, 280]), rng.choice([220, 300, 340])
        v = rng.choice(G.VNAMES)
        chain = "if False:\n    pass\n" + "".join("elif False:\n    pass\n" for _ in range(n1)) + "else:\n    %s\n" % v
        out.append(dict(prog=dict(body=[], calls=[]), raw=chain, marker=chain.count("\n") + 1, kind="large_elif", ns=[{}], loaded=[], ext=False))
        summ = "w9 = " + " + ".join(["_K"] * n2) + " + %s\n" % v
        out.append(dict(prog=dict(body=[], calls=[]), raw=summ, marker=2, kind="large_sum", ns=[{}], loaded=[], ext=False))
        out.append(dict(prog=dict(body=[], calls=[]), raw="w9 = %s + " % v + " + ".join(["_K"] * n2) + "\n", marker=2, kind="large_sum",
                        ns=[{}], loaded=[], ext=False))
        return out

    @staticmethod
    def ident_cases():
        """one-line programs that are a single (dotted) name: also analysed as a bare identifier string / DottedIdentifier"""
        N = lambda s: ["name", s]
        A = lambda e, a: ["attr", e, a]
        exprs = [N("x"), N("pa"), N("len"), A(N("pa"), "m1"), A(N("pa"), "s1"), A(A(N("pa"), "s1"), "m2"), A(N("pa"), "zz"),
                 A(A(N("pa"), "s2"), "m1"), A(N("x"), "u"), A(A(N("pb"), "s1"), "d1"), A(A(A(N("pa"), "s1"), "s2"), "m1")]
        nss = [([{}], []), ([{}], ["pa", "pa.s1"]), ([{"pa": ["mod", "pa"]}], ["pa", "pa.s1"]), ([{"x": ["obj"]}, {"pa": ["fakemod", "pa"]}], ["pa"]),
               ([{"pa": ["mod", "pa"]}, {}], ["pa", "pa.s1", "pa.s1.s2"])]
        for e in exprs:
            for ns, loaded in nss:
                yield dict(prog=dict(body=[["expr", e]], calls=[]), ns=ns, loaded=loaded, ext=False)

    @staticmethod
    def more_cases():
        """fixed programs for the `more` constructs, so that each is met in every run whatever the random draw"""
        N = lambda s: ["name", s]
        K = ["const"]
        F0 = {"args": [], "defaults": []}
        call = lambda f: ["expr", ["call", N(f), []]]
        run = lambda f: ["expr", ["run", ["call", N(f), []]]]
        progs = [
            ([["assign", [N("a")], ["dict", [[N("x"), N("y")], [None, N("b")]]]]], []),
            ([["funcDef", "f", F0, [["return", ["dict", [[N("x"), N("y")], [None, N("b")]]]]], [], None], ["assign", [N("y")], K]], [call("f")]),
            ([["classDef", "C", [], [["assign", [N("x")], K], ["assign", [N("a")], ["dict", [[N("x"), ["lambda", F0, N("x")]]]]]], []]], []),
            ([["funcDef", "af", F0, [["for", N("x"), N("y"), [["expr", N("x")]], [["expr", N("b")]], True], ["return", N("x")]], [], None, True]], [run("af")]),
            ([["funcDef", "af", F0, [["for", N("c"), ["list", [N("c")]], [["pass"]], [], True]], [], None, True]], [run("af")]),
            ([["funcDef", "af", F0, [["with", [[N("y"), N("x")]], [["expr", N("x")]], True], ["assign", [N("a")], ["await", N("b")]]], [], None, True],
              ["assign", [N("b")], K]], [run("af")]),
            ([["funcDef", "af", {"args": [["p", N("x")]], "defaults": [N("y")]}, [["return", N("p")]], [N("a")], N("b"), True]], [run("af")]),
            ([["classDef", "C", [], [["funcDef", "af", F0, [["return", N("C")]], [], None, True]], []]],
             [["expr", ["run", ["call", ["attr", N("C"), "af"], []]]]]),
            # annotations are evaluated when the `def` statement runs: a module-level name bound further down is not there yet
            ([["classDef", "C", [], [["funcDef", "f", {"args": [["p", None]], "defaults": []}, [["return", N("p")]], [], N("x")]], []],
              ["assign", [N("x")], K]], []),
            ([["classDef", "C", [], [["funcDef", "g", {"args": [["p", N("y")]], "defaults": []}, [["return", N("p")]], [], None]], []],
              ["import", [["pa", "y"]]]], []),
            ([["funcDef", "g", {"args": [["p", N("a")]], "defaults": []}, [["return", N("p")]], [], ["attr", N("b"), "u"]],
              ["assign", [N("a")], K], ["funcDef", "b", F0, [["pass"]], [], None]], []),
            ([["classDef", "C", [], [["classDef", "D", [], [["funcDef", "f", F0, [["pass"]], [N("a")], N("y")]], []]], []],
              ["assign", [N("y"), N("a")], K]], []),
            # a name stored in one code object (class body, another function) and read as a global in a sibling one
            ([["classDef", "C", [], [["funcDef", "f", F0, [["pass"]], [], None], ["assign", [N("x")], K]], []],
              ["funcDef", "g", F0, [["return", ["tuple", [N("f"), N("x")]]]], [], None]], [call("g")]),
            ([["funcDef", "f", F0, [["assign", [N("y")], K], ["import", [["pa", "b"]]]], [], None],
              ["funcDef", "g", F0, [["return", ["tuple", [N("y"), N("b")]]]], [], None]], [call("f"), call("g")]),
            ([["classDef", "C", [], [["import", [["pa", None]]], ["for", N("a"), ["list", [K]], [["pass"]], []]], []],
              ["expr", ["lambda", F0, ["tuple", [N("pa"), N("a")]]]], ["funcDef", "g", F0, [["return", ["listComp", N("a"), [[N("c"), ["list", [K]], []]]]]], [], None]],
             [call("g")]),
            ([["importFrom", "pa", [["*", None]]], ["expr", ["tuple", [N("m1"), N("x")]]]], []),
            ([["expr", N("x")], ["importFrom", "pa", [["*", None]]], ["expr", N("m1")]], []),
            ([["funcDef", "f", F0, [["return", ["tuple", [N("m2"), N("y")]]]], [], None], ["importFrom", "pa.s1", [["*", None]]]], [call("f")]),
            ([["assign", [N("__all__")], ["list", [["str", "x"], ["str", "f"]]]], ["funcDef", "f", F0, [["pass"]], [], None]], [call("f")]),
            ([["assign", [N("__all__")], ["tuple", [["str", "x"]]]], ["assign", [N("x")], K]], []),
            ([["assign", [N("__all__")], ["list", [["str", "x"], N("y")]]]], []),
            ([["assign", [N("__all__")], N("y")]], []),
            ([["funcDef", "f", F0, [["assign", [N("__all__")], ["list", [["str", "x"]]]]], [], None]], [call("f")]),
            ([["classDef", "C", [], [["assign", [N("__all__")], ["list", [["str", "x"]]]]], []]], []),
            ([["expr", ["str", "Doc {x}.\n\n>>> pa.m1(y)\n_K\n"]], ["import", [["pa", None]]], ["importFrom", "pb", [["m1", "x"]]],
              ["importFrom", "pb", [["m2", "y"]]], ["import", [["pb", "b"]]]], []),
            ([["import", [["pa", "x"]]], ["funcDef", "f", F0, [["expr", ["str", ">>> x.m1\n>>> import pb\n>>> pb.zz + y\n"]], ["pass"]], [], None],
              ["importFrom", "pb", [["m1", "y"]]]], [call("f")]),
        ]
        for body, calls in progs:
            for ns, loaded in (([{}], []), ([{"pa": ["mod", "pa"]}], ["pa", "pa.s1"]), ([{"x": ["obj"], "y": ["obj"]}], ["pa"])):
                yield dict(prog=dict(body=body, calls=calls), ns=ns, loaded=loaded, ext=False)

    def exhaustive_cases(self, tier, rng):
        import itertools
        F = self.forms()
        g = G.Gen(rng)
        combos = [(i,) for i in range(len(F))] + list(itertools.product(range(len(F)), repeat=2))
        if tier == "thorough":
            combos += [tuple(rng.randrange(len(F)) for _ in range(3)) for _ in range(6000)]
        else:
            combos = [(i,) for i in range(len(F))] + rng.sample(combos[len(F):], 260) + \
                     [tuple(rng.randrange(len(F)) for _ in range(3)) for _ in range(120)]
        out = list(self.dynamic_attr_cases()) + list(self.scoped_attr_cases())
        out += self.raw_cases(rng, tier) + list(self.ident_cases()) + list(self.more_cases())
        for c in combos:
            body = [F[i] for i in c]
            prog = {"body": body, "calls": g.call_stmts(body)}
            r = rng.random()
            ns = [{}] if r < 0.6 else [{"x": ["obj"]}] if r < 0.8 else [{"pa": ["mod", "pa"]}]
            out.append(dict(prog=prog, ns=ns, loaded=["pa"] if r >= 0.8 or rng.random() < 0.3 else [], ext=False))
        return out

    # -- implementation --------------------------------------------------------
    def _report(self, arg, nss):
        from pyflyby import find_missing_imports
        try:
            return sorted(str(x) for x in find_missing_imports(arg, nss))
        except Exception as e:
            return {"err": type(e).__name__ + ": " + str(e)[:200]}

    @staticmethod
    def _unused(src):
        """pyflyby's unused-import list for the source, as sorted [lineno, str(Import)]"""
        from pyflyby._autoimp import scan_for_import_issues
        from pyflyby._parse import PythonBlock
        try:
            _, unused = scan_for_import_issues(PythonBlock(src), find_unused_imports=True, parse_docstrings=False)
            return sorted([int(l), str(i)] for l, i in unused)
        except Exception as e:
            return {"err": type(e).__name__ + ": " + str(e)[:200]}

    @staticmethod
    def _import_at(located, line, idx):
        """the Import (as pyflyby prints it) of alias `idx` of the import statement on `line`"""
        from pyflyby._importstmt import Import
        for st in G.walk_stmts([x[2] for x in located if x[0] == "at"] if False else located):
            pass
        def walk(body):
            for at in body:
                ln, st = at[1], at[2]
                yield ln, st
                for b in G.sub_bodies(st):
                    yield from walk(b)
                if st[0] == "try":
                    pass
        def bodies(st):
            # handlers of a located try are [line, type, name, body]
            if st[0] == "try":
                return [st[1]] + [h[3] for h in st[2]] + [st[3], st[4]]
            return G.sub_bodies(st)
        def walk2(body):
            for at in body:
                ln, st = at[1], at[2]
                yield ln, st
                for b in bodies(st):
                    yield from walk2(b)
        for ln, st in walk2(located):
            if ln == line and st[0] in ("import", "importFrom"):
                names = st[1] if st[0] == "import" else st[2]
                if idx < len(names):
                    n, a = names[idx]
                    mod = None if st[0] == "import" else st[1]
                    return str(Import.from_split((mod, n, a or n)))
        return "?%d.%d" % (line, idx)

    def _forms(self, src, code, nss):
        """the report through every other entry form of find_missing_imports"""
        import ast
        import types
        from pyflyby._autoimp import ScopeStack
        from pyflyby._idents import DottedIdentifier
        from pyflyby._parse import PythonBlock
        out = {}
        try:
            tree = ast.parse(src, type_comments=True)
        except SyntaxError:
            tree = ast.parse(src)
        import zlib
        h = zlib.crc32(src.encode())           # which of the equivalent spellings this case uses (deterministic per source)
        out["ast"] = self._report(tree, nss)
        out["block"] = self._report(PythonBlock(src), nss)
        if h % 3 == 0 and len(nss) == 1:
            out["nsdict"] = self._report(src, nss[0])
        elif h % 3 == 1:
            out["tuple"] = self._report(src, tuple(nss))
        else:
            out["scopestack"] = self._report(src, ScopeStack(nss))
        fn = types.FunctionType(code, {})
        if (h >> 4) % 2:
            out["func"] = self._report(fn, nss)
        else:
            out["callobj"] = self._report(type("Obj", (object,), {"__call__": fn})(), nss)
        out["builtin"] = self._report(len, nss)
        one = src.strip()
        if one and all(p.isidentifier() for p in one.split(".")) and "\n" not in one:
            import keyword
            if not any(keyword.iskeyword(p) for p in one.split(".")):
                out["ident_str"] = self._report(one, nss)
                out["ident_obj"] = self._report(DottedIdentifier(one), nss)
                out["ident_tuple"] = self._report(DottedIdentifier(tuple(one.split("."))), nss)
        return out

    @staticmethod
    def _scan(src, doc, unused=True):
        """scan_for_import_issues(find_unused_imports=unused, parse_docstrings=doc) -> sorted missing / unused"""
        from pyflyby._autoimp import scan_for_import_issues
        from pyflyby._parse import PythonBlock
        try:
            missing, unused = scan_for_import_issues(PythonBlock(src), find_unused_imports=unused, parse_docstrings=doc)
            return dict(missing=sorted([int(l or 0), str(n)] for l, n in missing),
                        unused=sorted([int(l), str(i)] for l, i in unused or ()))
        except Exception as e:
            return {"err": type(e).__name__ + ": " + str(e)[:200]}

    @staticmethod
    def _has_docstring(prog):
        return any(st[0] == "expr" and st[1][0] == "str" and (">>>" in st[1][1] or "{" in st[1][1])
                   for st in G.walk_stmts(G.all_stmts(prog)))

    @staticmethod
    def _has_star(prog):
        return any(st[0] == "importFrom" and any(n == "*" for n, a in st[2]) for st in G.walk_stmts(G.all_stmts(prog)))

    def run_impl(self, case):
        G.install_builtins()
        prog = case["prog"]
        if "raw" in case:
            src, marker = case["raw"], case["marker"]
        else:
            src, marker = G.render(prog)
        try:
            code = compile(src, "<c05>", "exec", dont_inherit=True)
        except SyntaxError as e:
            return dict(src=src, syntax=str(e))
        runs = G.reference(src, marker, case["ns"], case["loaded"])
        for r in runs:
            G.universe_reset(r["loaded"], [tuple(a) for a in r["attrs"]])
            nsspec = [dict(d) for d in case["ns"]]
            for n in r["defined"]:
                nsspec[-1][n] = ["obj"]
            r["nsspec"] = nsspec
            nss = G.build_ns(nsspec)
            before = [dict(d) for d in nss]
            r["report"] = self._report(src, nss)
            r["ns_unchanged"] = all(list(a.items()) == list(b.items()) and all(a[k] is b[k] for k in a)
                                    for a, b in zip(before, nss))
            r["report_code"] = self._report(code, nss)
            if r is runs[0] or (r is runs[-1] and len(src) % 3 == 0):
                r["forms"] = self._forms(src, code, nss)
                r["ns_unchanged"] = r["ns_unchanged"] and all(list(a.items()) == list(b.items()) and all(a[k] is b[k] for k in a)
                                                              for a, b in zip(before, nss))
            r["registry"] = G.registry_snapshot()
        G.universe_purge()
        obs = dict(src=src, marker=marker, runs=runs, fixes=G.probe_fixes())
        if "raw" not in case and self._has_docstring(prog):
            obs["scan_doc"] = self._scan(src, True)
            obs["scan_plain"] = self._scan(src, False)
            obs["scan_missing_only"] = self._scan(src, False, unused=False)
        if any(st[0] in ("import", "importFrom") for st in G.walk_stmts(G.all_stmts(prog))) and not G.probe_unmodelled():
            obs["unused"] = self._unused(src)
        return obs

    # -- oracle ----------------------------------------------------------------
    def oracle(self, case, obs):
        if "syntax" in obs:
            return [dict(what="harness: rendered program does not compile", src=obs["src"], err=obs["syntax"])]
        runs = obs["runs"]
        if any(r["early"] for r in runs):
            return []          # a function ran before the last module-level statement: outside the domain
        skip_sound, skip_prec, judge_prec = set(), set(), True
        if case.get("ext") and "raw" not in case:
            return []          # global / nonlocal / del: unclaimed extension, explored (K) but not judged
        if "raw" in case:
            if case.get("ext"):
                # match / walrus / type alias / PEP 695: unclaimed extension.  Executed so that a crash is seen; the names
                # those constructs bind are not judged, nor the ones read only in lazily evaluated positions
                bound, lazy = G.construct_bound_names(obs["src"])
                skip_sound = set(bound)
                skip_prec = set(bound) | set(lazy)
                judge_prec = case.get("kind") in ("match", "walrus")
            else:
                # a name in a type comment is never looked up by the run; it is reported on purpose
                skip_prec = G.type_comment_names(obs["src"])
        fails = []
        # names listed in `__all__ = [...]` are looked up by a star-importer, not by this run: not judged for precision
        exported = set()
        for st in G.walk_stmts(G.all_stmts(case["prog"])):
            if st[0] == "assign" and st[1] == [["name", "__all__"]] and st[2][0] in ("list", "tuple"):
                exported |= {e[1] for e in st[2][1] if e[0] == "str"}
        for i, r in enumerate(runs):
            for variant, rep in (("ast", r["report"]), ("code", r["report_code"])):
                if isinstance(rep, dict):
                    fails.append(dict(what="find_missing_imports raised", variant=variant, err=rep["err"], src=obs["src"], run=i))
                    continue
                hs = heads(rep)
                for n in r["ne"]:
                    if n not in hs and n not in skip_sound:
                        fails.append(dict(what="NameError name not reported", variant=variant, name=n, run=i,
                                          src=obs["src"], ns=r["nsspec"], loaded=r["loaded"], report=rep,
                                          unexecuted_binding=G.unexecuted_binding(obs["src"], n, r["stores"], r.get("ne_at", {}).get(n))))
                if judge_prec and r["outcome"] == "ok" and r["all_read"] and not r["local_ne"]:
                    for d in rep:
                        parts = d.split(".")
                        pre = {".".join(parts[:k]) for k in range(2, len(parts) + 1)}
                        if parts[0] not in r["ne"] and not (pre & set(r["ae"])) and d not in exported and parts[0] not in skip_prec:
                            fails.append(dict(what="reported name whose lookups all succeed", variant=variant, name=d, run=i,
                                              src=obs["src"], ns=r["nsspec"], loaded=r["loaded"], report=rep))
            if not r["ns_unchanged"]:
                fails.append(dict(what="namespaces modified by analysis", run=i, src=obs["src"]))
            # "for any code": every entry form of find_missing_imports answers like the str form (source-level forms) or
            # like the code-object form (callables); a builtin needs nothing
            for form, rep in sorted(r.get("forms", {}).items()):
                want = [] if form == "builtin" else r["report_code"] if form in ("func", "callobj") else r["report"]
                if rep != want:
                    fails.append(dict(what="entry form disagrees", variant=form, name=form, run=i, src=obs["src"],
                                      ns=r["nsspec"], loaded=r["loaded"], report=rep, want=want))
        fails += self.oracle_docstrings(obs)
        # one failure per (what, variant, name)
        seen, out = set(), []
        for f in fails:
            k = (f["what"], f.get("variant"), f.get("name"))
            if k not in seen:
                seen.add(k)
                out.append(f)
        return out[:6]

    @staticmethod
    def oracle_docstrings(obs):
        """scan_for_import_issues with parse_docstrings=True: what strings hold never changes the missing report (a name in
        a doctest is not looked up by running the code); an import can only leave the unused report through a string that
        mentions its name, and does leave it when a doctest example reads / a `{name}` reference names the one module-level
        import that binds the name"""
        import ast
        if "scan_doc" not in obs:
            return []
        sd, sp = obs["scan_doc"], obs["scan_plain"]
        src = obs["src"]
        if "err" in sd or "err" in sp:
            return [dict(what="scan_for_import_issues raised", err=sd.get("err") or sp.get("err"), src=src, name="scan")]
        fails = []
        if sd["missing"] != sp["missing"]:
            fails.append(dict(what="docstring contents change the missing report", src=src, name="missing",
                              doc=sd["missing"], plain=sp["missing"]))
        sm = obs.get("scan_missing_only", sp)
        if "err" in sm:
            # (only "it runs" is demanded of find_unused_imports=False: the two missing lists legitimately differ — a dotted
            # store under an unbound head is listed only with tracking, and `_remove_from_missing_imports` (D9d) drops
            # different entries when the list is longer)
            fails.append(dict(what="scan_for_import_issues raised", err=sm["err"], src=src, name="scan"))
        words, loads, braces = G.docstring_refs(src)
        tree = ast.parse(src)
        toplevel = {n.lineno for n in tree.body if isinstance(n, (ast.Import, ast.ImportFrom))}
        for u in sd["unused"]:
            if u not in sp["unused"]:
                fails.append(dict(what="import unused only when docstrings are parsed", src=src, name=u[1]))
        for u in sp["unused"]:
            a = ast.parse(u[1]).body[0].names[0]
            n = a.asname or a.name.split(".")[0]
            if n not in words and u not in sd["unused"]:
                fails.append(dict(what="import dropped from the unused report by a string that does not name it", src=src, name=u[1]))
            if (n in loads or n in braces) and u[0] in toplevel and len(G.binding_sites(src, n)[0]) == 1 and u in sd["unused"]:
                fails.append(dict(what="import read by a doctest / {name} reference reported unused", src=src, name=u[1]))
        return fails

    # -- model ---------------------------------------------------------------
    @staticmethod
    def model_ns(nsspec, registry):
        """namespaces / registry with object identities as small integers: registry module k -> 100+k,
        the dummy -> 50, k-th non-registry module object -> 60+k, builtins -> 1000+k."""
        idx = {m: 100 + k for k, (m, _) in enumerate(registry)}
        fk = [0]

        def val(v):
            if v[0] == "mod":
                return idx[v[1]]
            if v[0] == "fakemod":
                fk[0] += 1
                return 60 + fk[0]
            if v[0] == "none":
                return None
            return 50
        ns = [[[n, val(v)] for n, v in d.items()] for d in nsspec]
        mods = [[m, idx[m]] for m, _ in registry]
        attrs = []
        for m, at in registry:
            for a, v in at:
                attrs.append([idx[m], a, 100 + v[1] if v[0] == "mod" else 50])
        return ns, dict(mods=mods, attrs=attrs)

    @staticmethod
    def builtins_scope():
        import builtins
        return [[n, 1000 + k] for k, n in enumerate(builtins.__dict__.keys())]

    def model_requests(self, case, obs):
        if "runs" not in obs or "raw" in case:
            return []          # raw source snippets have no mini-AST: O only
        src, marker, located = G.render_full(G.desugar(case["prog"]))
        reqs = []
        b = self.builtins_scope()
        for r in obs["runs"]:
            ns, reg = self.model_ns(r["nsspec"], r["registry"])
            reqs.append(dict(op="findMissing", prog=located, builtins=b, ns=ns, registry=reg, fixes=obs.get("fixes", {})))
        if "unused" in obs:
            reqs.append(dict(op="unused", prog=located, builtins=b, fixes=obs.get("fixes", {})))
        nb = len(case["prog"]["body"])
        for r in obs["runs"]:
            idx = {m: k for k, (m, _) in enumerate(r["registry"])}
            g = {}
            for d in r["nsspec"]:
                for n, v in d.items():
                    g[n] = ["mod", idx[v[1]]] if v[0] == "mod" else (["none"] if v[0] == "none" else ["obj"])
            mods = [[m, [[a, v] for a, v in at]] for m, at in r["registry"]]
            reqs.append(dict(op="exec", body=located[:nb], calls=located[nb:], globals=[[n, v] for n, v in g.items()],
                             mods=mods, builtins=[n for n, _ in b], fuel=4000))
        return reqs

    def compare(self, case, obs, resps):
        nr = len(obs["runs"])
        if "unused" in obs:
            ru = resps[nr]
            resps = resps[:nr] + resps[nr + 1:]
            if isinstance(obs["unused"], dict):
                return "scan_for_import_issues raised %s" % obs["unused"]["err"]
            located = G.render_full(G.desugar(case["prog"]))[2]
            want = sorted([l, self._import_at(located, l, i)] for l, i in ru["unused"])
            if want != obs["unused"]:
                return "unused imports: scan_for_import_issues=%r model=%r src=%r" % (obs["unused"], want, obs["src"])
        d = self.compare_exec(case, obs, resps[nr:])
        if d:
            return d
        for i, (r, m) in enumerate(zip(obs["runs"], resps[:nr])):
            if isinstance(r["report"], dict):
                return "run %d: implementation raised %s" % (i, r["report"]["err"])
            if r["report"] != m["missing"]:
                return "run %d: find_missing_imports=%r model=%r src=%r ns=%r" % (i, r["report"], m["missing"], obs["src"], r["nsspec"])
        return None

    @staticmethod
    def _comp_targets(case):
        out = set()
        for st in G.walk_stmts(G.all_stmts(case["prog"])):
            es, ts = G.stmt_exprs(st)
            for e in es + ts:
                for x in G.walk_exprs(e):
                    if x[0] in ("listComp", "setComp", "genExp", "dictComp"):
                        for g in x[-1]:
                            out |= G.target_names(g[0])
        return out

    def compare_exec(self, case, obs, resps):
        """K(b): the reference semantics (Pfb.PyCore.Exec) against CPython, run by run."""
        if case.get("ext") is True:
            return None        # global / nonlocal: not modelled exactly; `ext == "del"` (module-level del only) is compared
        if self._has_star(case["prog"]):
            return None        # the run-time model has no star import (the analysis model has: K(a) is compared)
        for i, (r, m) in enumerate(zip(obs["runs"], resps)):
            oc = r["outcome"]
            oc = "Local" if oc in ("UnboundLocal", "FreeVar") else oc
            if oc.startswith("Other") or r.get("other_raised") or m["other"] or m["outcome"] in ("Fuel", "Other"):
                continue       # a typed exception neither side models exactly: not compared
            got = (oc, r["ne"], r["ae"], sorted(set(r["local_ne"])), r["early"])
            want = (m["outcome"], m["ne"], m["ae"], sorted(set(m["lne"])), m["early"])
            if got != want and set(r["local_ne"]) - set(m["lne"]) and (set(r["local_ne"]) & self._comp_targets(case)):
                continue       # CPython 3.12 inlined-comprehension quirk (PEP 709): a sibling comprehension's target makes the name a fast local
            if got != want:
                return "run %d: CPython %r  Exec model %r  src=%r ns=%r loaded=%r" % (i, got, want, obs["src"], r["nsspec"], r["loaded"])
        return None

    def nontrivial_key(self, case, obs):
        if "runs" in obs and len(obs["src"].splitlines()) >= 2:
            return obs["src"] + json.dumps(case["ns"], sort_keys=True) + json.dumps(case["loaded"])
        return None

    def sample_repr(self, case, obs):
        return dict(src=obs.get("src", "")[:300], ns=case["ns"], loaded=case["loaded"],
                    runs=[[r["outcome"], r["ne"], r["ae"], r["report"]] for r in obs.get("runs", [])][:4])

    def stats(self, case, obs, acc):
        def inc(k):
            acc[k] = acc.get(k, 0) + 1
        inc("cases_from_" + case.get("_src", "?"))
        if "runs" not in obs:
            return
        runs = obs["runs"]
        inc("final_outcome_" + runs[-1]["outcome"].split(":")[0])
        if any(r["early"] for r in runs):
            inc("outside_domain_early_call")
        if runs[-1]["outcome"] == "ok" and runs[-1]["all_read"]:
            inc("precision_checked")
        inc("runs_%d" % min(len(runs), 6))
        if any(r["ne"] for r in runs):
            inc("some_NameError")
        if any(r["ae"] for r in runs):
            inc("some_module_AttributeError")

    families = FAMILIES


PROP = C05()
