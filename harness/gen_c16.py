"""
gen_c16 — generator of (old, new) module *version pairs* for C16 (xreload).

A module version is a list of JSON items; `render(items)` gives the list of top-level
statements (strings).  Items only refer to names defined by earlier items, all values are
ints/strs/tuples so that behaviour is deterministic and side-effect free at import time.

    {"k":"import","stmt":"import os","name":"os"}
    {"k":"data","name":n,"val":"<python literal>"}
    {"k":"func","name":n,"np":1|2,"dflt":int|None,"c":int,"reads":[data names],"calls":[func names],
                 "doc":str|None,"attrs":{a: literal},"deco":deco name|None,"writes":data name|None}
    {"k":"deco","name":n,"c":int,"cell":bool}              decorator: wrapper(*a) = fn(*a) + c   (c in a cell if cell)
    {"k":"factory","name":n,"c":int,"ncells":1|2,"inner":str}   def n(p, q=0): def <inner>(x): ...; return <inner>
    {"k":"closure","name":n,"factory":f,"args":[ints]}     n = f(*args)
    {"k":"hof","name":n,"factory":f?,"target":func}         n = (lambda fn: (lambda x: fn(x)+c))(target)  cell holds a function
    {"k":"lambda","name":n,"c":int}
    {"k":"class","name":n,"bases":[class names],"slots":None|[names],"attrs":{A: literal},"init":bool,
                 "methods":[{"name":m,"kind":"plain|static|class|prop","c":int,"super":bool}],"doc":str|None}
    {"k":"inst","name":n,"cls":C,"arg":int|None,"extra":{a: literal}}
    {"k":"alias","name":n,"target":t}
    {"k":"container","name":n,"form":"list|dict|tuple","elems":[names]}

`mutate(rng, items)` derives the new version.  Every random choice comes from the rng passed in.
"""
from __future__ import annotations

import copy

FN = ["f", "g", "h", "k"]
DN = ["X", "Y", "Z"]
CN = ["A", "B", "C", "D"]
IN = ["i1", "i2"]
MN = ["m", "n", "s", "c", "p"]
ON = ["cl", "cl2", "lam", "al", "box", "mk", "deco", "hf"]
LITS = ["1", "2", "3", "'s'", "'t'", "(1, 2)", "[1, 2]", "[3]", "{'a': 1}", "{'a': 1, 'b': 2}", "{'b': 2, 'a': 1}",
        "{'a': 2}", "None", "2.5", "{'n': {'a': 1}}", "{'n': {'a': 2}}", "{1, 2}"]
INTS = [1, 2, 3, 5, 7, 11]
# dict literals whose keys cannot be ordered among themselves (types, None, ints and strs, tuples)
HETERO = ["{int: 1, str: 2}", "{int: 1, str: 3, float: 2}", "{None: 1, 'a': 2}", "{None: 2, 'a': 2, 1: 3}", "{1: 'x', 'a': 2}",
          "{(1, 2): 1, 'k': 2, 3: 3}", "{int: 'i', None: 'n', 'a': 'a'}"]
TABLE_KEYS = ["int", "str", "float", "None", "1", "2", "'a'", "'b'", "(1, 2)", "len"]
REG_TYPES = ["collections.OrderedDict(a=%d)", "collections.defaultdict(int, a=%d)", "dict(a=%d)", "collections.Counter(a=%d)"]
# two helper modules written next to every generated module (see c16.py): same function/class names, different behaviour
# `Moody` is a value that refuses `==` (like a numpy array in a boolean context): _livepatch__function must treat a closure cell
# holding one as "not the same as before" instead of letting the exception escape
_MOODY = ("class Moody:\n    def __init__(self, v=0):\n        self.v = v\n    def __eq__(self, other):\n"
          "        raise ValueError('Moody objects cannot be compared')\n    __hash__ = None\n"
          "    def __repr__(self):\n        return 'Moody(%r)' % (self.v,)\n")
EXT_SOURCES = {
    "c16ext_a": "def ext(a=1):\n    return a + 100\nclass Ext:\n    def m(self):\n        return 100\n" + _MOODY,
    "c16ext_b": "def ext(a=1):\n    return a + 200\nclass Ext:\n    def m(self):\n        return 200\n" + _MOODY,
}
# submodules of the generated module when it is a *package* (case["pkg"]): written next to __init__.py by the harness
PKG_SUBMODULES = {
    "sub_a": "val = 10\ndef subf(a=1):\n    return a + 10\n",
    "sub_b": "val = 20\ndef subf(a=1):\n    return a + 20\n",
    "late": "val = 30\n",
}
REL_IMPORTS = ["from . import sub_a", "from . import sub_b", "from .sub_a import subf", "from .sub_b import subf",
               "from .sub_a import val as sval", "from . import sub_a as sub"]
# __livepatch__ hooks that are *transparent*: they do what the standard livepatch does (call do_livepatch() and return its
# result, or call livepatch(..., heed_hook=False) as the module docstring describes), with the parameter conventions that
# livepatch() documents: parameters matched by name, **kwargs, a first parameter of any name meaning `old`, defaulted extras
HOOKS = {
    "plain": ("old, new, do_livepatch", "return do_livepatch()"),
    "varkw": ("do_livepatch, **kw", "return do_livepatch()"),
    "first": ("prev, do_livepatch", "return do_livepatch()"),
    "extra": ("old, do_livepatch, extra=None", "return do_livepatch()"),
    "order": ("new, do_livepatch, old", "return do_livepatch()"),
    "noheed": ("old, new, modname, cache", "from pyflyby import livepatch\n    return livepatch(old, new, modname=modname, cache=cache, heed_hook=False)"),
}
HOOK_NAMES = ["__livepatch__", "__livepatch__", "__reload_update__"]
EXT_IMPORTS = ["from c16ext_a import ext", "from c16ext_b import ext", "from c16ext_a import Ext", "from c16ext_b import Ext",
               "import os", "import json as ext"]


def names_of(items):
    return [it["name"] for it in items]


def _defined(items, upto, kinds):
    return [it["name"] for it in items[:upto] if it["k"] in kinds]


def _last_def(items):
    """name -> item of the last definition (a later item with the same name rebinds)."""
    d = {}
    for it in items:
        d[it["name"]] = it
    return d


def gen_item(rng, items, name=None):
    """Draw one item that is valid after `items`."""
    cur = _last_def(items)
    funcs = [n for n, it in cur.items() if it["k"] in ("func", "lambda")]
    datas = [n for n, it in cur.items() if it["k"] == "data" and it["val"].lstrip("-").isdigit()]
    classes = [n for n, it in cur.items() if it["k"] == "class"]
    factories = [n for n, it in cur.items() if it["k"] == "factory"]
    decos = [n for n, it in cur.items() if it["k"] == "deco"]
    r = rng.random()
    if name is None:
        q = rng.random()
        if q < 0.05:
            # dunder-named module globals that belong to the *source*, not to the import system
            dn = rng.choice(["__all__", "__version__", "__author__", "__all__"])
            val = (rng.choice(["['f']", "['f', 'g']", "['X']", "[]"]) if dn == "__all__"
                   else rng.choice(["'1.0'", "'2.0'", "'me'"]))
            return dict(k="data", name=dn, val=val)
        if q < 0.08:
            # PEP 562 module-level __getattr__ / __dir__
            return dict(k="pep562", name=rng.choice(["__getattr__", "__getattr__", "__dir__"]), c=rng.choice(INTS))
        if q < 0.17:
            return dict(k="data", name=rng.choice(DN), val=rng.choice(HETERO))
        if q < 0.20:
            return dict(k="metacls", name="Meta", c=rng.choice(INTS))
        if q < 0.24:
            # closure over an instance of a dict (sub)class whose contents change
            return dict(k="odc", name=rng.choice(["rg", "rg2"]), ty=rng.choice(REG_TYPES), v=rng.choice(INTS), c=rng.choice(INTS))
        if q < 0.27 and funcs:
            return dict(k="hof", name="pw", target=rng.choice(funcs), c=rng.choice(INTS), wrap=rng.choice(["partial", "lru"]))
        if q < 0.30:
            insts = [n for n, it in cur.items() if it["k"] == "inst"]
            if insts:
                return dict(k="bmc", name="bm", inst=rng.choice(insts), c=rng.choice(INTS))
        if q < 0.33 and (funcs or classes):
            pool = funcs + classes
            ne = rng.choice([2, 2, 3])
            return dict(k="container", name="tab", form="table", elems=[rng.choice(pool) for _ in range(ne)],
                        keys=rng.sample(TABLE_KEYS, ne))
        if q < 0.39:
            # variable annotation: creates / extends the module's __annotations__
            return dict(k="data", name=rng.choice(DN + ["W"]), val=rng.choice(["1", "2", "3"]), ann=rng.choice(["int", "object"]))
        if q < 0.42:
            # closure over a value whose == raises
            return dict(k="moody", name="mo", v=rng.choice(INTS), c=rng.choice(INTS))
        if q < 0.445:
            # module-level __livepatch__ hook (transparent)
            return dict(k="modhook", name=rng.choice(HOOK_NAMES), hook=rng.choice(["plain", "varkw", "first", "extra", "order"]))
        if q < 0.475:
            # closure with an EMPTY cell (C16-H3): the target of `except ... as e` is unbound after the handler, a variable
            # after `del`; "late" = the cell is filled in one version and empty in the other when `how` is mutated
            return dict(k="ecell", name=rng.choice(["ec", "ec2"]), how=rng.choice(["except", "except", "del", "filled"]),
                        c=rng.choice(INTS))
        if q < 0.505:
            # __slots__ that must not be read literally (C16-H4): a single string, a private (name-mangled) slot
            return dict(k="oddslots", name=rng.choice(["S1", "S2"]), form=rng.choice(["str", "str", "mangled", "both"]),
                        c=rng.choice(INTS), v=rng.choice(INTS), inst=rng.random() < 0.6)
    if r < 0.04 and name is None:
        st = rng.choice(EXT_IMPORTS)
        return dict(k="import", stmt=st, name=st.split()[-1])
    if r < 0.14:
        return dict(k="data", name=name or rng.choice(DN), val=rng.choice(LITS))
    if r < 0.40:
        it = dict(k="func", name=name or rng.choice(FN), np=rng.choice([1, 1, 2]),
                  dflt=rng.choice([None, None, 4, 6]), c=rng.choice(INTS),
                  reads=[rng.choice(datas)] if datas and rng.random() < 0.4 else [],
                  calls=[rng.choice(funcs)] if funcs and rng.random() < 0.3 else [],
                  doc=rng.choice([None, None, "doc one", "doc two"]),
                  attrs={"tag": rng.choice(["1", "2", "'u'"])} if rng.random() < 0.2 else {},
                  deco=rng.choice(decos) if decos and rng.random() < 0.5 else None,
                  writes=rng.choice(datas) if datas and rng.random() < 0.08 else None,
                  kw=rng.choice(INTS) if rng.random() < 0.12 else None)
        if rng.random() < 0.08:
            it["hook"] = rng.choice(sorted(HOOKS))
            it["hookname"] = rng.choice(HOOK_NAMES)
        it["calls"] = [c for c in it["calls"] if c != it["name"]]
        return it
    if r < 0.46:
        return dict(k="deco", name=name or "deco", c=rng.choice(INTS), cell=rng.random() < 0.5)
    if r < 0.54:
        return dict(k="factory", name=name or "mk", c=rng.choice(INTS), ncells=rng.choice([1, 1, 2]),
                    inner=rng.choice(["inner", "inner", "inner2"]), pn=rng.choice(["p", "p", "r"]))
    if r < 0.62 and factories:
        return dict(k="closure", name=name or rng.choice(["cl", "cl2"]), factory=rng.choice(factories),
                    args=[rng.choice(INTS), rng.choice(INTS)])
    if r < 0.66 and funcs:
        return dict(k="hof", name=name or "hf", target=rng.choice(funcs + (datas if rng.random() < 0.25 else [])), c=rng.choice(INTS))
    if r < 0.70:
        return dict(k="lambda", name=name or "lam", c=rng.choice(INTS))
    if r < 0.86:
        nm = name or rng.choice(CN)
        bases = []
        cand = [c for c in classes if c != nm]
        if cand and rng.random() < 0.5:
            bases = [rng.choice(cand)]
            if len(cand) > 1 and rng.random() < 0.3:
                b2 = rng.choice([c for c in cand if c != bases[0]])
                bases.append(b2)
        base_items = [cur[b] for b in bases]
        slots = None
        if rng.random() < 0.2 and all(b.get("slots") is not None or True for b in base_items):
            slots = rng.choice([["v"], ["v", "u"], ["v", "u"]]) if not bases else ["w"]
        methods = []
        used = set()
        for _ in range(rng.choice([0, 1, 1, 2, 3])):
            mn = rng.choice(MN)
            if mn in used:
                continue
            used.add(mn)
            kind = rng.choice(["plain", "plain", "plain", "static", "class", "prop"])
            sup = False
            if kind == "plain" and bases and rng.random() < 0.5:
                sup = any(any(m["name"] == mn and m["kind"] == "plain" for m in b["methods"]) for b in base_items)
            methods.append(dict(name=mn, kind=kind, c=rng.choice(INTS), super=sup,
                                cc=(kind == "plain" and rng.random() < 0.3)))
        init = rng.random() < 0.5 and not bases
        if slots and "v" in slots:
            init = True
        metas = [n for n, it in cur.items() if it["k"] == "metacls"]
        meta = rng.choice([None, None, None, "abc", "abc", "enum"] + (["custom"] * 5 if metas else []))
        at = {"K": rng.choice(["1", "2", "'q'"])} if rng.random() < 0.3 else {}
        if rng.random() < 0.12:
            at["T"] = rng.choice(HETERO)
        # a base class that belongs to another module, before or after the in-module bases
        xb = rng.choice(["first", "last"]) if slots is None and rng.random() < 0.12 else None
        hook = None
        if rng.random() < 0.09:
            # "inst" is the form the module docstring of _livepatch.py shows: an instance method `__livepatch__(self, old, ...)`
            hook = rng.choice(["plain", "varkw", "first", "extra", "order", "cm", "cm", "inst"])
        return dict(k="class", name=nm, bases=bases, slots=slots, attrs=at, meta=meta, metaname=metas[0] if metas else None,
                    init=init, methods=methods, doc=rng.choice([None, None, "cdoc"]), hook=hook, xb=xb,
                    hookname=rng.choice(HOOK_NAMES))
    if r < 0.93 and classes:
        c = rng.choice(classes)
        ci = cur[c]
        extra = {}
        if ci.get("slots") is None and not any(cur.get(b, {}).get("slots") for b in ci["bases"]) and rng.random() < 0.3:
            extra = {"e": rng.choice(["1", "2"])}
        sset = {sn: rng.choice(["4", "5", "'z'"]) for sn in (ci.get("slots") or []) if sn != "v" and rng.random() < 0.5}
        return dict(k="inst", name=name or rng.choice(IN), cls=c, arg=rng.choice(INTS), extra=extra, sset=sset)
    if r < 0.96 and (funcs or classes):
        return dict(k="alias", name=name or "al", target=rng.choice(funcs + classes))
    if funcs or classes:
        pool = funcs + classes + datas
        return dict(k="container", name=name or "box", form=rng.choice(["list", "dict", "tuple"]),
                    elems=[rng.choice(pool) for _ in range(rng.choice([1, 2]))])
    return dict(k="data", name=name or rng.choice(DN), val=rng.choice(LITS))


def _class_takes_arg(cur, cname, seen=()):
    """Does cname(...) accept one positional argument (an __init__(self, v=0) somewhere in the MRO)?"""
    it = cur.get(cname)
    if it is None or it["k"] != "class" or cname in seen:
        return False
    if it.get("init"):
        return True
    return any(_class_takes_arg(cur, b, seen + (cname,)) for b in it["bases"])


def fixup(items):
    """Drop/repair dangling references so that the version imports (best effort)."""
    out = []
    for it in items:
        it = copy.deepcopy(it)
        cur = _last_def(out)
        k = it["k"]
        isfunc = lambda n: n in cur and cur[n]["k"] in ("func", "lambda")
        if k == "func":
            it["reads"] = [n for n in it["reads"] if n in cur and cur[n]["k"] == "data" and cur[n]["val"].lstrip("-").isdigit()]
            it["calls"] = [n for n in it["calls"] if isfunc(n) and n != it["name"]]
            if it.get("deco") and not (it["deco"] in cur and cur[it["deco"]]["k"] == "deco"):
                it["deco"] = None
            w = it.get("writes")
            if w and not (w in cur and cur[w]["k"] == "data" and cur[w]["val"].lstrip("-").isdigit()):
                it["writes"] = None
        elif k == "closure":
            if not (it["factory"] in cur and cur[it["factory"]]["k"] == "factory"):
                continue
        elif k == "hof":
            isint = it["target"] in cur and cur[it["target"]]["k"] == "data" and cur[it["target"]]["val"].lstrip("-").isdigit()
            if not (isfunc(it["target"]) or isint):
                continue
        elif k == "class":
            it["bases"] = [b for b in it["bases"] if b in cur and cur[b]["k"] == "class" and b != it["name"]]
            bi = [cur[b] for b in it["bases"]]
            # layout conflicts: at most one base with non-empty slots
            if sum(1 for b in bi if b.get("slots")) > 1:
                it["bases"] = it["bases"][:1]
                bi = bi[:1]
            for m in it["methods"]:
                if m.get("super"):
                    m["super"] = m["kind"] == "plain" and any(
                        any(mm["name"] == m["name"] and mm["kind"] == "plain" for mm in b["methods"]) for b in bi)
            if it.get("slots") and "v" in it["slots"] and it["bases"]:
                it["slots"] = ["w"]
            if it.get("slots") and "v" in it["slots"]:
                it["init"] = True
            # metaclasses: no class derives from an Enum with members; one metaclass per hierarchy
            it["bases"] = [b for b in it["bases"] if cur[b].get("meta") != "enum"]
            if it.get("meta") == "custom" and not (it.get("metaname") in cur and cur[it["metaname"]]["k"] == "metacls"):
                it["meta"] = None
            if it.get("meta") and any(cur[b].get("meta") for b in it["bases"]):
                it["meta"] = None
            if it.get("meta") == "enum":
                it["bases"], it["slots"], it["init"], it["attrs"], it["hook"] = [], None, False, {}, None
                it["xb"] = None
                for m in it["methods"]:
                    m["super"] = False
            if it.get("slots") is not None:
                it["xb"] = None
        elif k == "inst":
            if not (it["cls"] in cur and cur[it["cls"]]["k"] == "class"):
                continue
            ci = cur[it["cls"]]
            hasdict = ci.get("slots") is None or any(cur[b].get("slots") is None for b in ci["bases"] if b in cur)
            if not hasdict:
                it["extra"] = {}
            it["sset"] = {sn: v for sn, v in (it.get("sset") or {}).items() if sn in (ci.get("slots") or []) and sn != "v"}
            it["_arg_ok"] = _class_takes_arg(cur, it["cls"])
            it["_enum"] = ci.get("meta") == "enum"
            if it["_enum"]:
                it["extra"] = {}
                it["sset"] = {}
        elif k == "bmc":
            ii = cur.get(it["inst"])
            if not (ii and ii["k"] == "inst" and ii["cls"] in cur and cur[ii["cls"]]["k"] == "class"):
                continue
            pm = [m["name"] for m in cur[ii["cls"]]["methods"] if m["kind"] == "plain"]
            if not pm:
                continue
            it["meth"] = pm[0]
        elif k == "alias":
            if it["target"] not in cur or it["target"] == it["name"]:
                continue
        elif k == "container":
            if it["form"] == "table":
                pairs = [(kk, e) for kk, e in zip(it.get("keys", []), it["elems"]) if e in cur and e != it["name"]]
                it["keys"], it["elems"] = [p[0] for p in pairs], [p[1] for p in pairs]
            it["elems"] = [e for e in it["elems"] if e in cur and e != it["name"]]
            if not it["elems"]:
                continue
        out.append(it)
    return out


def render_item(it):
    """-> list of top-level statements."""
    k = it["k"]
    n = it["name"]
    if k == "import":
        return [it["stmt"]]
    if k == "data":
        if it.get("ann"):
            return ["%s: %s = %s" % (n, it["ann"], it["val"])]
        return ["%s = %s" % (n, it["val"])]
    if k == "pep562":
        if n == "__getattr__":
            return ["def __getattr__(name):\n    if name == 'lazy_attr':\n        return %d\n    raise AttributeError(name)" % it["c"]]
        return ["def __dir__():\n    return ['lazy_attr', 'n%d']" % it["c"]]
    if k == "func":
        params = ["a"] if it["np"] == 1 else ["a", "b"]
        if it["dflt"] is not None:
            params[-1] = "%s=%d" % (params[-1], it["dflt"])
        if it.get("kw") is not None:
            params.append("*")
            params.append("kw=%d" % it["kw"])
        expr = "a*2 + %d" % it["c"]
        if it["np"] == 2:
            expr += " + b*3"
        if it.get("kw") is not None:
            expr += " + kw"
        for r in it["reads"]:
            expr += " + %s" % r
        for c in it["calls"]:
            expr += " + %s(1)" % c
        lines = []
        if it.get("deco"):
            lines.append("@%s" % it["deco"])
        lines.append("def %s(%s):" % (n, ", ".join(params)))
        if it.get("doc"):
            lines.append("    %r" % it["doc"])
        if it.get("writes"):
            lines.append("    global %s" % it["writes"])
            lines.append("    %s = %s + 1" % (it["writes"], it["writes"]))
        lines.append("    return %s" % expr)
        out = ["\n".join(lines)]
        for a, v in sorted(it.get("attrs", {}).items()):
            out.append("%s.%s = %s" % (n, a, v))
        if it.get("hook"):
            sig, body = HOOKS[it["hook"]]
            out.append("def _hk_%s(%s):\n    %s" % (n, sig, body))
            out.append("%s.%s = _hk_%s" % (n, it.get("hookname") or "__livepatch__", n))
        return out
    if k == "modhook":
        sig, body = HOOKS[it["hook"]]
        return ["def %s(%s):\n    %s" % (n, sig, body)]
    if k == "ecell":
        pre = {"except": "    try:\n        1/0\n    except ZeroDivisionError as e:\n        pass\n",
               "del": "    e = 1\n    del e\n",
               "filled": "    e = 1\n"}[it["how"]]
        return ["def _mk_%s():\n%s    def get(k=1):\n        if k is None:\n            return e\n        return k + %d\n    return get"
                % (n, pre, it["c"]),
                "%s = _mk_%s()" % (n, n)]
    if k == "oddslots":
        form = it["form"]
        sl = {"str": "'value'", "mangled": "('__pv', )", "both": "('value', '__pv')"}[form]
        at = "value" if form != "mangled" else "__pv"
        out = ["class %s:\n    __slots__ = %s\n    def __init__(self, v=0):\n        self.%s = v\n"
               "    def get(self, a=1):\n        return a + %d + self.%s" % (n, sl, at, it["c"], at)]
        if it.get("inst"):
            out.append("%s_i = %s(%d)" % (n.lower(), n, it["v"]))
        return out
    if k == "moody":
        return ["def _mk_%s():\n    reg = c16ext_a.Moody(%d)\n    def get(k=1):\n        return reg.v + k + %d\n    return get" % (n, it["v"], it["c"]),
                "%s = _mk_%s()" % (n, n)]
    if k == "deco":
        if it["cell"]:
            body = ("def %s(fn):\n    kk = %d\n    def wrapper(*a):\n        return fn(*a) + kk\n    return wrapper"
                    % (n, it["c"]))
        else:
            body = "def %s(fn):\n    def wrapper(*a):\n        return fn(*a) + %d\n    return wrapper" % (n, it["c"])
        return [body]
    if k == "factory":
        inner = it["inner"]
        pn = it.get("pn") or "p"        # the name of the captured variable: renaming it changes co_freevars only
        if it["ncells"] == 2:
            body = "def %s(%s, q=0):\n    def %s(x=1):\n        return x*%s + q + %d\n    return %s" % (n, pn, inner, pn, it["c"], inner)
        else:
            body = "def %s(%s, q=0):\n    def %s(x=1):\n        return x*%s + %d\n    return %s" % (n, pn, inner, pn, it["c"], inner)
        return [body]
    if k == "closure":
        return ["%s = %s(%s)" % (n, it["factory"], ", ".join(str(a) for a in it["args"]))]
    if k == "hof" and it.get("wrap") == "partial":
        return ["%s = functools.partial(%s, %d)" % (n, it["target"], it["c"])]
    if k == "hof" and it.get("wrap") == "lru":
        return ["%s = functools.lru_cache(None)(%s)" % (n, it["target"])]
    if k == "metacls":
        return ["class %s(type):\n    def tag(cls):\n        return %d" % (n, it["c"])]
    if k == "odc":
        return ["def _mk_%s():\n    reg = %s\n    def get(k='a'):\n        return reg[k] + %d\n    return get" % (n, it["ty"] % it["v"], it["c"]),
                "%s = _mk_%s()" % (n, n)]
    if k == "bmc":
        return ["%s = (lambda fn: (lambda x=1: fn(x) + %d))(%s.%s)" % (n, it["c"], it["inst"], it["meth"])]
    if k == "hof":
        return ["%s = (lambda fn: (lambda x=1: (fn(x) if callable(fn) else fn) + %d))(%s)" % (n, it["c"], it["target"])]
    if k == "lambda":
        return ["%s = lambda x=1: x + %d" % (n, it["c"])]
    if k == "class":
        hdr = list(it["bases"])
        if it.get("xb") == "first":
            hdr.insert(0, "c16ext_a.Ext")
        elif it.get("xb") == "last":
            hdr.append("c16ext_a.Ext")
        if it.get("meta") == "abc":
            hdr.append("metaclass=abc.ABCMeta")
        elif it.get("meta") == "custom":
            hdr.append("metaclass=%s" % it["metaname"])
        elif it.get("meta") == "enum":
            hdr = ["enum.Enum"]
        lines = ["class %s(%s):" % (n, ", ".join(hdr)) if hdr else "class %s:" % n]
        if it.get("meta") == "enum":
            lines.append("    RED = 1\n    BLUE = 2")
        if it.get("doc"):
            lines.append("    %r" % it["doc"])
        if it.get("slots") is not None:
            lines.append("    __slots__ = (%s)" % "".join("%r, " % s for s in it["slots"]))
        for a, v in sorted(it.get("attrs", {}).items()):
            lines.append("    %s = %s" % (a, v))
        if it.get("init"):
            lines.append("    def __init__(self, v=0):\n        self.v = v")
        for m in it["methods"]:
            mn, c = m["name"], m["c"]
            if m["kind"] == "plain":
                expr = "a + %d" % c
                if it.get("init"):
                    expr += " + self.v"
                if m.get("super"):
                    expr += " + super().%s(a)" % mn
                if m.get("cc"):
                    expr += " + len(__class__.__name__)"
                lines.append("    def %s(self, a=1):\n        return %s" % (mn, expr))
            elif m["kind"] == "static":
                lines.append("    @staticmethod\n    def %s(a=1):\n        return a + %d" % (mn, c))
            elif m["kind"] == "class":
                lines.append("    @classmethod\n    def %s(cls, a=1):\n        return (cls.__name__, a + %d)" % (mn, c))
            else:
                lines.append("    @property\n    def %s(self):\n        return %d" % (mn, c))
        if it.get("hook"):
            hn = it.get("hookname") or "__livepatch__"
            if it["hook"] == "cm":
                lines.append("    @classmethod\n    def %s(cls, old, new, do_livepatch):\n        return do_livepatch()" % hn)
            elif it["hook"] == "inst":
                lines.append("    def %s(self, old, do_livepatch):\n        return do_livepatch()" % hn)
            else:
                sig, body = HOOKS[it["hook"]]
                lines.append("    @staticmethod\n    def %s(%s):\n        %s" % (hn, sig, body.replace("\n    ", "\n        ")))
        if len(lines) == 1:
            lines.append("    pass")
        return ["\n".join(lines)]
    if k == "inst":
        if it.get("_enum"):
            return ["%s = %s.RED" % (n, it["cls"])]
        out = ["%s = %s(%s)" % (n, it["cls"], it["arg"] if it.get("_arg_ok") and it["arg"] is not None else "")]
        for a, v in sorted(it.get("extra", {}).items()):
            out.append("%s.%s = %s" % (n, a, v))
        for a, v in sorted((it.get("sset") or {}).items()):
            out.append("%s.%s = %s" % (n, a, v))
        return out
    if k == "alias":
        return ["%s = %s" % (n, it["target"])]
    if k == "container":
        es = it["elems"]
        if it["form"] == "list":
            return ["%s = [%s]" % (n, ", ".join(es))]
        if it["form"] == "tuple":
            return ["%s = (%s,)" % (n, ", ".join(es))]
        if it["form"] == "table":
            return ["%s = {%s}" % (n, ", ".join("%s: %s" % (kk, e) for kk, e in zip(it["keys"], es)))]
        return ["%s = {%s}" % (n, ", ".join("%r: %s" % ("k%d" % i, e) for i, e in enumerate(es)))]
    raise ValueError(k)


def render(items):
    out = []
    for it in items:
        out.extend(render_item(it))
    text = "\n".join(out)
    if any(x in text for x in ("abc.", "enum.", "collections.", "functools.")):
        out.insert(0, "import abc, enum, collections, functools")
    if "c16ext_a." in text:
        out.insert(0, "import c16ext_a")
    return out


def has_hooks(stmts):
    return any("__livepatch__" in st or "__reload_update__" in st for st in stmts)


INJECT = {
    "raise": "raise RuntimeError('injected')",
    "zerodiv": "1/0",
    "name": "undefined_name_c16",
    "import": "import nonexistent_module_c16",
    "classbody": "class _Boom:\n    x = 1/0",
    "sysexit": "raise SystemExit(3)",
    "kbint": "raise KeyboardInterrupt()",
    "call": "def _boom():\n    raise ValueError('injected')\n_boom()",
}


def source(stmts, fail=None):
    """Join statements; `fail` = {"at": i, "kind": k} inserts a failing statement before statement i."""
    stmts = list(stmts)
    if fail is not None:
        if fail["kind"] == "syntax":
            stmts.insert(min(fail["at"], len(stmts)), "def (:")
        else:
            stmts.insert(min(fail["at"], len(stmts)), INJECT[fail["kind"]])
    return "\n".join(stmts) + "\n"


def gen_version(rng, size):
    items = []
    for _ in range(size):
        items.append(gen_item(rng, items))
    return fixup(items)


def _rename_scope(items, idx, new):
    """rename a decorator / closure factory and every later reference to it: the functions it produces keep their own
    name, closure shape and the module-level names bound to them (only their __qualname__ changes)"""
    old = items[idx]["name"]
    if any(it["name"] == new for it in items):
        return
    items[idx]["name"] = new
    for it in items[idx + 1:]:
        if it["name"] == old and it["k"] in ("deco", "factory"):
            break
        if it["k"] == "func" and it.get("deco") == old:
            it["deco"] = new
        if it["k"] == "closure" and it.get("factory") == old:
            it["factory"] = new


def mutate(rng, items):
    """Derive a new version: 1-3 edits."""
    items = copy.deepcopy(items)
    for it in items:
        it.pop("_arg_ok", None)
    for _ in range(rng.choice([1, 1, 2, 3])):
        if not items:
            items.append(gen_item(rng, items))
            continue
        r = rng.random()
        idx = rng.randrange(len(items))
        it = items[idx]
        if r < 0.10:
            del items[idx]
        elif r < 0.22:
            pos = rng.randint(0, len(items))
            items.insert(pos, gen_item(rng, items[:pos]))
        elif r < 0.28 and not it["name"].startswith("__"):
            # replace by an item of a (probably) different kind under the same name
            items[idx] = gen_item(rng, items[:idx], name=it["name"])
        elif r < 0.31 and len(items) > 1:
            j = rng.randrange(len(items))
            items[idx], items[j] = items[j], items[idx]
        else:
            k = it["k"]
            if k == "data" and it["name"].startswith("__"):
                it["val"] = (rng.choice(["['f']", "['f', 'g']", "['X']", "[]"]) if it["name"] == "__all__"
                             else rng.choice(["'1.0'", "'2.0'", "'me'"]))
            elif k == "data" and it.get("ann"):
                if rng.random() < 0.5:
                    it["val"] = rng.choice(["1", "2", "3"])
                else:
                    it["ann"] = rng.choice([None, "int", "object", "str"])
            elif k == "data":
                it["val"] = rng.choice(LITS)
                if rng.random() < 0.1 and it["val"].isdigit():
                    it["ann"] = "int"
            elif k == "pep562":
                it["c"] = rng.choice(INTS)
            elif k == "metacls":
                it["c"] = rng.choice(INTS)
            elif k == "odc":
                w = rng.random()
                if w < 0.5:
                    it["v"] = rng.choice(INTS)
                elif w < 0.8:
                    it["c"] = rng.choice(INTS)
                else:
                    it["ty"] = rng.choice(REG_TYPES)
            elif k == "bmc":
                it["c"] = rng.choice(INTS)
            elif k == "moody":
                it[rng.choice(["v", "c"])] = rng.choice(INTS)
            elif k == "ecell":
                if rng.random() < 0.8:
                    it["c"] = rng.choice(INTS)
                else:
                    it["how"] = rng.choice(["except", "del", "filled"])
            elif k == "oddslots":
                # mostly the method changes (class patched in place); the instance state only sometimes: the instance
                # side of literally-read __slots__ is the listed finding D50
                w = rng.random()
                if w < 0.75:
                    it["c"] = rng.choice(INTS)
                elif w < 0.9:
                    it["v"] = rng.choice(INTS)
                else:
                    it["form"] = rng.choice(["str", "mangled", "both"])
            elif k == "modhook":
                it["hook"] = rng.choice(["plain", "varkw", "first", "extra", "order"])
            elif k == "func" and rng.random() < 0.06:
                it["hook"] = rng.choice([None] + sorted(HOOKS))
                it["hookname"] = rng.choice(HOOK_NAMES)
            elif k == "class" and (len(it["bases"]) == 2 or (it.get("xb") and it["bases"])) and rng.random() < 0.3:
                # pure reordering of the bases: same set of base classes, other method resolution order
                if len(it["bases"]) == 2 and (not it.get("xb") or rng.random() < 0.5):
                    it["bases"] = it["bases"][::-1]
                else:
                    it["xb"] = "last" if it["xb"] == "first" else "first"
            elif k == "class" and rng.random() < 0.06:
                it["hook"] = rng.choice([None, "plain", "varkw", "first", "extra", "order", "cm"])
                it["hookname"] = rng.choice(HOOK_NAMES)
            elif k == "func":
                w = rng.random()
                if w < 0.4:
                    it["c"] = rng.choice(INTS)
                elif w < 0.50:
                    it["dflt"] = rng.choice([None, 4, 6, 8])
                elif w < 0.55:
                    it["kw"] = rng.choice([None] + INTS)
                elif w < 0.65:
                    it["np"] = 3 - it["np"]
                elif w < 0.75:
                    it["doc"] = rng.choice([None, "doc one", "doc two"])
                elif w < 0.85:
                    it["attrs"] = rng.choice([{}, {"tag": "1"}, {"tag": "2"}, {"other": "3"}])
                elif w < 0.93:
                    decos = _defined(items, idx, ("deco",))
                    it["deco"] = rng.choice(decos + [None]) if decos else None
                else:
                    datas = _defined(items, idx, ("data",))
                    it["reads"] = [rng.choice(datas)] if datas else []
            elif k in ("deco", "factory") and rng.random() < 0.2:
                _rename_scope(items, idx, {"deco": "deco2", "deco2": "deco", "mk": "mk2", "mk2": "mk"}.get(it["name"], it["name"] + "2"))
            elif k == "deco":
                if rng.random() < 0.6:
                    it["c"] = rng.choice(INTS)
                else:
                    it["cell"] = not it["cell"]
            elif k == "factory":
                w = rng.random()
                if w < 0.5:
                    it["c"] = rng.choice(INTS)
                elif w < 0.65:
                    it["ncells"] = 3 - it["ncells"]
                elif w < 0.75:
                    it["inner"] = rng.choice(["inner", "inner2"])
                else:
                    it["pn"] = "r" if (it.get("pn") or "p") == "p" else "p"
            elif k == "closure":
                it["args"] = [rng.choice(INTS), rng.choice(INTS)]
            elif k == "hof":
                if rng.random() < 0.6:
                    it["c"] = rng.choice(INTS)
                else:
                    pool = _defined(items, idx, ("func", "lambda", "data"))
                    if pool:
                        it["target"] = rng.choice(pool)
            elif k == "lambda":
                it["c"] = rng.choice(INTS)
            elif k == "import":
                it["stmt"] = rng.choice(EXT_IMPORTS)
            elif k == "class":
                w = rng.random()
                if w < 0.30 and it["methods"]:
                    rng.choice(it["methods"])["c"] = rng.choice(INTS)
                elif w < 0.42:
                    mn = rng.choice(MN)
                    if all(m["name"] != mn for m in it["methods"]):
                        it["methods"].append(dict(name=mn, kind=rng.choice(["plain", "static", "class", "prop"]),
                                                  c=rng.choice(INTS), super=False))
                elif w < 0.52 and it["methods"]:
                    it["methods"].pop(rng.randrange(len(it["methods"])))
                elif w < 0.62 and it["methods"]:
                    rng.choice(it["methods"])["kind"] = rng.choice(["plain", "static", "class", "prop"])
                elif w < 0.72:
                    it["attrs"] = rng.choice([{}, {"K": "1"}, {"K": "2"}, {"L": "'z'"}])
                elif w < 0.82:
                    classes = [c for c in _defined(items, idx, ("class",)) if c != it["name"]]
                    it["bases"] = [rng.choice(classes)] if classes and rng.random() < 0.7 else []
                elif w < 0.90:
                    it["slots"] = rng.choice([None, ["v"], ["v", "u"], ["w"]])
                elif w < 0.93:
                    it["init"] = not it["init"]
                elif w < 0.96:
                    it["meta"] = rng.choice([None, "abc", "enum", "custom"])
                    it["metaname"] = "Meta"
                elif w < 0.98 and it["methods"]:
                    mm = rng.choice(it["methods"])
                    mm["cc"] = not mm.get("cc")
                else:
                    it["doc"] = rng.choice([None, "cdoc", "cdoc2"])
            elif k == "inst":
                w = rng.random()
                if w < 0.4:
                    it["arg"] = rng.choice(INTS)
                elif w < 0.55:
                    it["extra"] = rng.choice([{}, {"e": "1"}, {"e": "2"}, {"e2": "5"}])
                elif w < 0.85:
                    # which slots are set on the instance (fixup drops the ones the class does not declare)
                    ss = dict(it.get("sset") or {})
                    sn = rng.choice(["u", "u", "w"])
                    if sn in ss and rng.random() < 0.5:
                        del ss[sn]
                    else:
                        ss[sn] = rng.choice(["4", "5", "'z'"])
                    it["sset"] = ss
                else:
                    classes = _defined(items, idx, ("class",))
                    if classes:
                        it["cls"] = rng.choice(classes)
            elif k == "alias":
                pool = _defined(items, idx, ("func", "lambda", "class"))
                if pool:
                    it["target"] = rng.choice(pool)
            elif k == "container" and it["form"] == "table":
                pool = _defined(items, idx, ("func", "lambda", "class"))
                if rng.random() < 0.5 and pool:
                    it["elems"] = [rng.choice(pool) for _ in it["keys"]]
                else:
                    ne = rng.choice([2, 3, 4])
                    it["keys"] = rng.sample(TABLE_KEYS, ne)
                    it["elems"] = [rng.choice(pool) for _ in range(ne)] if pool else []
            elif k == "container":
                pool = _defined(items, idx, ("func", "lambda", "class", "data"))
                if pool:
                    it["elems"] = [rng.choice(pool) for _ in range(rng.choice([1, 2]))]
                it["form"] = rng.choice(["list", "dict", "tuple"])
    return fixup(items)


FAIL_KINDS = ["raise", "raise", "zerodiv", "name", "import", "classbody", "sysexit", "kbint", "call", "syntax"]


def _cls(name, bases, methods, **kw):
    it = dict(k="class", name=name, bases=list(bases), slots=None, attrs={}, meta=None, metaname=None, init=False,
              methods=methods, doc=None, hook=None, hookname="__livepatch__", xb=None)
    it.update(kw)
    return it


def gen_mro_pair(rng):
    """a class with two bases (in-module, optionally one of another module) that define the same method, a subclass and
    live instances; the new version only *reorders* the bases (other method resolution order), plus at most one more edit"""
    mn = rng.choice(MN)
    meth = lambda c: dict(name=mn, kind="plain", c=c, super=False, cc=False)
    c1, c2 = rng.sample(INTS, 2)
    b1, b2, dn, en = rng.sample(CN, 4)
    items = [gen_item(rng, []) for _ in range(rng.choice([0, 0, 1]))]
    items.append(_cls(b1, [], [meth(c1)] + ([dict(name="p", kind="static", c=3, super=False, cc=False)] if mn != "p" and rng.random() < 0.3 else []),
                      attrs={"K": "1"} if rng.random() < 0.4 else {}))
    xb = None
    if rng.random() < 0.35:
        # the second base belongs to another module (c16ext_a.Ext defines m)
        mn2 = "m"
        items[-1]["methods"] = [dict(name="m", kind="plain", c=c1, super=False, cc=False)]
        xb = rng.choice(["first", "last"])
        bases = [b1]
    else:
        items.append(_cls(b2, [], [meth(c2)], attrs={"K": "2"} if rng.random() < 0.4 else {}))
        bases = [b1, b2]
    own = [dict(name=rng.choice([x for x in MN if x != mn and x != "m"]), kind=rng.choice(["plain", "class", "static"]),
                c=rng.choice(INTS), super=False, cc=False)] if rng.random() < 0.6 else []
    items.append(_cls(dn, bases, own, xb=xb, meta=rng.choice([None, None, None, "abc"])))
    if rng.random() < 0.6:
        items.append(_cls(en, [dn], []))
        if rng.random() < 0.7:
            items.append(dict(k="inst", name="i2", cls=en, arg=None, extra={}, sset={}))
    if rng.random() < 0.8:
        items.append(dict(k="inst", name="i1", cls=dn, arg=None, extra={"e": "1"} if rng.random() < 0.3 else {}, sset={}))
    if rng.random() < 0.3:
        items.append(dict(k="alias", name="al", target=dn))
    old = fixup(items)
    new = copy.deepcopy(old)
    for it in new:
        it.pop("_arg_ok", None)
        if it["k"] == "class" and it["name"] == dn:
            if it.get("xb"):
                it["xb"] = "last" if it["xb"] == "first" else "first"
            else:
                it["bases"] = it["bases"][::-1]
    if rng.random() < 0.35:
        new = mutate(rng, new)
    return old, fixup(new)


def gen_case(rng, tier="quick"):
    size = rng.choice([1, 2, 3, 4, 6, 8])
    if rng.random() < 0.04:
        old, new = gen_mro_pair(rng)
    else:
        old = gen_version(rng, size)
        tries = 0
        while not old and tries < 5:
            old = gen_version(rng, size + 1)
            tries += 1
        new = mutate(rng, old)
    case = dict(old=render(old), new=render(new), fail=None, via=rng.choice(["module", "module", "name", "path"]))
    # the other documented ways to name what is to be reloaded: xreload() (every modified module), xreload([m]),
    # xreload("name.py"), xreload("/path/name.pyc")
    u = rng.random()
    if u < 0.16:
        case["via"] = ["all", "list", "basename", "pyc"][int(u / 0.04)]
    elif u < 0.20:
        case["via"] = "module"
        case["unreg"] = True          # the module object is alive but no longer registered in sys.modules
    if rng.random() < 0.10:
        # the module is a package (name/__init__.py with submodules, see PKG_SUBMODULES); relative imports
        case["pkg"] = True
        if rng.random() < 0.6:
            case["old"].insert(rng.randint(0, len(case["old"])), rng.choice(REL_IMPORTS))
        if rng.random() < 0.8:
            case["new"].insert(rng.randint(0, len(case["new"])), rng.choice(REL_IMPORTS))
    # how the file's mtime of the tested edit relates to the module's load time (set with os.utime by the harness):
    # "newer" | "equal" (only meaningful after a preceding reload: loadtime = mtime of the previous edit) | "older"
    r = rng.random()
    case["rel"] = "newer" if r < 0.78 else ("equal" if r < 0.92 else "older")
    if rng.random() < 0.12 or case["rel"] == "equal":
        pre = mutate(rng, old)
        case["pre"] = render(pre)
        if rng.random() < 0.3:
            case["pre0"] = render(mutate(rng, pre))      # a chain of three reloads
            case["pre_rel"] = rng.choice(["newer", "newer", "equal"])
    if rng.random() < 0.35:
        case["fail"] = dict(at=rng.randint(0, len(case["new"])), kind=rng.choice(FAIL_KINDS))
    case["items"] = dict(old=old, new=new)
    if any(has_hooks(case.get(k) or []) for k in ("old", "new", "pre", "pre0")):
        case["hooks"] = "transparent"     # every generated hook does what the standard livepatch does (see HOOKS)
    return case
