"""
vcommon — shared machinery for the per-property checks (see DESIGN.md section 2).

A property module (harness/cNN.py) defines a subclass of `Prop`; `run_check`
drives: Lean build + axiom audit (T), corpus + generated cases through the real
pyflyby (implementation), the Lean model via the line protocol (K) and the
direct oracle (O); known findings; verdict; evidence; replay.
"""
from __future__ import annotations

import ast
import hashlib
import json
import multiprocessing
import os
import random
import re
import shutil
import subprocess
import sys
import tempfile
import time
import traceback

VERIF = os.path.dirname(os.path.dirname(os.path.abspath(__file__)))
LEAN_DIR = os.path.join(VERIF, "lean")
REPO = os.environ.get("VERIF_REPO", "/repo")
GUARD = "DESHAW_PYFLYBY_VERIF"

ALLOWED_AXIOMS = {"propext", "Classical.choice", "Quot.sound"}
BANNED = re.compile(
    r"\b(sorry|admit|native_decide|bv_decide|implemented_by)\b|^\s*axiom\s|\bunsafe\s|maxHeartbeats\s+0\b")


def setup_repo_path():
    """Make `import pyflyby` resolve to $VERIF_REPO/lib/python (default /repo)."""
    p = os.path.join(REPO, "lib", "python")
    if sys.path[0] != p:
        sys.path.insert(0, p)
    os.environ[GUARD] = "1"
    for m in list(sys.modules):
        if m == "pyflyby" or m.startswith("pyflyby."):
            f = getattr(sys.modules[m], "__file__", "") or ""
            if not f.startswith(p):
                del sys.modules[m]
    import pyflyby  # noqa
    f = os.path.realpath(pyflyby.__file__)
    assert f.startswith(os.path.realpath(p)), (f, p)
    # quiet logger
    try:
        from pyflyby._log import logger
        logger.set_level(100)
    except Exception:
        pass
    os.environ.setdefault("PYFLYBY_PATH", "EMPTY")
    os.environ.setdefault("PYFLYBY_LOG_LEVEL", "ERROR")


# ----------------------------------------------------------------------------
# Lean side
# ----------------------------------------------------------------------------

def _run(cmd, cwd=None, timeout=None, input=None):
    return subprocess.run(cmd, cwd=cwd, timeout=timeout, input=input,
                          stdout=subprocess.PIPE, stderr=subprocess.STDOUT, text=True)


def strip_lean_comments(src: str) -> str:
    # remove /- ... -/ (nested) and -- ... comments
    out = []
    i, n, depth = 0, len(src), 0
    while i < n:
        if src.startswith("/-", i):
            depth += 1
            i += 2
            continue
        if depth and src.startswith("-/", i):
            depth -= 1
            i += 2
            continue
        if depth:
            if src[i] == "\n":
                out.append("\n")
            i += 1
            continue
        if src.startswith("--", i):
            while i < n and src[i] != "\n":
                i += 1
            continue
        out.append(src[i])
        i += 1
    return "".join(out)


def lean_module_files(modules):
    """Transitive closure of the Pfb.* modules imported by `modules`."""
    seen, todo = {}, list(modules)
    while todo:
        m = todo.pop()
        if m in seen or not m.startswith("Pfb"):
            continue
        path = os.path.join(LEAN_DIR, *m.split(".")) + ".lean"
        if not os.path.exists(path):
            seen[m] = None
            continue
        seen[m] = path
        for line in open(path):
            mm = re.match(r"\s*import\s+([\w.]+)", line)
            if mm:
                todo.append(mm.group(1))
    return seen


def driver_imports(driver):
    """Pfb.* modules imported by Driver/<driver>.lean: they must be built before `lean --run`."""
    if not driver:
        return []
    path = os.path.join(LEAN_DIR, "Driver", driver + ".lean")
    out = []
    if os.path.exists(path):
        for line in open(path):
            mm = re.match(r"\s*import\s+(Pfb[\w.]*)", line)
            if mm:
                out.append(mm.group(1))
    return out


def lean_build_and_audit(prop_id, modules, theorems, clean=False, leanchecker=False, extra_build=()):
    """
    Returns dict(ok, obligations, discharged, problems[], axioms{thm: [...]}).
    A problem never is a verdict by itself (see run_check).
    """
    res = dict(ok=True, obligations=len(theorems), discharged=0, problems=[], axioms={},
               modules=list(modules))
    if clean:
        shutil.rmtree(os.path.join(LEAN_DIR, ".lake", "build"), ignore_errors=True)
    t0 = time.time()
    try:
        p = _run(["lake", "build"] + list(modules) + [m for m in extra_build if m not in modules],
                 cwd=LEAN_DIR, timeout=1500)
    except subprocess.TimeoutExpired:
        res["ok"] = False
        res["problems"].append("lake build timed out")
        return res
    res["build_s"] = round(time.time() - t0, 2)
    if p.returncode != 0:
        res["ok"] = False
        errs = [l for l in p.stdout.splitlines() if "error" in l][:10]
        res["problems"].append("lake build failed: " + " | ".join(errs))
        return res
    # banned tokens
    files = lean_module_files(modules)
    for m, path in files.items():
        if path is None:
            continue
        src = strip_lean_comments(open(path).read())
        for ln, line in enumerate(src.splitlines(), 1):
            if BANNED.search(line):
                res["ok"] = False
                res["problems"].append(f"banned token in {m}:{ln}: {line.strip()[:80]}")
    # axiom audit
    with tempfile.NamedTemporaryFile("w", suffix=".lean", dir=LEAN_DIR, delete=False) as f:
        for m in modules:
            f.write(f"import {m}\n")
        for th in theorems:
            f.write(f"#print axioms {th}\n")
        audit = f.name
    try:
        p = _run(["lake", "env", "lean", audit], cwd=LEAN_DIR, timeout=600)
    finally:
        os.unlink(audit)
    out = p.stdout
    # parse: "'X' depends on axioms: [a, b]" / "'X' does not depend on any axioms"
    flat = re.sub(r"\s+", " ", out)
    for th in theorems:
        m1 = re.search(r"'" + re.escape(th) + r"' depends on axioms: \[([^\]]*)\]", flat)
        m2 = re.search(r"'" + re.escape(th) + r"' does not depend on any axioms", flat)
        if m1:
            ax = [a.strip() for a in m1.group(1).split(",") if a.strip()]
        elif m2:
            ax = []
        else:
            res["ok"] = False
            res["problems"].append(f"theorem {th} missing or audit failed")
            continue
        res["axioms"][th] = ax
        bad = [a for a in ax if a not in ALLOWED_AXIOMS]
        if bad:
            res["ok"] = False
            res["problems"].append(f"theorem {th} depends on disallowed axioms {bad}")
        else:
            res["discharged"] += 1
    if p.returncode != 0 and res["ok"]:
        res["ok"] = False
        res["problems"].append("audit file failed: " + out[:300])
    if leanchecker and res["ok"]:
        t1 = time.time()
        try:
            p = _run(["lake", "env", "leanchecker"] + list(modules), cwd=LEAN_DIR, timeout=1500)
            res["leanchecker_s"] = round(time.time() - t1, 1)
            res["leanchecker_rc"] = p.returncode
            if p.returncode != 0:
                res["ok"] = False
                res["problems"].append("leanchecker failed: " + p.stdout[-300:])
        except subprocess.TimeoutExpired:
            res["leanchecker_rc"] = "timeout"
    return res


def lean_batch(driver, requests, timeout=900):
    """
    Send `requests` (list of dicts; 'id' is assigned here) to Driver/<driver>.lean,
    return list of response dicts in order.
    """
    if not requests:
        return []
    lines = []
    for i, r in enumerate(requests):
        r = dict(r)
        r["id"] = i
        lines.append(json.dumps(r, ensure_ascii=True))
    data = "\n".join(lines) + "\n"
    p = subprocess.run(["lake", "env", "lean", "--run", f"Driver/{driver}.lean"], cwd=LEAN_DIR,
                       input=data, stdout=subprocess.PIPE, stderr=subprocess.PIPE, text=True,
                       timeout=timeout)
    outs = [l for l in p.stdout.split("\n") if l.strip()]
    if p.returncode != 0 or len(outs) != len(requests):
        raise RuntimeError(f"lean driver {driver} failed rc={p.returncode} got {len(outs)}/{len(requests)} lines: "
                           + p.stderr[-500:] + p.stdout[-300:])
    resps = [json.loads(l) for l in outs]
    for i, r in enumerate(resps):
        if r.get("id") != i:
            raise RuntimeError(f"lean driver {driver}: out-of-order response {r.get('id')} != {i}")
        if "fatal" in r:
            raise RuntimeError(f"lean driver {driver}: fatal on request {requests[i]!r}: {r['fatal']}")
    return resps


# ----------------------------------------------------------------------------
# Fingerprints of anchored functions
# ----------------------------------------------------------------------------

def fingerprint(anchors):
    """anchors: list of (relative file, qualified name or None).  sha256(ast.dump)."""
    out = {}
    for rel, qual in anchors:
        path = os.path.join(REPO, rel)
        key = f"{rel}::{qual}" if qual else rel
        try:
            src = open(path).read()
            if qual is None or not rel.endswith(".py"):
                out[key] = hashlib.sha256(src.encode()).hexdigest()[:16]
                continue
            tree = ast.parse(src)
            node = tree
            for part in qual.split("."):
                for ch in ast.iter_child_nodes(node):
                    if isinstance(ch, (ast.FunctionDef, ast.ClassDef, ast.AsyncFunctionDef)) and ch.name == part:
                        node = ch
                        break
                else:
                    node = None
                    break
            out[key] = hashlib.sha256(ast.dump(node).encode()).hexdigest()[:16] if node is not None else "missing"
        except Exception as e:  # pragma: no cover
            out[key] = "error:" + type(e).__name__
    return out


def load_lock():
    p = os.path.join(VERIF, "anchors.lock.json")
    if os.path.exists(p):
        return json.load(open(p))
    return {}


# ----------------------------------------------------------------------------
# Property interface
# ----------------------------------------------------------------------------

class Prop:
    id = "C00"
    driver = None            # Driver/<driver>.lean
    lean_modules = []        # e.g. ["Pfb.C10.Props"]
    theorems = []            # fully qualified names, audited
    anchors = []             # [(file, qualname)]
    quick_cases = 1000
    thorough_cases = 20000
    quick_deadline_s = 60
    thorough_deadline_s = 600
    parallel = True
    trusted_base = []
    assumptions = []
    rule = ""
    families = {}            # name -> predicate(case, failure) -> bool

    # -- to override ---------------------------------------------------------
    def setup(self, tier, rng):
        pass

    def teardown(self):
        pass

    def gen_case(self, rng, i, tier):
        raise NotImplementedError

    def exhaustive_cases(self, tier, rng):
        return []

    def run_impl(self, case):
        """Run the real code; return JSON-serialisable canonical observation."""
        raise NotImplementedError

    def oracle(self, case, obs):
        """Model-independent evaluation of the property on the real code.
        Return list of failure dicts {'what':..., ...} (empty = held)."""
        return []

    def model_requests(self, case, obs):
        return []

    def compare(self, case, obs, resps):
        """Return None if model and implementation agree, else a description."""
        return None

    def nontrivial_key(self, case, obs):
        """Return a hashable key if the case is non-trivial, else None."""
        return json.dumps(case, sort_keys=True, default=str)

    def sample_repr(self, case, obs):
        return case

    def stats(self, case, obs, acc):
        pass


_WORKER_HISTORY = []     # the cases this process ran before (a failure may need state an earlier call left behind)


def _worker(args):
    prop, case = args
    try:
        obs = prop.run_impl(case)
        fails = prop.oracle(case, obs)
        if fails and _WORKER_HISTORY:
            for f in fails:
                if isinstance(f, dict):
                    f.setdefault("_history", list(_WORKER_HISTORY[-40:]))
        _WORKER_HISTORY.append(case)
        del _WORKER_HISTORY[:-40]
        return (obs, fails, None)
    except Exception as e:  # harness problem, not a verdict
        return (None, [], "harness exception: " + "".join(traceback.format_exception_only(type(e), e)).strip()
                + " @ " + traceback.format_exc()[-600:])


_POOL_PROP = None


def _pool_worker(chunk):
    return [_worker((_POOL_PROP, case)) for case in chunk]


def load_known_findings(prop_id):
    """known_findings/<Cxx>.json: committed, never written at run time."""
    p = os.path.join(VERIF, "known_findings", prop_id + ".json")
    if not os.path.exists(p):
        return []
    return [e for e in json.load(open(p)) if e.get("property") == prop_id]


def load_corpus(prop_id):
    d = os.path.join(VERIF, "corpus", prop_id)
    out = []
    if os.path.isdir(d):
        for f in sorted(os.listdir(d)):
            if f.endswith(".json"):
                try:
                    j = json.load(open(os.path.join(d, f)))
                    if isinstance(j, list):
                        out.extend(j)
                    else:
                        out.append(j)
                except Exception:
                    pass
    return out


def write_evidence(prop, tier, seed, coverage, wall, violations, assumptions):
    if os.path.realpath(REPO) != "/repo":
        # a development run against a scratch copy (VERIF_REPO, used by harness/selftest.py): the evidence kept in
        # /verif/evidence describes runs against /repo only
        return
    os.makedirs(os.path.join(VERIF, "evidence"), exist_ok=True)
    ev = dict(property_id=prop.id, tier=tier, seed=seed, level="proof", coverage=coverage,
              assumptions=assumptions, wall_s=round(wall, 2), violations=violations)
    tmp = os.path.join(VERIF, "evidence", prop.id + ".json.tmp")
    with open(tmp, "w") as f:
        json.dump(ev, f, indent=1, sort_keys=True, default=str)
    os.replace(tmp, os.path.join(VERIF, "evidence", prop.id + ".json"))


def write_replay(prop_id, seed, payload):
    d = os.path.join(VERIF, "replays")
    os.makedirs(d, exist_ok=True)
    path = os.path.join(d, f"{prop_id}-{seed}.json")
    with open(path, "w") as f:
        json.dump(payload, f, indent=1, default=str)
    return os.path.relpath(path, VERIF)


def match_known(prop, known, case, failure):
    """Return the known-finding entry (status=finding) whose family covers this failure."""
    for e in known:
        if e.get("status") != "finding":
            continue
        fam = prop.families.get(e.get("family"))
        if fam is None:
            continue
        try:
            if fam(case, failure):
                return e
        except Exception:
            continue
    return None


def run_check(prop: Prop, tier="quick", replay=None):
    """Returns process exit code."""
    t_start = time.time()
    seed = int(os.environ.get("VERIF_SEED", "0") or 0)
    rng = random.Random(f"{seed}:{prop.id}")
    setup_repo_path()

    if replay:
        return run_replay(prop, replay)

    # ---- T: proofs ---------------------------------------------------------
    thorough = tier == "thorough"
    T = lean_build_and_audit(prop.id, prop.lean_modules + [], prop.theorems,
                             clean=False, leanchecker=thorough, extra_build=driver_imports(prop.driver))
    # ---- fingerprints -------------------------------------------------------
    fp = fingerprint(prop.anchors)
    lock = load_lock().get(prop.id, {})
    changed = sorted(k for k in fp if lock.get(k) not in (None, fp[k]))
    n_cases = prop.thorough_cases if thorough else prop.quick_cases
    deadline_s = prop.thorough_deadline_s if thorough else prop.quick_deadline_s
    if changed and not thorough:
        n_cases *= 4
        deadline_s *= 2
    if not T["ok"]:
        n_cases *= 3

    prop.setup(tier, rng)
    try:
        rc = _run_cases(prop, tier, seed, rng, T, fp, changed, n_cases, deadline_s, t_start)
    finally:
        prop.teardown()
    return rc


def _hard_stop(pool):
    """Pool.terminate() can block for ever when a worker is stuck writing a large result into a full pipe (seen under
    heavy machine load): run it in a watchdog thread and kill the workers if it does not return."""
    import threading
    t = threading.Thread(target=pool.terminate, daemon=True)
    t.start()
    t.join(8)
    if t.is_alive():
        for p in list(getattr(pool, "_pool", []) or []):
            try:
                p.kill()
            except Exception:
                pass
        t.join(10)


def _map_cases(prop, cases, deadline):
    """Yield (case, obs, fails, harness_err) for each case, in order; stops at deadline."""
    global _POOL_PROP
    if prop.parallel and len(cases) > 32:
        _POOL_PROP = prop
        ctx = multiprocessing.get_context("fork")
        nproc = min(16, os.cpu_count() or 4)
        pool = ctx.Pool(nproc)
        try:
            chunk = max(1, min(32, len(cases) // (nproc * 4)))
            chunks = [cases[i:i + chunk] for i in range(0, len(cases), chunk)]
            it = pool.imap(_pool_worker, chunks, chunksize=1)
            for ch in chunks:
                try:
                    res = it.next(timeout=max(5.0, deadline - time.time() + 60))
                except multiprocessing.TimeoutError:
                    return
                for case, (obs, fails, herr) in zip(ch, res):
                    yield case, obs, fails, herr
                if time.time() > deadline:
                    return
        finally:
            _hard_stop(pool)
    else:
        for case in cases:
            obs, fails, herr = _worker((prop, case))
            yield case, obs, fails, herr
            if time.time() > deadline:
                return


def _run_cases(prop, tier, seed, rng, T, fp, changed, n_cases, deadline_s, t_start):
    known = load_known_findings(prop.id)
    corpus = load_corpus(prop.id)
    deadline = time.time() + deadline_s

    cases = []
    cases.extend(dict(c, _src="corpus") for c in corpus)
    ex = list(prop.exhaustive_cases(tier, rng))
    cases.extend(dict(c, _src="exhaustive") for c in ex)
    for i in range(n_cases):
        c = prop.gen_case(rng, i, tier)
        if c is not None:
            cases.append(dict(c, _src="gen"))

    harness_errors = []
    violations = []        # (case, failure)
    known_hits = {}        # id -> count
    results = []
    nontrivial = set()
    stats = {}
    for case, obs, fails, herr in _map_cases(prop, cases, deadline):
        if herr:
            harness_errors.append((case, herr))
            continue
        results.append((case, obs))
        try:
            k = prop.nontrivial_key(case, obs)
            if k is not None:
                nontrivial.add(hashlib.sha1(str(k).encode()).hexdigest())
            prop.stats(case, obs, stats)
        except Exception:
            pass
        for fl in fails:
            e = match_known(prop, known, case, fl)
            if e is not None:
                known_hits[e["id"]] = known_hits.get(e["id"], 0) + 1
            else:
                violations.append((case, fl))
    truncated = len(results) + len(harness_errors) < len(cases)

    # ---- K: correspondence --------------------------------------------------
    disagreements = []
    k_checked = 0
    k_error = None
    if prop.driver:
        reqs, spans = [], []
        for case, obs in results:
            rs = prop.model_requests(case, obs)
            spans.append((len(reqs), len(reqs) + len(rs)))
            reqs.extend(rs)
        try:
            resps = lean_batch(prop.driver, reqs)
            for (case, obs), (a, b) in zip(results, spans):
                if a == b:
                    continue
                k_checked += 1
                d = prop.compare(case, obs, resps[a:b])
                if d is not None:
                    disagreements.append((case, d))
        except Exception as e:
            k_error = str(e)[:800]

    # ---- known findings replay ---------------------------------------------
    kf_lines = []
    for e in known:
        w = e.get("witness")
        if w is None:
            continue
        obs, fails, herr = _worker((prop, dict(w, _src="known")))
        if herr:
            harness_errors.append((w, herr))
            continue
        if e.get("status") == "finding":
            mine = [fl for fl in fails if match_known(prop, [e], w, fl) is not None]
            if mine:
                kf_lines.append(f"KNOWN-FINDING: property={prop.id} {e['id']}: {e['what']}")
            other = [fl for fl in fails if match_known(prop, known, w, fl) is None]
            for fl in other:
                violations.append((w, fl))
        else:  # fixed: must pass
            for fl in fails:
                if match_known(prop, known, w, fl) is None:
                    violations.append((w, dict(fl, returned=e["id"])))

    # ---- search when T or K is broken ---------------------------------------
    broken = []
    if not T["ok"]:
        broken.append("proof: " + "; ".join(T["problems"])[:600])
    if k_error:
        broken.append("correspondence driver error: " + k_error)
    if disagreements:
        broken.append(f"correspondence: {len(disagreements)} disagreement(s) between Lean model and implementation")
    extra_search = 0
    if broken and not violations:
        # failing-input search: fresh O-only budget, biased by the property module if it wants
        budget = max(2000, 5 * n_cases)
        sdeadline = time.time() + (240 if tier == "thorough" else 75)
        srng = random.Random(f"{seed}:{prop.id}:search")
        scases = []
        if hasattr(prop, "search_cases"):
            scases.extend(prop.search_cases(srng, [c for c, _ in disagreements], budget))
        while len(scases) < budget:
            c = prop.gen_case(srng, len(scases), "search")
            if c is not None:
                scases.append(dict(c, _src="search"))
            else:
                scases.append(None)
        scases = [c for c in scases if c is not None]
        for case, obs, fails, herr in _map_cases(prop, scases, sdeadline):
            extra_search += 1
            for fl in fails:
                if match_known(prop, known, case, fl) is None:
                    violations.append((case, fl))
            if violations:
                break

    # ---- verdict ------------------------------------------------------------
    wall = time.time() - t_start
    samples = []
    for case, obs in results[:: max(1, len(results) // 5)][:5]:
        try:
            samples.append(prop.sample_repr(case, obs))
        except Exception:
            samples.append(case)
    samples.extend({"obligation": th, "axioms": T["axioms"].get(th)} for th in prop.theorems[:3])
    coverage = dict(
        obligations=T["obligations"], discharged=T["discharged"],
        checker_cmd=f"cd lean && lake build {' '.join(prop.lean_modules)} && lake env lean <audit: #print axioms per obligation>"
                    + (" && lake env leanchecker " + " ".join(prop.lean_modules) if tier == "thorough" else ""),
        trusted_base=["Lean 4.33.0 kernel", "axioms: propext, Classical.choice, Quot.sound (audited per theorem)",
                      "hand-written Lean model tied to the code by the correspondence check (differential testing)",
                      "Driver/%s.lean JSON glue and harness/%s.py generators/canonicalisers" % (prop.driver, prop.id.lower()),
                      "CPython 3.12 as reference where the oracle says so"] + list(prop.trusted_base),
        theorems=prop.theorems, theorem_axioms=T["axioms"], proof_problems=T["problems"],
        lean_build_s=T.get("build_s"), leanchecker_rc=T.get("leanchecker_rc"),
        evaluations=len(results), distinct_nontrivial=len(nontrivial), rule=prop.rule,
        samples=samples,
        traces_validated_against_impl=k_checked, disagreements_checked=k_checked,
        disagreements=len(disagreements),
        corpus_cases=len(corpus), exhaustive_cases=len(ex), generated_cases=n_cases,
        exhaustive=False, truncated_by_deadline=truncated,
        oracle_failures_unlisted=len(violations), known_finding_hits=known_hits,
        search_cases=extra_search, harness_errors=len(harness_errors),
        harness_error_samples=[h[1][:300] for h in harness_errors[:3]],
        anchors=fp, anchors_changed=changed, distribution=stats, repo=REPO,
    )
    for l in kf_lines:
        print(l)
    rc = 0
    if violations:
        case, fl = violations[0]
        path = write_replay(prop.id, seed, dict(property=prop.id, kind="oracle", case=case, failure=fl,
                                                broken=broken, n_violations=len(violations)))
        print(f"VIOLATION property={prop.id} replay={path}")
        print("  failing input:", json.dumps(fl, default=str)[:400])
        rc = 1
    elif broken:
        payload = dict(property=prop.id, kind="no-failing-input-found", broken=broken,
                       theorems=prop.theorems, proof_problems=T["problems"],
                       disagreements=[dict(case=c, what=d) for c, d in disagreements[:5]])
        path = write_replay(prop.id, seed, payload)
        print(f"VIOLATION property={prop.id} replay={path} no-failing-input-found")
        for b in broken:
            print("  broken:", b[:300])
        rc = 1
    elif harness_errors and len(harness_errors) > max(3, len(cases) // 20):
        print(f"INFRA property={prop.id}: {len(harness_errors)} harness errors, e.g. {harness_errors[0][1][:400]}")
        rc = 2
    elif len(results) == 0:
        print(f"INFRA property={prop.id}: no case evaluated")
        rc = 2
    write_evidence(prop, tier, seed, coverage, wall, len(violations), list(prop.assumptions))
    print(f"{prop.id} tier={tier} seed={seed} cases={len(results)} nontrivial={len(nontrivial)} "
          f"K={k_checked} disagreements={len(disagreements)} T={T['discharged']}/{T['obligations']} "
          f"violations={len(violations)} known={known_hits} wall={wall:.1f}s rc={rc}")
    return rc


def run_replay(prop, path):
    if not os.path.isabs(path):
        path = os.path.join(VERIF, path)
    j = json.load(open(path))
    if j.get("kind") == "no-failing-input-found":
        print("replay: no failing input was found; broken obligations:")
        for b in j.get("broken", []):
            print("  ", b)
        for d in j.get("disagreements", []):
            case = d["case"]
            obs, fails, herr = _worker((prop, case))
            print("  disagreement case:", json.dumps(case)[:300])
            if prop.driver and obs is not None:
                reqs = prop.model_requests(case, obs)
                resps = lean_batch(prop.driver, reqs)
                print("   still disagrees:", prop.compare(case, obs, resps))
        T = lean_build_and_audit(prop.id, prop.lean_modules, prop.theorems)
        print("  proofs now:", "ok" if T["ok"] else T["problems"])
        return 1
    case = j["case"]
    history = (j.get("failure") or {}).get("_history") or []
    prop.setup("quick", random.Random(0))
    try:
        del _WORKER_HISTORY[:]
        obs, fails, herr = _worker((prop, case))
        if not fails and not herr and history:
            # the failure needed what earlier calls in the same process left behind: replay them first, in order
            print("replay: holds on the input alone; replaying the %d cases the failing process ran before it" % len(history))
            for h in history:
                _worker((prop, h))
            obs, fails, herr = _worker((prop, case))
    finally:
        prop.teardown()
    for f in fails or []:
        if isinstance(f, dict):
            f.pop("_history", None)
    if herr:
        print("replay: harness error:", herr)
        return 2
    print("replay case:", json.dumps(case, default=str)[:1000])
    print("observed:", json.dumps(obs, default=str)[:1000])
    known = load_known_findings(prop.id)
    unlisted = []
    for fl in fails:
        e = match_known(prop, known, case, fl)
        if e is not None:
            print(f"KNOWN-FINDING: property={prop.id} {e['id']}: {e['what'][:200]}")
        else:
            unlisted.append(fl)
    if unlisted:
        for fl in unlisted:
            print("FAILS:", json.dumps(fl, default=str)[:600])
        print(f"VIOLATION property={prop.id} replay={os.path.relpath(path, VERIF)}")
        return 1
    print("replay: property holds on this input now" + (" (apart from listed findings)" if fails else ""))
    return 0
