"""C17 — saveframe files hold exactly the selected frames and variables."""
from __future__ import annotations

import hashlib
import json
import os
import pickle
import random
import re
import shutil
import stat
import sys
import tempfile
import traceback

from vcommon import Prop, REPO
import gen_c17

FRAME_FIELDS = ["frame_index", "filename", "lineno", "function_name", "function_qualname", "function_object",
                "module_name", "code", "frame_identifier"]
EXC_FIELDS = ["exception_string", "exception_full_string", "exception_class_name", "exception_class_qualname",
              "exception_object", "traceback"]
NOT_FOUND_MODULE = "Module name not found"


# ----------------------------------------------------------------------------------------
# canonicalisation
# ----------------------------------------------------------------------------------------

def _canon(v, root):
    """Deterministic text for a value: repr without addresses and without the scratch directory."""
    try:
        s = repr(v)
    except Exception as e:  # pragma: no cover
        s = "<repr failed %s>" % type(e).__name__
    s = re.sub(r" at 0x[0-9a-fA-F]+", "", s)
    if root:
        s = s.replace(root, "<ROOT>")
    s = s.replace(REPO, "<REPO>")
    return s[:400]


def _meta_text(v, root):
    """Canonical text of a metadata value: strings as they are, ints in decimal, anything else by repr."""
    if isinstance(v, (bytes, bytearray)):
        return "<unloadable>"
    if isinstance(v, str):
        if v.startswith("Can't unpickle the 'function_object'"):
            return "<unloadable>"
        t = v.replace(root, "<ROOT>") if root else v
        return t.replace(REPO, "<REPO>")
    if isinstance(v, int) and not isinstance(v, bool):
        return str(v)
    return _canon(v, root)


def _sha(b):
    return hashlib.sha1(b).hexdigest()[:16]


HANG_SECONDS = 1.5


class _Hang(BaseException):
    pass


class _deadline:
    """`with _deadline(s)`: raise _Hang in the main thread when the body runs longer than `s` seconds (None: no limit).
    Only armed for cyclic exception chains, where the code as found never returns."""

    def __init__(self, seconds):
        self.seconds = seconds
        self.old = None

    def __enter__(self):
        import signal
        import threading
        if self.seconds and threading.current_thread() is threading.main_thread():
            def on_alarm(signum, frame):
                raise _Hang()
            self.old = signal.signal(signal.SIGALRM, on_alarm)
            signal.setitimer(signal.ITIMER_REAL, self.seconds)
        return self

    def __exit__(self, *a):
        import signal
        if self.old is not None:
            signal.setitimer(signal.ITIMER_REAL, 0)
            signal.signal(signal.SIGALRM, self.old)
        return False


def _safe_str(e):
    try:
        return str(e)
    except Exception:
        return "<no str>"


def classify_error(e):
    """Map an exception of the save path to a small enum (one name per raising branch)."""
    t, m = type(e).__name__, _safe_str(e)
    if isinstance(e, re.error):
        return "regex_error"
    table = [
        ("ValueError", "comma separated string of frames", "frames_comma_str"),
        ("ValueError", "contains character ','", "frames_comma_item"),
        ("ValueError", "the correct syntax is 'first_frame..last_frame'", "frames_too_many_ranges"),
        ("ValueError", "The correct syntax for a frame is", "frame_colon_count"),
        ("ValueError", "must be passed in a frame", "frame_empty_file"),
        ("ValueError", "can't be converted to an integer", "frame_bad_lineno"),
        ("ValueError", "No frame in the traceback matched", "range_no_match"),
        ("ValueError", "Cannot pass both", "both_filters"),
        ("ValueError", "comma separated string of names", "vars_comma_str"),
        ("TypeError", "must be of type list, tuple or string", "vars_type"),
        ("AttributeError", "isidentifier", "vars_item_type"),
        ("IndexError", "", "no_frames"),
    ]
    for tt, sub, name in table:
        if t == tt and sub in m:
            return name
    return "other:" + t


def classify_reader_error(e):
    t, m = type(e).__name__, str(e)
    table = [
        ("ValueError", "Invalid metadata requested", "bad_field"),
        ("ValueError", "'frame_idx' is not supported for querying exception", "idx_for_exception_field"),
        ("TypeError", "'frame_idx' must be of type 'int'", "idx_type"),
        ("ValueError", "Invalid value for 'frame_idx'", "bad_idx"),
        ("TypeError", "Invalid type for variable name", "var_item_type"),
        ("TypeError", "'variables' must either be a string or a list/tuple", "vars_type"),
        ("ValueError", "No 'variables' passed", "no_vars"),
        ("ValueError", "not found in any of the saved frames", "not_found"),
        ("ValueError", "not found in frame", "not_found_in_frame"),
    ]
    for tt, sub, name in table:
        if t == tt and sub in m:
            return name
    return "other:" + t


# ----------------------------------------------------------------------------------------
# the independent view of the live exception (never calls pyflyby)
# ----------------------------------------------------------------------------------------

class Live:
    """Frames of an exception chain, bottom-first, as the interpreter holds them."""

    def __init__(self, exc, root):
        self.exc = exc
        self.root = root
        self.frames = []         # frame objects, bottom-first; chain order: exception, then what Python would display before it
        self.tblines = []
        self.shown = 0           # number of leading frames that belong to the displayed chain
        ids = {}
        e = exc
        guard = set()
        hidden = False
        self.cyclic = False      # the chain comes back to an exception already visited (`raise e from e`)
        while e is not None:
            if id(e) in guard:
                self.cyclic = True
                break
            guard.add(id(e))
            cur = []
            tb = e.__traceback__
            while tb is not None:
                cur.append((tb.tb_frame, tb.tb_lineno))
                tb = tb.tb_next
            cur.reverse()
            for fr, ln in cur:
                self.frames.append(fr)
                self.tblines.append(ln)
            if not hidden:
                self.shown = len(self.frames)
            if e.__cause__ is not None:
                e = e.__cause__
            elif e.__context__ is not None:
                if e.__suppress_context__:
                    hidden = True        # `raise X from None`: Python does not display what follows
                e = e.__context__
            else:
                e = None
        self.fids = []
        for fr in self.frames:
            self.fids.append(ids.setdefault(id(fr), len(ids)))
        # the complete object graph (both links of every exception), for the model
        self.table = {}          # fid -> frame object
        for fr, fid in zip(self.frames, self.fids):
            self.table[fid] = fr
        visiting = set()

        def walk(e, depth):
            if e is not None and id(e) in visiting:
                # a link back to an exception on the current path: the chain ends here (each exception is visited
                # once, as the interpreter displays it).  An exception without frames and without links.
                return dict(tb=[], cause=None, context=None, suppress=False, cut=True)
            if e is None or depth > 12:
                return None
            visiting.add(id(e))
            tbf = []
            tb = e.__traceback__
            while tb is not None:
                fid = ids.setdefault(id(tb.tb_frame), len(ids))
                self.table[fid] = tb.tb_frame
                tbf.append(fid)
                tb = tb.tb_next
            node = dict(tb=tbf, cause=walk(e.__cause__, depth + 1), context=walk(e.__context__, depth + 1),
                        suppress=bool(e.__suppress_context__))
            visiting.discard(id(e))
            return node
        self.graph = walk(exc, 0)
        # the same object graph with links as indices (cycles stay cycles), for the model's walk with a visited set
        order, index = [], {}
        queue = [exc]
        while queue and len(order) < 40:
            e = queue.pop(0)
            if e is None or id(e) in index:
                continue
            index[id(e)] = len(order)
            order.append(e)
            queue += [e.__cause__, e.__context__]
        self.nodes = []
        for e in order:
            tbf = []
            tb = e.__traceback__
            while tb is not None:
                fid = ids.setdefault(id(tb.tb_frame), len(ids))
                self.table[fid] = tb.tb_frame
                tbf.append(fid)
                tb = tb.tb_next
            self.nodes.append(dict(tb=tbf, cause=index.get(id(e.__cause__)) if e.__cause__ is not None else None,
                                   context=index.get(id(e.__context__)) if e.__context__ is not None else None,
                                   suppress=bool(e.__suppress_context__)))
        if any((e.__cause__ is not None and id(e.__cause__) not in index) or
               (e.__context__ is not None and id(e.__context__) not in index) for e in order):
            self.nodes = None        # more than 40 exceptions: not sent

    def describe_table(self):
        return {str(fid): self._describe_frame(fr, fid, None) for fid, fr in sorted(self.table.items())}

    def describe(self):
        return [self._describe_frame(fr, fid, tbl) for fr, fid, tbl in zip(self.frames, self.fids, self.tblines)]

    def _describe_frame(self, fr, fid, tbl):
        out = []
        if True:
            co = fr.f_code
            locs = []
            f_locals = fr.f_locals
            for name in list(f_locals):
                v = f_locals[name]
                try:
                    b = pickle.dumps(v, protocol=5)
                    locs.append([name, True, _sha(b), _canon(v, self.root)])
                except Exception:
                    locs.append([name, False, None, _canon(v, self.root)])
            code = tbcode = None
            try:
                with open(co.co_filename, encoding="utf-8") as fh:
                    lines = fh.read().split("\n")
                if fr.f_lineno is not None and 1 <= fr.f_lineno <= len(lines):
                    code = lines[fr.f_lineno - 1].strip()
                if tbl is not None and 1 <= tbl <= len(lines):
                    tbcode = lines[tbl - 1].strip()
            except Exception:
                code = tbcode = None
            # line = the frame's CURRENT line (f_lineno: where it got to while the exception unwound; None when it was
            # left from an instruction without a line), tbline = the line of the traceback entry (what the stack trace displays)
            return dict(fid=fid, file=co.co_filename, line=fr.f_lineno, tbline=tbl, name=co.co_name,
                        qual=co.co_qualname, mod=fr.f_globals.get("__name__"), code=code, tbcode=tbcode, locals=locs)


# ----------------------------------------------------------------------------------------
# the oracle's reading of the documentation: what a selector denotes
# ----------------------------------------------------------------------------------------

class Bad(Exception):
    pass


def _spec_pat(s):
    parts = s.split(":")
    if len(parts) != 3 or parts[0] == "":
        raise Bad("pattern")
    rx, ln, fn = parts
    if ln == "":
        line = None
    else:
        try:
            line = int(ln)
        except ValueError:
            raise Bad("line")
        if line <= 0:
            raise Bad("line<=0: no frame has such a line; the documentation gives it no meaning")
    try:
        crx = re.compile(rx)
    except re.error:
        raise Bad("regex")
    return (crx, line, fn)


def spec_parse(frames, utility):
    """-> ('none',) | ('num', n) | ('list', pats) | ('range', pat, pat|None); raises Bad when the documented
    syntax gives the argument no meaning."""
    if frames is None:
        return ("none",)
    if isinstance(frames, bool):
        raise Bad("bool")
    if isinstance(frames, int):
        return ("num", frames)
    if isinstance(frames, str):
        try:
            return ("num", int(frames))
        except ValueError:
            pass
        if utility == "function":
            if "," in frames:
                raise Bad("comma in a single frame string")
            items = [frames]
        else:
            items = frames.split(",")
    elif isinstance(frames, (list, tuple)):
        items = list(frames)
        if not items or any((not isinstance(i, str)) or "," in i for i in items):
            raise Bad("list")
    else:
        raise Bad("type")
    items = [i.strip() for i in items]
    if len(items) == 1 and ".." in items[0]:
        parts = items[0].split("..")
        if len(parts) != 2:
            raise Bad("range")
        a = _spec_pat(parts[0].strip())
        b = parts[1].strip()
        return ("range", a, None if b == "" else _spec_pat(b))
    return ("list", [_spec_pat(i) for i in items])


def _spec_match(p, fr):
    crx, line, fn = p
    # the documentation: "line_no: the code line number (displayed in the stack trace) of that error frame" -
    # callers pass frames whose "line" is the one they want matched (see `_as_displayed`)
    return (crx.search(fr["file"]) is not None and (line is None or fr["line"] == line)
            and (fn == "" or fn in (fr["name"], fr["qual"])))


def _as_displayed(frames):
    """the same frames with `line` = the line of the traceback entry (what the stack trace displays)"""
    return [dict(f, line=(f["tbline"] if f.get("tbline") is not None else f["line"])) for f in frames]


def _dedup(idxs, frames):
    seen, out = set(), []
    for k in sorted(set(idxs)):
        fid = frames[k - 1]["fid"]
        if fid not in seen:
            seen.add(fid)
            out.append(k)
    return out


def spec_keys(parsed, frames):
    """-> list of admissible key lists (several only for ties between farthest pairs), or 'error' when the
    documentation promises an error (a range end that matches nothing)."""
    n = len(frames)
    if n == 0:
        return None
    if parsed[0] == "none":
        return [[1]]
    if parsed[0] == "num":
        return [list(range(1, min(parsed[1], n) + 1))]
    if parsed[0] == "list":
        ks = [k for k in range(1, n + 1) if any(_spec_match(p, frames[k - 1]) for p in parsed[1])]
        return [_dedup(ks, frames)]
    F = [k for k in range(1, n + 1) if _spec_match(parsed[1], frames[k - 1])]
    L = [1] if parsed[2] is None else [k for k in range(1, n + 1) if _spec_match(parsed[2], frames[k - 1])]
    if not F or not L:
        return "error"
    best = max(abs(a - b) for a in F for b in L)
    outs = []
    for a in F:
        for b in L:
            if abs(a - b) == best:
                ks = _dedup(range(min(a, b), max(a, b) + 1), frames)
                if ks not in outs:
                    outs.append(ks)
    return outs


def spec_filter(variables, exclude_variables, utility):
    """-> (include set or None, exclude set) ; raises Bad when the arguments have no documented meaning"""
    def names(v):
        if v is None:
            return None
        if isinstance(v, str):
            if utility == "function":
                if "," in v:
                    raise Bad("comma")
                return [v.strip()]
            return [x.strip() for x in v.split(",")]
        if isinstance(v, (list, tuple)):
            if any(not isinstance(x, str) for x in v):
                raise Bad("item type")
            return list(v)
        raise Bad("type")
    if variables and exclude_variables:
        raise Bad("both")
    inc = names(variables)
    exc = names(exclude_variables)
    if not variables:
        inc = None          # nothing passed: no include filter
    return (None if inc is None else set(inc)), set(exc or [])


# ----------------------------------------------------------------------------------------
# the property
# ----------------------------------------------------------------------------------------

class C17(Prop):
    id = "C17"
    driver = "C17"
    lean_modules = ["Pfb.C17.Props"]
    theorems = ["Pfb.C17." + t for t in (
        "C17_chain_first", "C17_failing_frame_first",
        "C17_selection_none", "C17_selection_num", "C17_selection_list", "C17_selection_range",
        "C17_selection_keys", "C17_selection_unique_frames", "C17_selection_total",
        "C17_filter_partial", "C17_filter_fixed", "C17_filter_D7_witness", "C17_skip_independent",
        "C17_mode", "C17_mode_existing",
        "C17_reader_variable_at", "C17_reader_variable_all", "C17_reader_metadata", "C17_end_to_end",
        "C17_cycle_visits_once", "C17_cycle_first")]
    anchors = [
        ("lib/python/pyflyby/_saveframe.py", "_validate_frames"),
        ("lib/python/pyflyby/_saveframe.py", "_get_all_matching_frames"),
        ("lib/python/pyflyby/_saveframe.py", "_get_frames_to_save"),
        ("lib/python/pyflyby/_saveframe.py", "_get_all_frames_from_exception_obj"),
        ("lib/python/pyflyby/_saveframe.py", "_get_frame_local_variables_data"),
        ("lib/python/pyflyby/_saveframe.py", "_save_frames_and_exception_info_to_file"),
        ("lib/python/pyflyby/_saveframe.py", "_open_file"),
        ("lib/python/pyflyby/_saveframe.py", "_validate_variables"),
        ("lib/python/pyflyby/_saveframe.py", "_is_variable_name_valid"),
        ("lib/python/pyflyby/_saveframe.py", "_validate_saveframe_arguments"),
        ("lib/python/pyflyby/_saveframe.py", "_get_frame_metadata"),
        ("lib/python/pyflyby/_saveframe.py", "saveframe"),
        ("lib/python/pyflyby/_saveframe_reader.py", "SaveframeReader.metadata"),
        ("lib/python/pyflyby/_saveframe_reader.py", "SaveframeReader.variables"),
        ("lib/python/pyflyby/_saveframe_reader.py", "SaveframeReader.get_metadata"),
        ("lib/python/pyflyby/_saveframe_reader.py", "SaveframeReader.get_variables"),
        ("bin/saveframe", None),
    ]
    quick_cases = 800
    thorough_cases = 30000
    quick_deadline_s = 60
    thorough_deadline_s = 600
    rule = ("call stacks produced by real generated code raising real exceptions (harness/gen_c17.py: depth 1-8, recursion, "
            "shared relay functions, methods, closures, lambdas, generator expressions, class bodies, module level, "
            "raise-from / implicit context / from None / finally / with / bare re-raise / non-matching except* / cyclic "
            "__cause__ chains / exception objects that do not survive a pickle round trip or have no str()) x selectors (none, count, single, "
            "list, range, open range, partial file:line:function patterns, malformed) x include/exclude lists (valid, invalid, "
            "empty, wrong types; names drawn also from soft keywords, _, __, dunders, digits, non-ASCII identifiers) x "
            "bytes/bytearray locals incl. bytes that are pickles x forced-unpicklable subsets x umasks x pre-existing file x "
            "reader query SEQUENCES on one reader (every query, then all again shuffled, then single-variable forms a third "
            "time), through pyflyby.saveframe, the "
            "script-mode validation + internal save function, and bin/saveframe run in-process; plus a systematic scope on one "
            "fixed chained stack (every pattern of every frame, ranges between them, filter forms, umasks) and on one stack whose "
            "function / file names are suffixes, prefixes and inner parts of one another (run, dry_run, Job.rerun, Job.run, "
            "outer.<locals>.run, run2, <lambda>, prerun; mod.py, submod.py, mod.py2) x every name fragment as the function "
            "component; a case is "
            "non-trivial when at least one frame was saved; distinct by program+arguments")
    trusted_base = ["`re` is modelled, not verified: the outcome of re.search per (regex, file name) is an input of the model "
                    "(recomputed by the harness with the stdlib `re`)",
                    "`pickle` is modelled, not verified: whether a live value pickles is an input of the model (the oracle "
                    "tries pickle.dumps itself); load(dump(v)) == v is assumed for picklable values",
                    "the kernel's rule for the mode of a file created by open(O_CREAT) (mode & ~umask; an existing file keeps its "
                    "mode) is modelled; the real mode is checked with os.stat on the real file system",
                    "str.isidentifier is exact for ASCII names; every non-ASCII character is taken to be an identifier character "
                    "(the generators only use such: \u00e9, \u5909\u6570); a valid name is an identifier that is not a HARD keyword "
                    "(soft keywords _, match, case, type are valid); int(str) for ASCII digits only",
                    "not modelled: _validate_filename, _get_frame_metadata's best-effort lookups (module name, source line, "
                    "function object are opaque inputs; the oracle checks module name and source line against the live frame)"]
    assumptions = ["a selector's line is the line of the traceback entry (documented: 'displayed in the stack trace'); the code "
                   "as found compares the frame's current f_lineno (known finding C17-H1); saved lineno/code may be either",
                   "a cyclic chain is read as the interpreter displays it: every exception once (C17-H4); no claim about the "
                   "stored exception_object when the live one does not survive a pickle round trip (C17-H2)",
                   "C17_filter_partial: D7 does not strike (d7free: a passed include list keeps at least one valid name) and "
                   "local names are identifiers (violated by the implicit '.0' of generator expressions, known finding C17-D3)",
                   "selectors denote frames of the chain Python displays; `raise X from None` contexts are followed by the "
                   "code as found (known finding C17-D2)",
                   "a pre-existing output file keeps its mode (stated exclusion of the 0644 claim)"]

    @staticmethod
    def _fam_d7(case, fl):
        if fl.get("what") != "a variable that must be absent was saved" or fl.get("why") != "not included":
            return False
        import keyword
        v = case.get("variables")
        if not v:
            return False
        if isinstance(v, str):
            names = [x.strip() for x in v.split(",")] if case.get("utility") != "function" else [v.strip()]
        elif isinstance(v, (list, tuple)) and all(isinstance(x, str) for x in v):
            names = list(v)
        else:
            return False
        return all((not n.isidentifier()) or keyword.iskeyword(n) for n in names)

    @staticmethod
    def _fam_suppressed(case, fl):
        return (fl.get("what") == "frames of a suppressed context (raise ... from None) were selected"
                and fl.get("suppressed") is True)

    @staticmethod
    def _fam_nonident(case, fl):
        n = fl.get("name")
        if not isinstance(n, str) or n.isidentifier():
            return False
        if fl.get("what") == "a retained picklable variable is missing":
            return n in (fl.get("include") or [])
        if fl.get("what") == "a variable that must be absent was saved":
            return fl.get("why") == "excluded"
        return False

    @staticmethod
    def _fam_toplevel(case, fl):
        return (fl.get("what") == "saveframe called from the top level of a script raised" and case.get("frames") is None
                and "NoneType" in str(fl.get("err")) and "f_locals" in str(fl.get("err")))

    @staticmethod
    def _fam_cycle(case, fl):
        return fl.get("what") == "saveframe did not return" and fl.get("cyclic") is True

    @staticmethod
    def _fam_excobj(case, fl):
        # the exception OBJECT does not survive a pickle round trip (or has no str()): the whole file is lost
        if fl.get("exc_roundtrips") is not False and fl.get("exc_str_ok") is not False:
            return False
        if fl.get("what") == "saveframe raised although the arguments are well-formed and denote frames":
            return str((fl.get("err") or {}).get("kind", "")).startswith("other:")
        return fl.get("what") == "the saved file cannot be loaded"

    @staticmethod
    def _fam_liveline(case, fl):
        # frames matched by the line the frame reached after the failure (f_lineno) instead of the line of the
        # traceback entry: the outcome is exactly what the selector denotes when read with f_lineno
        if fl.get("live_line") is True:
            return fl.get("what") in ("saved frame keys differ from what the selector denotes",
                                      "a range end matches no frame but a file was written",
                                      "saveframe raised although the arguments are well-formed and denote frames")
        return False

    @staticmethod
    def _fam_noneline(case, fl):
        return (fl.get("none_line") is True and fl.get("live_line") is not True
                and fl.get("what") == "saveframe raised although the arguments are well-formed and denote frames"
                and (fl.get("err") or {}).get("type") == "TypeError")

    families = {"frame_without_line_aborts_save": _fam_noneline.__func__,
                "cyclic_chain_never_terminates": _fam_cycle.__func__,
                "exception_object_not_picklable": _fam_excobj.__func__,
                "line_of_live_frame_not_of_traceback": _fam_liveline.__func__,
                "toplevel_call_without_frames": _fam_toplevel.__func__,
                "d7_include_list_validated_to_empty": _fam_d7.__func__,
                "suppressed_context_followed": _fam_suppressed.__func__,
                "filter_names_a_nonidentifier_local": _fam_nonident.__func__}

    _root = None

    # -- life cycle ------------------------------------------------------------------------
    def setup(self, tier, rng):
        self._root = tempfile.mkdtemp(prefix="pfbc17_")

    def teardown(self):
        if self._root:
            shutil.rmtree(self._root, ignore_errors=True)
            self._root = None

    # -- generation ------------------------------------------------------------------------
    def gen_case(self, rng, i, tier):
        prog = gen_c17.gen_program(rng)
        try:
            frames = gen_c17.dry_frames(prog)
        except Exception as e:
            raise RuntimeError("generated program is broken: %r\n%s" % (e, json.dumps(prog)[:2000]))
        r = rng.random()
        utility = "function" if r < 0.55 else ("script" if r < 0.90 else "bin")
        if utility == "bin" and (prog["entry"] != "direct" or prog.get("cyclic")):
            utility = "script"
        sel = gen_c17.gen_selector(rng, frames, utility)
        v, x = gen_c17.gen_varfilter(rng, frames, utility)
        togs = list(range(prog["n_tog"]))
        unpick = sorted(t for t in togs if rng.random() < 0.3)
        flip = rng.choice(togs) if togs and utility != "bin" and rng.random() < 0.5 else None
        return dict(prog=prog, utility=utility, frames=sel, variables=v, exclude_variables=x,
                    umask=rng.choice([0o022, 0o022, 0o077, 0o027, 0o002, 0, 0o177, 0o777, 0o137]),
                    preexist=(rng.choice([0o600, 0o666, 0o640]) if rng.random() < 0.08 else None),
                    unpick=unpick, flip=flip, qseed=rng.randint(0, 10 ** 6))

    EX_HEADER = "import os as _os\nfrom gen_c17 import Tog, P, BadReduce, Ctx, AppError, TwoArgError, BadStrError, REG as _REG\n\n"
    EX_FILES = {
        "pkg/alpha.py": EX_HEADER + (
            "def load(_i):\n    data = [1, 2]\n    secret = 'p@ss'\n    type = 'record'\n    _ = b'\\x89PNG'\n    try:\n        _REG['s1'](1)\n"
            "    except Exception:\n        h = 'ctx'\n        raise KeyError('ctx')\n_REG['s0'] = load\n\n"
            "def rec(_i, n=2):\n    level = n\n    if n > 0:\n        return rec(_i, n - 1)\n    return _REG['s2'](2)\n"
            "_REG['s1'] = rec\n"),
        "lib/alpha.py": EX_HEADER + (
            "class K:\n    def __init__(self):\n        self.attr = 1\n    def __eq__(self, o):\n        return type(o) is type(self)\n"
            "    def __hash__(self):\n        return 1\n    def __repr__(self):\n        return 'K()'\n"
            "    def run(self, _i):\n        x = Tog(0, 'v')\n        y = (lambda: 0)\n        __dd = 5\n        return _REG['s3'](3)\n"
            "_REG['s2'] = K().run\n\n"
            "def load(_i):\n    total = P(3)\n    secret = Tog(1, 0)\n    match = [1, 2]\n    case = 3\n    type = b'I7\\n.'\n"
            "    \u00e9 = 'e'\n    \u5909\u6570 = bytearray(b'ab')\n    blob = __import__('pickle').dumps({'answer': 42})\n    raise ValueError('boom')\n_REG['s3'] = load\n"),
    }
    EX_SIMPLE = {"gamma.py": EX_HEADER + "def run(_i):\n    x = 1\n    secret = 'p@ss'\n    raise ValueError('boom')\n_REG['s0'] = run\n"}

    # candidate C17-4: cyclic chains
    EX_CYCLE = {"gamma.py": EX_HEADER + (
        "def run(_i):\n    x = 1\n    try:\n        raise ValueError('boom')\n    except ValueError as err:\n"
        "        raise err from err\n_REG['s0'] = run\n")}
    EX_CYCLE2 = {"gamma.py": EX_HEADER + (
        "def run(_i):\n    x = 1\n    try:\n        return _REG['s1'](1)\n    except ValueError as err:\n"
        "        new = RuntimeError('cyc')\n        err.__cause__ = new\n        raise new from err\n_REG['s0'] = run\n\n"
        "def load(_i):\n    y = 2\n    raise ValueError('boom')\n_REG['s1'] = load\n")}
    # candidate C17-2: exception objects that do not survive a pickle round trip / have no str()
    EX_EXCOBJ = {
        "lambda_arg": "    raise AppError('app', (lambda: 0))\n",
        "local_class": "    class LocalError(Exception):\n        pass\n    raise LocalError('local')\n",
        "lock_attr": "    err = AppError('locked')\n    err.lock = __import__('threading').Lock()\n    raise err\n",
        "twoarg": "    raise TwoArgError('two', 2)\n",
        "badstr": "    raise BadStrError('nostr')\n",
    }
    # candidate C17-1: the line a frame reached after the failure is not the line of its traceback entry
    EX_LINES = {"gamma.py": EX_HEADER + (
        "def run(_i):\n    keep = 1\n    try:\n        return _REG['s1'](1)\n    except ValueError:\n        seen = True\n        raise\n"
        "_REG['s0'] = run\n\n"
        "def load(_i):\n    keep = 2\n    try:\n        return _REG['s2'](2)\n    finally:\n        fin = 1\n_REG['s1'] = load\n\n"
        "def step(_i):\n    keep = 3\n    try:\n        return _REG['s3'](3)\n    except* OSError:\n        pass\n_REG['s2'] = step\n\n"
        "def helper(_i):\n    y = 4\n    raise ValueError('boom')\n_REG['s3'] = helper\n")}

    def _hunt_cases(self):
        out = []
        for files in (self.EX_CYCLE, self.EX_CYCLE2):
            for s_ in (None, 3, "gamma::", "gamma::run..", ["gamma::run", "gamma::load"]):
                c = self._mk(files, frames=s_, qseed=len(out), utility=("function", "script")[len(out) % 2]
                             if not isinstance(s_, list) else "function")
                c["prog"]["cyclic"] = True
                out.append(c)
        for k, body in self.EX_EXCOBJ.items():
            files = {"gamma.py": self.EX_HEADER + "def run(_i):\n    x = 1\n    secret = 'p@ss'\n" + body + "_REG['s0'] = run\n"}
            out.append(self._mk(files, frames=2, qseed=len(out)))
            out.append(self._mk(files, frames="gamma::", utility="script", exclude_variables="secret", qseed=len(out)))
            out.append(self._mk(files, frames=1, preexist=0o640, qseed=len(out)))
        out.append(self._mk(self.EX_EXCOBJ and {"gamma.py": self.EX_HEADER + "def run(_i):\n    x = 1\n" + self.EX_EXCOBJ["local_class"]
                                                + "_REG['s0'] = run\n"}, frames=1, utility="bin", qseed=len(out)))
        fr = gen_c17.dry_frames(dict(files=self.EX_LINES, entry="direct", main=None, n_tog=0))
        sels = [None, 1, 2, 3, 4, 9]
        for (rel, line, name, qual, _), tbl in zip(fr, fr.tblines):
            for ln in sorted({line, tbl} - {0, None}):
                sels += ["gamma.py:%d:%s" % (ln, name), ".:%d:" % ln, "gamma.py:%d:.." % ln, ".:%d:..gamma::run" % ln]
        for s_ in dict.fromkeys(sels):
            out.append(self._mk(self.EX_LINES, frames=s_, qseed=len(out), utility=("function", "script")[len(out) % 2]))
        return out

    def _mk(self, files, frames=None, variables=None, exclude_variables=None, utility="function", umask=0o022,
            preexist=None, unpick=(), flip=None, qseed=1, n_tog=0):
        return dict(prog=dict(files=dict(files), entry="direct", main=None, n_tog=n_tog), utility=utility, frames=frames,
                    variables=variables, exclude_variables=exclude_variables, umask=umask, preexist=preexist,
                    unpick=list(unpick), flip=flip, qseed=qseed)

    # a stack whose function and file names are suffixes / prefixes of one another
    EX_NAMES = {
        "pkg/mod.py": EX_HEADER + (
            "def run(_i):\n    a = 1\n    return _REG['s1'](1)\n_REG['s0'] = run\n\n"
            "def dry_run(_i):\n    b = 2\n    return _REG['s2'](2)\n_REG['s1'] = dry_run\n\n"
            "class Job:\n    def rerun(self, _i):\n        c = 3\n        return _REG['s3'](3)\n"
            "    def run(self, _i):\n        d = 4\n        return _REG['s4'](4)\n"
            "_REG['s2'] = Job().rerun\n_REG['s3'] = Job().run\n"),
        "pkg/submod.py": EX_HEADER + (
            "def outer(_i):\n    def run(_j):\n        e = 5\n        return _REG['s5'](5)\n    return run(_i)\n_REG['s4'] = outer\n\n"
            "def run2(_i):\n    f = 6\n    return _REG['s6'](6)\n_REG['s5'] = run2\n"),
        "lib/mod.py2": EX_HEADER + (
            "_REG['s6'] = lambda _i: _REG['s7'](7)\n\n"
            "def prerun(_i):\n    g = 7\n    raise ValueError('boom')\n_REG['s7'] = prerun\n"),
    }

    def _names_cases(self, tier, rng):
        out = []
        prog = dict(files=self.EX_NAMES, entry="direct", main=None, n_tog=0)
        fr = gen_c17.dry_frames(prog)
        fns = []
        for rel, line, name, qual, _ in fr:
            for f_ in (name, qual, name[1:], qual.split(".", 1)[-1], "." + name):
                if f_ and f_ not in fns:
                    fns.append(f_)
        fns += ["un", "run", "rerun", "Job.rerun", "b.rerun", "<locals>.run", "outer.<locals>.run", "r.<locals>.run", "lambda>"]
        files = ["mod.py", "/mod.py$", "submod.py", "mod.py2", "/mod\\.py$", "pkg/", "."]
        pats = []
        for f_ in files:
            for n_ in dict.fromkeys(fns):
                pats.append("%s::%s" % (f_, n_))
        for rel, line, name, qual, _ in fr:
            pats += ["%s:%d:%s" % (os.path.basename(rel), line, name), ".:%d:" % line, ".:%d0:" % line, ".:1%d:" % line]
        pats = list(dict.fromkeys(pats))
        sels = list(pats) + [[a, b] for a, b in zip(pats[::7], pats[3::7])]
        ranges = [a + ".." + b for a in pats[::3] for b in pats[1::5]] + [a + ".." for a in pats]
        if tier != "thorough":
            sels = rng.sample(sels, 120)
            ranges = rng.sample(ranges, 60)
        for s_ in sels + ranges:
            u = "function" if (len(out) % 3 or isinstance(s_, list)) else "script"
            out.append(self._mk(self.EX_NAMES, frames=s_, utility=u, qseed=len(out)))
        return out

    def exhaustive_cases(self, tier, rng):
        out = self._names_cases(tier, rng) + self._hunt_cases()
        prog = dict(files=self.EX_FILES, entry="direct", main=None, n_tog=2)
        fr = gen_c17.dry_frames(prog)
        pats = []
        for rel, line, name, qual, _ in fr:
            base = os.path.basename(rel)
            for p in ("%s::" % rel, "%s:%d:" % (base, line), "/%s::%s" % (rel.split("/")[0], name),
                      "%s:%d:%s" % (rel, line, qual), ".::%s" % qual):
                if p not in pats:
                    pats.append(p)
        pats += ["nomatch::", "alpha.py:1:", "(::"]
        sels = [None] + list(range(-1, len(fr) + 3)) + [" 3 ", "+2", "0_2"] + pats
        sels += [[p] for p in pats[:4]] + [pats[i:i + 2] for i in range(0, len(pats) - 1, 3)]
        ranges = [a + ".." + b for a in pats for b in pats] + [a + ".." for a in pats]
        if tier != "thorough":
            ranges = rng.sample(ranges, 70)
        sels += ranges
        for s_ in sels:
            out.append(self._mk(self.EX_FILES, frames=s_, n_tog=2, qseed=len(out), flip=(len(out) % 2)))
            if isinstance(s_, str) or s_ is None:
                out.append(self._mk(self.EX_FILES, frames=(",".join(s_) if isinstance(s_, list) else s_), utility="script",
                                    n_tog=2, qseed=len(out)))
        filt = [None, "x", "secret", ["x", "secret"], ["1bad"], ["x", "1bad"], [], "", ["class"], ["nosuch"], " x ", "x,secret",
                ["__dd"], ["_i"], 5, ["x", 5],
                # legal names that only look special: soft keywords, `_`, non-ASCII identifiers, digits
                ["type"], "type", ["_"], "_", ["match", "x"], ["case", "match", "total"], ["type", "_", "secret"],
                ["\u00e9"], ["\u5909\u6570", "case"], "match,case", " type , blob", ["blob", "type"], ["__"],
                # the malformed stream: hard keywords and non-identifiers next to valid names
                ["class", "type"], ["match", "1bad"], "for,match", ["None", "_"]]
        for f_ in filt:
            for u in ("function", "script"):
                if u == "script" and not (f_ is None or isinstance(f_, str)):
                    continue
                out.append(self._mk(self.EX_FILES, frames=9, variables=f_, utility=u, n_tog=2, qseed=len(out), unpick=[0]))
                out.append(self._mk(self.EX_FILES, frames=9, exclude_variables=f_, utility=u, n_tog=2, qseed=len(out), flip=1))
        out.append(self._mk(self.EX_FILES, frames=9, variables=["x"], exclude_variables=["secret"], n_tog=2))
        out.append(self._mk(self.EX_FILES, frames=9, variables=["x"], exclude_variables=[], n_tog=2))
        umasks = list(range(512)) if tier == "thorough" else sorted(set(rng.sample(range(512), 20) + [0, 0o777, 0o022, 0o077]))
        for u in umasks:
            out.append(self._mk(self.EX_SIMPLE, umask=u, utility=("function", "script", "bin")[u % 3], qseed=u))
        for s_ in (None, 3, 0, "gamma::", "gamma::..", "gamma::..gamma::", ["gamma::"], "(::"):
            c = self._mk(self.EX_SIMPLE, frames=s_, qseed=len(out))
            c["prog"]["entry"] = "unraised"          # an exception without traceback
            out.append(c)
        out.append(self._mk({}, frames=None, utility="toplevel"))
        out.append(self._mk({}, frames=2, utility="toplevel"))
        for m in (0o600, 0o666, 0o400 | 0o200, 0o755):
            out.append(self._mk(self.EX_SIMPLE, umask=0o027, preexist=m))
        return out

    # -- implementation --------------------------------------------------------------------
    def _quiet(self):
        import logging
        import pyflyby._saveframe as sf
        sf._SAVEFRAME_LOGGER.setLevel(logging.CRITICAL + 10)
        logging.getLogger().setLevel(logging.CRITICAL + 10)

    TOPLEVEL_SCRIPT = (
        "import sys, os, pickle\n"
        "sys.path.insert(0, %(lib)r)\n"
        "import logging, pyflyby\n"
        "import pyflyby._saveframe as sf\n"
        "sf._SAVEFRAME_LOGGER.setLevel(logging.CRITICAL + 10)\n"
        "def inner():\n    secret = 'p@ss'\n    raise ValueError('boom')\n"
        "def outer():\n    token = 7\n    inner()\n"
        "try:\n    outer()\nexcept ValueError as e:\n    sys.last_exc = e\n"
        "out = pyflyby.saveframe(filename=%(out)r%(args)s)\n"
        "data = pickle.load(open(out, 'rb'))\n"
        "print('KEYS', sorted(k for k in data if isinstance(k, int)), [data[k]['function_name'] for k in sorted(k for k in data if isinstance(k, int))])\n")

    def _run_toplevel(self, case):
        """saveframe called from the top level of a script (its caller has no caller), in a child interpreter."""
        import subprocess
        base = self._root if self._root and os.path.isdir(self._root) else None
        root = tempfile.mkdtemp(dir=base, prefix="top_")
        try:
            out = os.path.join(root, "frames.pkl")
            args = "" if case["frames"] is None else ", frames=%r" % (case["frames"],)
            script = os.path.join(root, "top.py")
            with open(script, "w") as fh:
                fh.write(self.TOPLEVEL_SCRIPT % dict(lib=os.path.join(REPO, "lib", "python"), out=out, args=args))
            p = subprocess.run([sys.executable, script], stdout=subprocess.PIPE, stderr=subprocess.PIPE, text=True, timeout=120)
            keys = None
            for l in p.stdout.splitlines():
                if l.startswith("KEYS "):
                    keys = l[5:]
            last = [l for l in p.stderr.strip().splitlines() if l.strip()]
            return dict(toplevel=dict(rc=p.returncode, keys=keys, err=(last[-1][:200] if last and p.returncode else None)))
        finally:
            shutil.rmtree(root, ignore_errors=True)

    def run_impl(self, case):
        if case["utility"] == "toplevel":
            return self._run_toplevel(case)
        import pyflyby                                    # noqa: F401  (the tree under test)
        import pyflyby._saveframe as sf
        self._quiet()
        own_root = None
        base = self._root
        if base is None or not os.path.isdir(base):
            own_root = base = tempfile.mkdtemp(prefix="pfbc17_")
        root = tempfile.mkdtemp(dir=base)
        names = []
        obs = {}
        saved_last = [getattr(sys, "last_exc", None), hasattr(sys, "last_exc")]
        try:
            prog = case["prog"]
            names = gen_c17.load_program(prog, root)
            util = case["utility"]
            os.mkdir(os.path.join(root, "out"))
            out = os.path.join(root, "out", "frames.pkl")
            if case.get("preexist") is not None:
                with open(out, "wb") as fh:
                    fh.write(b"x" * 100000)
                os.chmod(out, case["preexist"])
            gen_c17.UNPICK.clear()
            gen_c17.UNPICK.update(case.get("unpick") or [])
            holder = {}
            if util == "bin":
                err = self._run_bin(case, root, out, holder)
            else:
                exc = gen_c17.raise_program(prog, root, names)
                gen_c17.UNPICK.clear()
                gen_c17.UNPICK.update(case.get("unpick") or [])
                live = Live(exc, root)
                holder["live"] = live
                holder["desc"] = live.describe()
                holder["table"] = live.describe_table()
                err = self._call(case, util, out, exc, holder)
            obs["err"] = err
            obs["root"] = root
            live = holder.get("live")
            obs["cyclic"] = bool(live.cyclic) if live else False
            if live is not None:
                try:
                    pickle.loads(pickle.dumps(live.exc, protocol=5))
                    obs["exc_roundtrips"] = True
                except Exception:
                    obs["exc_roundtrips"] = False
            obs["live"] = holder.get("desc")
            obs["table"] = holder.get("table")
            obs["graph"] = live.graph if live else None
            obs["nodes"] = live.nodes if live else None
            obs["cfg"] = self._probe_cfg()
            if live is not None and (err or {}).get("kind") == "hang":
                obs["impl_all_fids"] = "error:hang"
            elif live is not None:
                fidof = {id(fr): fid for fid, fr in live.table.items()}
                try:
                    with _deadline(HANG_SECONDS if live.cyclic else None):
                        obs["impl_all_fids"] = [fidof.get(id(fr), -1) for fr in sf._get_all_frames_from_exception_obj(live.exc)]
                except _Hang:
                    obs["impl_all_fids"] = "error:hang"
                except Exception as e:
                    obs["impl_all_fids"] = "error:" + type(e).__name__
            obs["shown"] = live.shown if live else None
            obs["umask_after"] = holder.get("umask_after")
            obs["exc"] = self._exc_fields(live.exc, root) if live else None
            if err is None:
                st = os.stat(out)
                obs["mode"] = stat.S_IMODE(st.st_mode)
                obs["regular"] = stat.S_ISREG(st.st_mode)
                try:
                    with open(out, "rb") as fh:
                        data = pickle.load(fh)
                except Exception as e:
                    # the call succeeded but what it wrote cannot be loaded (by any reader)
                    obs["load_err"] = dict(type=type(e).__name__, msg=str(e)[:160])
                    return obs
                obs["saved"] = self._describe_saved(data, live, root)
                obs["reader"] = self._reader(case, out, data, root)
                if case.get("flip") is not None and util != "bin":
                    obs["flip"] = self._flip(case, util, root, live, data)
            else:
                obs["file_exists"] = os.path.exists(out)
            return obs
        finally:
            if saved_last[1]:
                sys.last_exc = saved_last[0]
            elif hasattr(sys, "last_exc"):
                del sys.last_exc
            gen_c17.unload_program(names)
            shutil.rmtree(root, ignore_errors=True)
            if own_root:
                shutil.rmtree(own_root, ignore_errors=True)

    def _call(self, case, util, out, exc, holder, frames_override=None):
        """function: pyflyby.saveframe on sys.last_exc; script: validation with utility='script' + the internal
        save function with the exception object (what bin/saveframe does)."""
        import pyflyby
        import pyflyby._saveframe as sf
        old = os.umask(case.get("umask", 0o022))
        lv = holder.get("live")
        try:
            try:
              with _deadline(HANG_SECONDS if (lv is not None and lv.cyclic) else None):
                if util == "function":
                    sys.last_exc = exc
                    # an older, unrelated exception is still recorded under the pre-3.12 names (what an interactive
                    # interpreter leaves behind): the exception to save is the one `sys.last_exc` names
                    try:
                        raise KeyError("stale exception recorded earlier")
                    except KeyError as stale:
                        holder["stale_saved"] = [getattr(sys, n, None) for n in ("last_value", "last_type", "last_traceback")]
                        holder["stale_had"] = [hasattr(sys, n) for n in ("last_value", "last_type", "last_traceback")]
                        sys.last_value, sys.last_type, sys.last_traceback = stale, type(stale), stale.__traceback__
                    pyflyby.saveframe(filename=out, frames=case["frames"], variables=case["variables"],
                                      exclude_variables=case["exclude_variables"])
                else:
                    fn, fr, v, x = sf._validate_saveframe_arguments(
                        filename=out, frames=case["frames"], variables=case["variables"],
                        exclude_variables=case["exclude_variables"], utility="script")
                    sf._save_frames_and_exception_info_to_file(
                        filename=fn, frames=fr, variables=v, exclude_variables=x, exception_obj=exc)
                return None
            except _Hang:
                return dict(kind="hang", type="Hang", msg="no return within %s s" % HANG_SECONDS)
            except Exception as e:
                return dict(kind=classify_error(e), type=type(e).__name__, msg=_safe_str(e)[:160])
        finally:
            holder["umask_after"] = os.umask(old)
            if "stale_saved" in holder:
                for n, v, had in zip(("last_value", "last_type", "last_traceback"), holder.pop("stale_saved"), holder.pop("stale_had")):
                    if had:
                        setattr(sys, n, v)
                    elif hasattr(sys, n):
                        delattr(sys, n)

    def _run_bin(self, case, root, out, holder):
        """bin/saveframe executed in this process (runpy) on a user script; the exception object it hands to the
        save function is captured for the independent view."""
        import runpy
        import pyflyby._saveframe as sf
        script = os.path.join(root, "user_script.py")
        with open(script, "w") as fh:
            fh.write("from gen_c17 import REG\nvalue = 3\nREG['s0'](0)\n")
        orig = sf._save_frames_and_exception_info_to_file

        def hook(filename, frames, variables, exclude_variables, exception_obj):
            live = Live(exception_obj, root)
            holder["live"] = live
            holder["desc"] = live.describe()
            holder["table"] = live.describe_table()
            return orig(filename=filename, frames=frames, variables=variables,
                        exclude_variables=exclude_variables, exception_obj=exception_obj)

        binpath = os.path.join(REPO, "bin", "saveframe")
        argv = [binpath, "--filename=" + out]
        for opt in ("frames", "variables", "exclude_variables"):
            if case[opt] is not None:
                argv.append("--%s=%s" % (opt, case[opt]))
        argv.append(script)
        old_argv, old_path = sys.argv, list(sys.path)
        sf._save_frames_and_exception_info_to_file = hook
        old = os.umask(case.get("umask", 0o022))
        try:
            sys.argv = argv
            try:
                runpy.run_path(binpath, run_name="__main__")
                return None
            except SystemExit as e:
                return dict(kind="system_exit", type="SystemExit", msg=str(e)[:160])
            except Exception as e:
                return dict(kind=classify_error(e), type=type(e).__name__, msg=_safe_str(e)[:160])
        finally:
            holder["umask_after"] = os.umask(old)
            sf._save_frames_and_exception_info_to_file = orig
            sys.argv = old_argv
            sys.path[:] = old_path

    def _exc_fields(self, exc, root):
        try:
            tb = traceback.format_exception(type(exc), exc, exc.__traceback__)
        except Exception:
            tb = None
        try:
            es = str(exc)
        except Exception:
            es = None                 # no str(): no claim about the two string fields
        return dict(exception_string=es, exception_full_string=(None if es is None else "%s: %s" % (type(exc).__name__, es)),
                    exception_class_name=type(exc).__name__, exception_class_qualname=type(exc).__qualname__,
                    exception_object=_canon(exc, root), traceback=_canon(tb, root))

    def _describe_saved(self, data, live, root):
        out = dict(keys=[], frames={}, other_keys=[])
        for k in data:
            if isinstance(k, int) and not isinstance(k, bool):
                out["keys"].append(k)
            elif k not in EXC_FIELDS:
                out["other_keys"].append(repr(k))
        out["keys_in_file_order"] = list(out["keys"])
        out["keys"].sort()
        for k in out["keys"]:
            ent = data[k]
            d = {}
            for f in FRAME_FIELDS:
                if f != "function_object":
                    d[f] = ent.get(f)
            fo = ent.get("function_object")
            if isinstance(fo, (bytes, bytearray)):
                try:
                    fobj = pickle.loads(fo)
                    fr = live.frames[k - 1] if 1 <= k <= len(live.frames) else None
                    code = getattr(getattr(fobj, "__func__", fobj), "__code__", None)
                    d["function_object"] = dict(kind="pickled", same_code=(fr is not None and code is fr.f_code),
                                                text=_meta_text(fobj, root))
                except Exception as e:
                    d["function_object"] = dict(kind="unloadable", err=type(e).__name__, text="<unloadable>")
            else:
                d["function_object"] = dict(kind="text", text=_meta_text(fo, root))
            vs = []
            for name, b in ent.get("variables", {}).items():
                try:
                    val = pickle.loads(b)
                    vs.append([name, _sha(b), _canon(val, root)])
                except Exception as e:
                    vs.append([name, _sha(b), "<unloadable %s>" % type(e).__name__])
            d["variables"] = vs
            d["extra_fields"] = sorted(set(ent) - set(FRAME_FIELDS) - {"variables"})
            out["frames"][str(k)] = d
        ex = {}
        for f in EXC_FIELDS:
            ex[f] = _canon(data.get(f), root) if f in ("exception_object", "traceback") else data.get(f)
        out["exc_text"] = {f: _meta_text(data.get(f), root) for f in EXC_FIELDS}
        out["exc"] = ex
        out["missing_exc_fields"] = [f for f in EXC_FIELDS if f not in data]
        return out

    # -- reader ------------------------------------------------------------------------------
    def _queries(self, case, data):
        rng = random.Random(case.get("qseed", 0))
        keys = sorted(k for k in data if isinstance(k, int))
        names = []
        for k in keys:
            for n in data[k]["variables"]:
                if n not in names:
                    names.append(n)
        qs = [dict(q="metadata"), dict(q="variables")]
        for f in FRAME_FIELDS + EXC_FIELDS:
            qs.append(dict(q="gm", field=f, idx=None))
        idxs = keys[:3] + [rng.choice(keys)] if keys else []
        idxs += [0, (max(keys) + 1) if keys else 1, "1", rng.choice([-1, 99, 2])]
        for f in rng.sample(FRAME_FIELDS, 4) + rng.sample(EXC_FIELDS, 2) + ["nosuchfield"]:
            for ix in rng.sample(idxs, min(3, len(idxs))):
                qs.append(dict(q="gm", field=f, idx=ix))
        pool = names + ["nosuch"]
        for n in (pool if len(pool) <= 6 else rng.sample(pool, 6)):
            qs.append(dict(q="gv", vars=n, idx=None))
            for ix in rng.sample(idxs, min(2, len(idxs))):
                qs.append(dict(q="gv", vars=n, idx=ix))
        for _ in range(5):
            vs = [rng.choice(pool) for _ in range(rng.randint(1, 3))]
            qs.append(dict(q="gv", vars=vs, idx=None))
            qs.append(dict(q="gv", vars=vs, idx=rng.choice(idxs) if idxs else None))
        qs.append(dict(q="gv", vars=[], idx=None))
        qs.append(dict(q="gv", vars=5, idx=None))
        qs.append(dict(q="gv", vars=["a", 5], idx=None))
        return qs

    def _reader_canon(self, q, res, data, root):
        """Shape-tagged canonical form of a reader answer."""
        keys = {k for k in data if isinstance(k, int)}

        def is_frame_map(r):
            return isinstance(r, dict) and len(r) >= 1 and all(isinstance(k, int) and k in keys for k in r)
        if q["q"] == "metadata":
            return dict(l=list(res))
        if q["q"] == "variables":
            return dict(vn=[[k, list(v)] for k, v in sorted(res.items())])
        if q["q"] == "gm":
            if q["field"] in FRAME_FIELDS and q["idx"] is None:
                return dict(m=[[k, _meta_text(v, root)] for k, v in sorted(res.items())])
            return dict(v=_meta_text(res, root))
        single = isinstance(q["vars"], str)
        if q["idx"] is not None:
            if single:
                return dict(v=_canon(res, root))
            return dict(d=sorted([n, _canon(v, root)] for n, v in res.items()))
        if single:
            if is_frame_map(res) and len(res) >= 2:
                return dict(m=[[k, _canon(v, root)] for k, v in sorted(res.items())])
            return dict(v=_canon(res, root))
        if is_frame_map(res) and len(res) >= 2:
            return dict(mm=[[k, sorted([n, _canon(v, root)] for n, v in d.items())] for k, d in sorted(res.items())])
        return dict(d=sorted([n, _canon(v, root)] for n, v in res.items()))

    def _reader(self, case, out, data, root):
        from pyflyby import SaveframeReader
        rd = SaveframeReader(out)
        res = []
        qs = self._queries(case, data)
        # ONE reader object answers the whole sequence: every query once, then every query again in another order
        # (same variable twice, other forms, interleaved with other variables and metadata), then the single-variable
        # forms a third time.  A reader that keeps state between queries must still give the fresh-reader answers.
        rng2 = random.Random("%s:again" % case.get("qseed", 0))
        again = list(qs)
        rng2.shuffle(again)
        third = [q for q in qs if q["q"] == "gv" and isinstance(q["vars"], str)]
        seq = [dict(q, n=1) for q in qs] + [dict(q, n=2) for q in again] + [dict(q, n=3) for q in third]
        for q in seq:
            try:
                if q["q"] == "metadata":
                    r = rd.metadata
                elif q["q"] == "variables":
                    r = rd.variables
                elif q["q"] == "gm":
                    r = rd.get_metadata(q["field"]) if q["idx"] is None else rd.get_metadata(q["field"], frame_idx=q["idx"])
                else:
                    r = rd.get_variables(q["vars"]) if q["idx"] is None else rd.get_variables(q["vars"], frame_idx=q["idx"])
                res.append(dict(q=q, ok=self._reader_canon(q, r, data, root)))
            except Exception as e:
                res.append(dict(q=q, err=classify_reader_error(e)))
        return res

    @staticmethod
    def _plain_query(q):
        return {k: v for k, v in q.items() if k != "n"}

    # expected reader answers, recomputed from the raw saved mapping by the documentation
    def _reader_expected(self, q, saved, root=None):
        keys = saved["keys"]
        fr = saved["frames"]

        def var(k, n):
            for name, _, rp in fr[str(k)]["variables"]:
                if name == n:
                    return rp
            return None

        def meta(k, f):
            if f == "function_object":
                return fr[str(k)]["function_object"]["text"]
            return _meta_text(fr[str(k)][f], root)
        if q["q"] == "metadata":
            return dict(ok=dict(l=FRAME_FIELDS + EXC_FIELDS))
        if q["q"] == "variables":
            return dict(ok=dict(vn=[[k, [v[0] for v in fr[str(k)]["variables"]]] for k in keys]))
        if q["q"] == "gm":
            f, ix = q["field"], q["idx"]
            if f not in FRAME_FIELDS + EXC_FIELDS:
                return dict(err="bad_field")
            if f in EXC_FIELDS:
                if ix is not None and ix != 0 and ix != "":
                    return dict(err="idx_for_exception_field")
                return dict(ok=dict(v=saved["exc_text"][f]))
            if ix is None:
                return dict(ok=dict(m=[[k, meta(k, f)] for k in keys]))
            if not isinstance(ix, int):
                return dict(err="idx_type")
            if ix not in keys:
                return dict(err="bad_idx")
            return dict(ok=dict(v=meta(ix, f)))
        vs, ix = q["vars"], q["idx"]
        if isinstance(vs, str):
            single, vl = True, [vs]
        elif isinstance(vs, list):
            if any(not isinstance(v, str) for v in vs):
                return dict(err="var_item_type")
            single, vl = False, vs
        else:
            return dict(err="vars_type")
        if not vl:
            return dict(err="no_vars")
        if ix is None:
            per = []
            for k in keys:
                d = sorted([n, var(k, n)] for n in set(vl) if var(k, n) is not None)
                if d:
                    per.append([k, d])
            if not per:
                return dict(err="not_found")
            if single:
                if len(per) == 1:
                    return dict(ok=dict(v=per[0][1][0][1]))
                return dict(ok=dict(m=[[k, d[0][1]] for k, d in per]))
            if len(per) == 1:
                return dict(ok=dict(d=per[0][1]))
            return dict(ok=dict(mm=per))
        if not isinstance(ix, int):
            return dict(err="idx_type")
        if ix not in keys:
            return dict(err="bad_idx")
        d = sorted([n, var(ix, n)] for n in set(vl) if var(ix, n) is not None)
        if not d:
            return dict(err="not_found_in_frame")
        if single:
            return dict(ok=dict(v=d[0][1]))
        return dict(ok=dict(d=d))

    # -- metamorphic: one more / one fewer unpicklable value ----------------------------------
    def _flip(self, case, util, root, live, data1):
        t = case["flip"]
        out2 = os.path.join(root, "out", "frames2.pkl")
        affected = []
        for k, fr in enumerate(live.frames, 1):
            for n, v in fr.f_locals.items():
                if isinstance(v, gen_c17.Tog) and v.tid == t:
                    affected.append([k, n])
        if t in gen_c17.UNPICK:
            gen_c17.UNPICK.discard(t)
        else:
            gen_c17.UNPICK.add(t)
        try:
            err = self._call(case, util, out2, live.exc, {"live": live})
            if err is not None:
                return dict(err=err)
            with open(out2, "rb") as fh:
                data2 = pickle.load(fh)
        finally:
            gen_c17.UNPICK.clear()
            gen_c17.UNPICK.update(case.get("unpick") or [])
        diffs = []
        k1 = sorted(k for k in data1 if isinstance(k, int))
        k2 = sorted(k for k in data2 if isinstance(k, int))
        if k1 != k2:
            diffs.append(["keys", k1, k2])
        for k in k1:
            if k not in data2:
                continue
            v1, v2 = data1[k]["variables"], data2[k]["variables"]
            for n in sorted(set(v1) | set(v2)):
                if v1.get(n) != v2.get(n):
                    diffs.append([k, n, n in v1, n in v2])
        return dict(affected=affected, diffs=diffs, now_unpicklable=(t not in (case.get("unpick") or [])))

    # -- oracle ------------------------------------------------------------------------------
    def oracle(self, case, obs):
        fails = []
        util = case["utility"]
        if util == "toplevel":
            t = obs["toplevel"]
            want = {None: "[1] ['inner']", 1: "[1] ['inner']", 2: "[1, 2] ['inner', 'outer']"}.get(case["frames"])
            if t["rc"] != 0:
                return [dict(what="saveframe called from the top level of a script raised", frames_arg=case["frames"], err=t["err"])]
            if want is not None and t["keys"] != want:
                return [dict(what="saved frame keys differ from what the selector denotes", frames_arg=case["frames"],
                             keys=t["keys"], want=want, utility=util)]
            return []
        putil = "function" if util == "function" else "script"

        def fail(what, **kw):
            fails.append(dict(what=what, frames_arg=case["frames"], variables=case["variables"],
                              exclude_variables=case["exclude_variables"], utility=util, **kw))
        live = obs.get("live")
        if live is None:
            # bin/saveframe stopped before it had an exception (argument validation) — nothing to compare
            if obs.get("err") is None:
                fail("harness: no live view although the call succeeded")
            live_all = []
        else:
            live_all = live
        shown = obs.get("shown") if obs.get("shown") is not None else len(live_all)
        frames = live_all[:shown]              # what Python displays: the frames a selector can denote
        hidden = live_all[shown:]
        # what the arguments denote
        try:
            parsed = spec_parse(case["frames"], putil)
        except Bad:
            parsed = None
        try:
            inc, exc = spec_filter(case["variables"], case["exclude_variables"], putil)
            filt_ok = True
        except Bad:
            inc, exc, filt_ok = None, set(), False
        # a selector's line is "the code line number (displayed in the stack trace)": the line of the traceback entry
        want = spec_keys(parsed, _as_displayed(frames)) if (parsed is not None and live is not None) else None
        # the same selector read with each frame's CURRENT line (f_lineno), which is what the code as found compares
        # (candidate C17-1); differs only when some frame ran on after the failure (finally / except / with)
        want_live = spec_keys(parsed, frames) if (parsed is not None and live is not None) else None
        # the same denotation if the frames of a suppressed context (`raise X from None`) counted as well
        want_all = spec_keys(parsed, _as_displayed(live_all)) if (parsed is not None and live is not None and hidden) else None
        none_line = any(f["line"] is None for f in live_all)
        exc_rt = obs.get("exc_roundtrips")
        exc_str_ok = (obs.get("exc") or {}).get("exception_string") is not None if obs.get("exc") else None

        if obs.get("err") is not None:
            if obs["err"].get("kind") == "hang":
                fail("saveframe did not return", err=obs["err"], cyclic=obs.get("cyclic"))
                return fails
            if util == "bin" and live is None:
                # validation error before the program ran
                pass
            if parsed is not None and filt_ok and want not in (None, "error"):
                fail("saveframe raised although the arguments are well-formed and denote frames", err=obs["err"],
                     live_line=(want_live == "error" and obs["err"].get("kind") == "range_no_match"),
                     none_line=none_line, exc_roundtrips=exc_rt, exc_str_ok=exc_str_ok)
            return fails
        if obs.get("load_err") is not None:
            fail("the saved file cannot be loaded", err=obs["load_err"], exc_roundtrips=exc_rt, exc_str_ok=exc_str_ok)
            return fails
        if want_all is not None and want_all != want:
            # one coherent report for this input: the selector reached into frames Python does not display
            if obs["saved"]["keys"] not in (want if isinstance(want, list) else []):
                sup = isinstance(want_all, list) and obs["saved"]["keys"] in want_all
                fail("frames of a suppressed context (raise ... from None) were selected" if sup
                     else "saved frame keys differ from what the selector denotes",
                     keys=obs["saved"]["keys"], want=want, suppressed=sup, n_frames=len(frames), n_hidden=len(hidden),
                     live_line=(not sup and want_live != want and isinstance(want_live, list)
                                and obs["saved"]["keys"] in want_live),
                     stack=[[f["fid"], os.path.basename(f["file"]), f["line"], f["qual"]] for f in live_all])
            want = None

        saved = obs["saved"]
        # ---- file mode, umask ----
        if case.get("preexist") is None and obs.get("mode") != 0o644:
            fail("created file does not have mode 0644", mode=oct(obs.get("mode")), umask=oct(case.get("umask", 0)))
        if obs.get("umask_after") != case.get("umask", 0o022):
            fail("process umask not restored", umask_after=obs.get("umask_after"), umask=case.get("umask"))
        if saved["other_keys"] or saved["missing_exc_fields"]:
            fail("unexpected top-level keys in the saved mapping", other=saved["other_keys"],
                 missing=saved["missing_exc_fields"])
        # ---- selection ----
        keys = saved["keys"]
        by_live_line = (want_live != want and isinstance(want_live, list) and keys in want_live)
        if want == "error":
            fail("a range end matches no frame but a file was written", keys=keys, live_line=by_live_line)
        elif want is not None:
            if keys not in want:
                hid = [k for k in keys if k > shown]
                fail("saved frame keys differ from what the selector denotes", keys=keys, want=want,
                     n_frames=len(frames), n_hidden=len(hidden), keys_in_hidden_context=hid, live_line=by_live_line,
                     stack=[[f["fid"], os.path.basename(f["file"]), f["line"], f.get("tbline"), f["qual"]] for f in live_all])
        # ---- per frame: metadata and variables equal the live values ----
        for k in keys:
            ent = saved["frames"][str(k)]
            if not (1 <= k <= len(live_all)):
                fail("saved key is not the index of a frame of the exception", key=k)
                continue
            fr = live_all[k - 1]
            # `lineno` / `code`: the frame's current line (the live value) or, equally admissible, the line of this
            # traceback entry (what the stack trace shows for key k) - but one of them consistently
            ln, cd = fr["line"], fr["code"]
            if fr.get("tbline") is not None and ent.get("lineno") == fr["tbline"] and fr["tbline"] != fr["line"]:
                ln, cd = fr["tbline"], fr.get("tbcode")
            exp = dict(frame_index=k, filename=fr["file"], lineno=ln, function_name=fr["name"],
                       function_qualname=fr["qual"],
                       frame_identifier="%s,%s,%s" % (fr["file"], ln, fr["name"]))
            for f, v in exp.items():
                if ent.get(f) != v:
                    fail("frame metadata differs from the live frame", key=k, field=f, got=ent.get(f), want=v)
            if cd is not None and ent.get("code") != cd:
                fail("frame metadata differs from the live frame", key=k, field="code", got=ent.get("code"), want=cd)
            if ent.get("module_name") not in (fr["mod"], NOT_FOUND_MODULE):
                fail("frame metadata differs from the live frame", key=k, field="module_name",
                     got=ent.get("module_name"), want=fr["mod"])
            fo = ent["function_object"]
            # function_object is documented as best effort (looked up by name in the caller's locals / the globals):
            # not part of the claim; fo["same_code"] is kept in the observation for information only.
            if ent["extra_fields"]:
                fail("unexpected fields in a frame entry", key=k, extra=ent["extra_fields"])
            # variables
            if not filt_ok:
                continue
            expv = {}
            for name, pk, sha, rp in fr["locals"]:
                if name.startswith("__"):
                    continue
                if inc is not None and name not in inc:
                    continue
                if name in exc:
                    continue
                if not pk:
                    continue
                expv[name] = (sha, rp)
            gotv = {n: (sha, rp) for n, sha, rp in ent["variables"]}
            for n in sorted(set(gotv) - set(expv)):
                why = ("excluded" if n in exc else "not included" if (inc is not None and n not in inc)
                       else "dunder" if n.startswith("__") else "not a picklable local of the frame")
                fail("a variable that must be absent was saved", key=k, name=n, why=why,
                     include=sorted(inc) if inc is not None else None, exclude=sorted(exc))
            for n in sorted(set(expv) - set(gotv)):
                fail("a retained picklable variable is missing", key=k, name=n,
                     include=sorted(inc) if inc is not None else None, exclude=sorted(exc))
            for n in sorted(set(expv) & set(gotv)):
                if expv[n][0] != gotv[n][0] and expv[n][1] != gotv[n][1]:
                    fail("saved value differs from the live value", key=k, name=n, got=gotv[n][1], want=expv[n][1])
        # ---- exception fields ----
        if obs.get("exc"):
            for f in EXC_FIELDS:
                if f == "exception_object" and not exc_rt:
                    continue              # an object that cannot be stored: no claim about what stands in for it
                if f in ("exception_string", "exception_full_string") and not exc_str_ok:
                    continue              # str(exception) raises: no claim
                if saved["exc"].get(f) != obs["exc"].get(f):
                    fail("exception metadata differs from the live exception", field=f,
                         got=str(saved["exc"].get(f))[:200], want=str(obs["exc"].get(f))[:200])
        # ---- reader ----
        for r in obs.get("reader", []):
            expd = self._reader_expected(r["q"], saved, obs.get("root"))
            got = dict(ok=r["ok"]) if "ok" in r else dict(err=r["err"])
            if got != expd:
                fail("reader answer differs from the saved data", query=r["q"], got=json.dumps(got)[:300],
                     want=json.dumps(expd)[:300])
                break
        # ---- metamorphic flip ----
        fl = obs.get("flip")
        if fl is not None:
            if "err" in fl:
                fail("changing the picklability of one value made the save fail", err=fl["err"])
            else:
                aff = {(k, n) for k, n in fl["affected"]}
                for d in fl["diffs"]:
                    if d[0] == "keys":
                        fail("changing the picklability of one value changed the saved frames", diff=d)
                    elif (d[0], d[1]) not in aff:
                        fail("changing the picklability of one value changed another variable", key=d[0], name=d[1])
        return fails[:6]

    # -- which tree is under test (as found / with the proposed repairs) ---------------------------
    _cfg = None

    def _probe_cfg(self):
        if self._cfg is not None:
            return self._cfg
        import pyflyby._saveframe as sf

        def probe_frame():
            probe_local = 1
            return sys._getframe()
        fr = probe_frame()
        try:
            d7 = "probe_local" not in sf._get_frame_local_variables_data(fr, (), None)
        except Exception:
            d7 = False
        try:
            try:
                try:
                    raise KeyError("inner")
                except KeyError:
                    raise ValueError("outer") from None
            except ValueError as e:
                n = len(sf._get_all_frames_from_exception_obj(e))
            d2 = n == 1
        except Exception:
            d2 = False
        C17._cfg = dict(d7=bool(d7), d2=bool(d2))
        return C17._cfg

    # -- model -------------------------------------------------------------------------------
    @staticmethod
    def _arg_json(v, kind):
        if v is None:
            return None
        if kind == "frames":
            if isinstance(v, bool):
                return {"int": int(v)}
            if isinstance(v, int):
                return {"int": v}
            if isinstance(v, str):
                return {"str": v}
            return {"list": list(v)}
        if isinstance(v, str):
            return {"str": v}
        if isinstance(v, (list, tuple)):
            return {"list": [x if isinstance(x, str) else None for x in v]}
        return {"other": bool(v)}

    @staticmethod
    def _regex_candidates(frames):
        if isinstance(frames, (list, tuple)):
            if not all(isinstance(x, str) for x in frames):
                return []
            joined = ",".join(frames)
        elif isinstance(frames, str):
            joined = frames
        else:
            return []
        out = []
        for piece in joined.split(",") + joined.split(".."):
            r = piece.strip().split(":")[0]
            if r not in out:
                out.append(r)
        return out

    def model_requests(self, case, obs):
        util = case["utility"]
        if util == "toplevel":
            return []
        errk = (obs.get("err") or {}).get("kind", "")
        if errk == "hang" or obs.get("load_err") is not None:
            return []            # the model has no non-termination; a file that cannot be loaded has no saved mapping
        if errk.startswith("other:") and (obs.get("exc_roundtrips") is False
                                          or (obs.get("exc") or {}).get("exception_string", "") is None):
            return []            # pickling / str() of the exception OBJECT is not modelled (_get_exception_info)
        if any(f["line"] is None for f in (obs.get("live") or [])) and (
                obs.get("err") is not None or any((obs["live"][k - 1]["line"] is None) for k in (obs.get("saved") or {}).get("keys", [])
                                                  if 1 <= k <= len(obs["live"]))):
            return []            # a frame without a current line: the model's line is a Nat
        table = obs.get("table") or {}
        saved = obs.get("saved") or {}
        opaque = {}
        for k, ent in (saved.get("frames") or {}).items():
            live = obs.get("live") or []
            if 1 <= int(k) <= len(live):
                opaque[live[int(k) - 1]["fid"]] = ent

        def frame_json(fid):
            d = table[str(fid)]
            o = opaque.get(fid)
            return dict(fid=fid, file=d["file"], line=(d["line"] or 0), name=d["name"], qual=d["qual"],
                        mod=(o["module_name"] if o else ""), code=(o["code"] if o else ""),
                        fun=(o["function_object"]["text"] if o else ""),
                        locals=[[n, rp, bool(pk)] for n, pk, sha, rp in d["locals"]])

        def exc_json(g):
            if g is None:
                return None
            return dict(tb=[frame_json(f) for f in g["tb"]], cause=exc_json(g["cause"]),
                        context=exc_json(g["context"]), suppress=g["suppress"])
        graph = obs.get("graph")
        if graph is None:
            if obs.get("err") is None or obs["err"]["kind"] in ("system_exit",) or obs["err"]["kind"].startswith("other"):
                return []
            graph = dict(tb=[], cause=None, context=None, suppress=False)    # validation failed before the program ran
        files = sorted({d["file"] for d in table.values()})
        rx = []
        for r in self._regex_candidates(case["frames"]):
            try:
                c = re.compile(r)
                rx.append([r, [[f, c.search(f) is not None] for f in files]])
            except re.error:
                rx.append([r, None])
        queries = [r["q"] for r in obs.get("reader", [])]
        excf = [[f, (saved.get("exc_text") or {}).get(f, "")] for f in EXC_FIELDS]
        req = dict(op="save", cfg=obs.get("cfg") or dict(d7=False, d2=False),
                   util="function" if util == "function" else "script",
                   frames=self._arg_json(case["frames"], "frames"), vars=self._arg_json(case["variables"], "vars"),
                   excl=self._arg_json(case["exclude_variables"], "vars"), exc=exc_json(graph), rx=rx,
                   queries=queries, excf=excf)
        reqs = [req, dict(op="open", exists=case.get("preexist"), umask=case.get("umask", 0o022))]
        if obs.get("nodes") and isinstance(obs.get("impl_all_fids"), list):
            reqs.append(dict(op="chain", cfg=req["cfg"], start=0,
                             nodes=[dict(tb=[frame_json(f) for f in n["tb"]], cause=n["cause"], context=n["context"],
                                         suppress=n["suppress"]) for n in obs["nodes"]]))
        return reqs

    @staticmethod
    def _norm_reader(r):
        """sort what comes out of a dict"""
        if "ok" not in r:
            return r
        o = dict(r["ok"])
        if "d" in o:
            o["d"] = sorted(o["d"])
        if "mm" in o:
            o["mm"] = [[k, sorted(v)] for k, v in o["mm"]]
        return dict(ok=o)

    def compare(self, case, obs, resps):
        r, ro = resps[0], resps[1]
        if len(resps) > 2 and resps[2].get("fids") != obs.get("impl_all_fids"):
            return "frames of the exception chain (object graph, visited set): impl %s model %s" % (
                obs.get("impl_all_fids"), resps[2].get("fids"))
        if "rxmiss" in r:
            return "harness: regex table lacks %r" % (r["rxmiss"],)
        if obs.get("err") is not None:
            if "err" not in r:
                return "impl raised %s (%s), model saved keys %s" % (obs["err"]["kind"], obs["err"]["msg"][:80],
                                                                     [e["key"] for e in r.get("ok", [])])
            if r["err"] != obs["err"]["kind"]:
                return "error kinds differ: impl %s (%s) model %s" % (obs["err"]["kind"], obs["err"]["msg"][:80], r["err"])
            return None
        if "err" in r:
            return "model error %s, impl saved keys %s" % (r["err"], obs["saved"]["keys"])
        if isinstance(obs.get("impl_all_fids"), list) and len(obs["impl_all_fids"]) != r.get("nframes"):
            return "number of frames of the exception: impl %s model %s" % (len(obs["impl_all_fids"]), r.get("nframes"))
        saved = obs["saved"]
        live = obs["live"]
        got = []
        for k in saved["keys_in_file_order"]:
            ent = saved["frames"][str(k)]
            fid = live[k - 1]["fid"] if 1 <= k <= len(live) else -1
            got.append([k, fid, [[n, rp] for n, sha, rp in ent["variables"]]])
        want = [[e["key"], e["fid"], e["vars"]] for e in r["ok"]]
        if got != want:
            return "saved mapping differs: impl %s model %s" % (json.dumps(got)[:400], json.dumps(want)[:400])
        for a, b in zip(obs.get("reader", []), r.get("reader", [])):
            ga = self._norm_reader(dict(ok=a["ok"]) if "ok" in a else dict(err=a["err"]))
            gb = self._norm_reader(json.loads(json.dumps(b).replace(json.dumps(obs.get("root") or "\0")[1:-1], "<ROOT>")
                                              .replace(json.dumps(REPO)[1:-1], "<REPO>")))
            if ga != gb:
                return "reader %s: impl %s model %s" % (json.dumps(a["q"]), json.dumps(ga)[:300], json.dumps(gb)[:300])
        if len(obs.get("reader", [])) != len(r.get("reader", [])):
            return "reader answer count differs"
        # file mode / umask
        if ro.get("file") != obs.get("mode") or ro.get("umask") != obs.get("umask_after"):
            return "file mode/umask: impl mode=%s umask_after=%s model %s" % (obs.get("mode"), obs.get("umask_after"), ro)
        return None

    # -- bookkeeping -------------------------------------------------------------------------
    def nontrivial_key(self, case, obs):
        if case["utility"] == "toplevel":
            return None
        if obs.get("err") is None and obs.get("saved") and obs["saved"]["keys"]:
            return json.dumps([case["prog"]["files"], case["frames"], case["variables"], case["exclude_variables"],
                               case["unpick"], case["utility"]], sort_keys=True, default=str)
        return None

    def sample_repr(self, case, obs):
        if case["utility"] == "toplevel":
            return dict(frames=case["frames"], utility="toplevel", obs=obs)
        return dict(frames=case["frames"], variables=case["variables"], exclude_variables=case["exclude_variables"],
                    utility=case["utility"], umask=oct(case["umask"]),
                    stack=[[os.path.basename(f["file"]), f["line"], f["qual"]] for f in (obs.get("live") or [])],
                    saved_keys=(obs.get("saved") or {}).get("keys"), err=(obs.get("err") or {}).get("kind"))

    def stats(self, case, obs, acc):
        def inc(k):
            acc[k] = acc.get(k, 0) + 1
        inc("utility_" + case["utility"])
        inc("src_" + case.get("_src", "?"))
        if case["utility"] == "toplevel":
            return
        fr = case["frames"]
        inc("selector_" + ("none" if fr is None else "int" if isinstance(fr, int) else "list" if isinstance(fr, list)
                           else "range" if ".." in fr else "str"))
        if obs.get("cyclic"):
            inc("cyclic_chain")
        if obs.get("exc_roundtrips") is False:
            inc("exception_object_not_picklable")
        if any(f.get("tbline") is not None and f["line"] != f["tbline"] for f in (obs.get("live") or [])):
            inc("frame_line_differs_from_traceback_line")
        if any(f["line"] is None for f in (obs.get("live") or [])):
            inc("frame_without_line")
        if obs.get("err"):
            inc("err_" + obs["err"]["kind"])
        elif obs.get("load_err"):
            inc("err_saved_file_unloadable")
        else:
            n = len(obs["saved"]["keys"])
            inc("saved_frames_%s" % ("0" if n == 0 else "1" if n == 1 else "2-4" if n <= 4 else ">4"))
        live = obs.get("live") or []
        inc("depth_%s" % ("1-2" if len(live) <= 2 else "3-6" if len(live) <= 6 else ">6"))
        if len({f["fid"] for f in live}) < len(live):
            inc("same_frame_twice")
        if obs.get("shown") is not None and obs["shown"] < len(live):
            inc("suppressed_context")
        if case["variables"]:
            inc("include_list")
        if case["exclude_variables"]:
            inc("exclude_list")
        if case.get("unpick"):
            inc("forced_unpicklable")
        if case.get("preexist") is not None:
            inc("preexisting_file")


PROP = C17()
