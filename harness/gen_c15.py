"""Generators for C15: function signatures, command lines (structured items and token soup)."""
from __future__ import annotations

import itertools

NAME_FAMILIES = [
    ["x", "xy", "xyz", "xy_z"],
    ["foo", "foobar", "foo_bar", "fo"],
    ["a", "ab", "abc", "b"],
    ["verbose", "v", "value", "val"],
    ["help", "h", "hx", "source", "src", "source_file"],
    ["arg", "args_", "argument", "kwarg"],
    ["n", "name", "names", "num"],
    ["debug", "depth", "d", "dest"],
    ["_p", "_", "_pq", "__q"],
    ["é", "éa", "名", "x1", "x12"],
]
ALL_NAMES = sorted({n for fam in NAME_FAMILIES for n in fam})

UNKNOWN_NAMES = ["zz", "q", "help", "h", "source", "xq", "foo_baz", "other", "he", "so", "x_", "class", "if", "None",
                 "1x", "x.y", "", "é2", "x y", "in"]

STRINGS = [
    "", " ", "\t", "\n", "1", "1+2", "3.5", "0x10", "1e3", "None", "True", "[1, 2]", "(1,", "{'a': 1}", "'q'", '"dq"',
    "os.path", "os.sep", "sys.argv[0]", "f(x)", "lambda: 0", "x if y else z", "a b", "hello world", "$HOME", "${x}",
    "`ls`", "$(rm -rf /)", "x;y", "a|b", "a&&b", "> out", "~/f", "*", "*.py", "a=b", "x=1", "=", "==", "a==b",
    "é", "名前", "a\\b", "a\\nb", "x\n", "1\n2", "  1", "1 # c", "# c", "yield", "*a", "print 1", "import os",
    "__import__('os').system('true')", "exit()", "1/0", "a.b.c", "Willowbrook29817621+5", "'unterminated", "r'\\d'",
    "b'by'", "f'{x}'", "...", "_", "x y z", "%s", "{0}", "\x00", "\x0c", "\r", "a\r\nb", " ", "\xa0",
    "\x1c", "\x1f\x85", "\u2003", "\u3000\t", "\u200b", "\u2028", "\ufeff", "1\u2003+\u20031", "\U0001F600", "a\u0301",
]
# H4: text that the grammar accepts as an expression but that the compiler rejects with a SyntaxError: evaluation is
# impossible, so in automatic mode the original string must arrive.  The first block uses no free names (usable with
# the real evaluator as well).
COMPILE_REJECTED_CLOSED = ["*1", "(yield)", "yield", "lambda x, x: 1", "(__debug__ := 1)", "[(i:=0) for i in range(2)]",
                           "*[1]", "(yield from [1])", "lambda __debug__: 0", "[i for i in range(2) if (i := 1)]",
                           "len(__debug__=1)", "(lambda: (__debug__ := 1))", "{(a:=1) for a in (1, 2)}"]
COMPILE_REJECTED = COMPILE_REJECTED_CLOSED + ["*a", "await x", "f(a=1, a=2)", "1 if await x else 2", "[await x]",
                                              "yield x", "lambda a, b, a: a+b", "print(x=1, x=2)"]

DASH_STRINGS = ["-", "--", "-5", "-1.5", "--x", "--x=1", "-x", "---", "--=", "-=", "-=x", "--x=", "--x==", "?", "??", "-?",
                "--?", "-??", "--??", "--help", "-h", "--h", "-help", "--source", "-source", "--help=1", "-h=", "-é", "--1x=2",
                "--x-y=1", "--x.y=1", "-- ", " --", "--\n", "- ", "-\n"]

# Hostile argument strings: text on which CPython's compile() gives up with something other than SyntaxError
# (lone surrogates = what argv holds for undecodable bytes (PEP 383) -> UnicodeEncodeError; very long / deeply nested
# text -> RecursionError / MemoryError; sizes are kept far from the depth-dependent thresholds), NUL, control
# characters, BOM, line-separator look-alikes inside quoted strings, 10k-character tokens, 199/250-deep brackets.
HOSTILE = [
    "caf\udce9.txt", "\udcff", "\ud800", "'\udce9'", "a\udc80b c", "\udce9=1", "x\udcc3\udca9", "r'\udcfe\udcff'", "1+\udc80",
    "a\x00b", "'\x00'", "\x00", "1\x00",
    "\x01\x02", "\x7f", "\x1b[31m", "\x08", "1\x0c+2", "'a\x0cb'", "'a\x0bb'", "'a\u2028b'", "'a\x85b'", "'a\rb'", "\"\x1c\"",
    "'''a\nb'''", "1\u2028+2", "'a\u2029'", "\x0b1", "1\x1d", "'\x1e\x1f'", "\"a\x0c\x0b\u2028b\"", "(1,\x0c2)",
    "\ufeff1+2", "'\ufeff'", "\ufeff", "\ufeff'x'",
    "x" * 10000, "'" + "y" * 10000 + "'", "9" * 10000, "a b " * 2500, "1" + "+x1" * 5000, "not " * 5000 + "x",
    "~" * 5000 + "1", "~" * 9000 + "1", "2**" * 5000 + "2", "a" + ".b" * 5000, "a" + "[0]" * 5000, "+" * 5000 + "1",
    "not " * 800 + "x", "~" * 1000 + "1", "a" + ".b" * 1000, "1" + "+x1" * 800, "1" + "<2" * 3000, "'a' " * 3000,
    "(" * 199 + "1" + ")" * 199, "(" * 250 + "1" + ")" * 250, "[" * 200 + "]" * 200, "[" * 3000 + "]" * 3000,
    "{" * 150 + "}" * 150, "f(" * 150 + ")" * 150, "f(" * 300 + ")" * 300, "lambda: " * 500 + "0", "1 if 2 else " * 500 + "3",
    "[" * 150 + "'\udce9'" + "]" * 150,
]
HOSTILE_DASH = ["-" * 5000 + "1", "-" * 9000 + "1", "-\udce9", "--\udce9=1", "-x\x00", "--x=\ufeff"]


def gen_hostile(rng, dash_ok=False):
    if dash_ok and rng.random() < 0.1:
        return rng.choice(HOSTILE_DASH)
    return rng.choice(HOSTILE)


def hostile_scope(tier, rng):
    """Every hostile string in every argument position (positional, `--k=v`, `--k v`, after `--`), next to evaluable
    neighbours, in auto mode (all) and in string / eval mode (a sample)."""
    sig = dict(args=["a", "b"], ndefaults=1, varargs="rest", kwonly=["key"], kwdefaults=["key"], varkw="kw")
    out = []
    strings = HOSTILE + HOSTILE_DASH
    for h in strings:
        placements = []
        if not h.startswith("-"):
            placements.append([["pos", "2+3"], ["pos", h], ["pos", "None"]])
        if h != "":
            placements.append([["pos", "2+3"], ["opt", "--k=v", "key", h]])
            placements.append([["opt", "-k=v", "zz", h], ["pos", "x y"]])
        if not h.startswith("--"):
            placements.append([["pos", "1"], ["opt", "--k v", "b", h]])
        placements.append([["pos", "1"], ["dd", [h, "2+3"]]])
        if tier != "thorough":
            placements = rng.sample(placements, min(2, len(placements)))
        for items in placements:
            modes = ["auto"] if tier != "thorough" else MODES
            if tier != "thorough" and rng.random() < 0.25:
                modes = ["auto", rng.choice(["string", "eval"])]
            for mode in modes:
                out.append(dict(kind="parse", sig=sig, items=items, argv=render(items), mode=mode, stdin=h,
                                unimportable=["x y"], evalerr=[]))
    return out


def defects_scope(tier, rng):
    """Deterministic inputs of the families H1-H4 (every run sees each of them):
    H4 every compile-rejected string in every argument position, automatic mode, stub evaluator (+ string mode sample);
    H2 `--name=` / `-name=` with nothing after the `=`, first / middle / last, repeated;
    H3 options collected by **kw in non-alphabetical order;
    H1 `--map f a -- b` with the `--` after 1..n arguments (stub and real evaluator; the real evaluator also gets
       the compile-rejected strings through --apply)."""
    out = []
    sig = dict(args=["a", "b"], ndefaults=1, varargs="rest", kwonly=["key"], kwdefaults=["key"], varkw="kw")
    for h in COMPILE_REJECTED:
        placements = [[["pos", "2+3"], ["pos", h], ["pos", "None"]],
                      [["pos", "2+3"], ["opt", "--k=v", "key", h]],
                      [["pos", "1"], ["opt", "--k v", "b", h]],
                      [["opt", "-k=v", "zz", h], ["pos", "x y"]],
                      [["pos", "1"], ["dd", [h, "2+3"]]]]
        if tier != "thorough":
            placements = rng.sample(placements, 2)
        for items in placements:
            for mode in (MODES if tier == "thorough" else ["auto"]):
                out.append(dict(kind="parse", sig=sig, items=items, argv=render(items), mode=mode, stdin=h,
                                unimportable=["x y"], evalerr=[]))
    sig2 = dict(args=["a", "x"], ndefaults=1, varargs=None, kwonly=["key"], kwdefaults=["key"], varkw="kw")
    for form in ("--k=v", "-k=v"):
        for items in ([["opt", form, "x", ""], ["pos", "5"]], [["pos", "5"], ["opt", form, "x", ""]],
                      [["opt", "--k=v", "x", "1"], ["opt", form, "x", ""], ["pos", "5"]],
                      [["pos", "5"], ["opt", form, "zz", ""], ["opt", "--k v", "key", "1+1"]],
                      [["opt", form, "a", ""], ["opt", form, "key", ""]],
                      [["pos", "1"], ["opt", form, "ke", ""], ["dd", ["--x="]]]):
            for mode in MODES:
                out.append(dict(kind="parse", sig=sig2, items=items, argv=render(items), mode=mode, stdin="",
                                unimportable=[], evalerr=[]))
    for sig3 in (dict(args=["p"], ndefaults=0, varargs=None, kwonly=["ko"], kwdefaults=["ko"], varkw="kw"),
                 dict(args=[], ndefaults=0, varargs="rest", kwonly=[], kwdefaults=[], varkw="kw")):
        for names in (["zeta", "alpha", "mid"], ["b2", "a1"], ["q", "zz", "other", "a"]):
            items = [["opt", rng.choice(FORMS), n, str(i + 1)] for i, n in enumerate(names)]
            if sig3["args"]:
                items.insert(1, ["opt", "--k=v", "p", "0"])
            out.append(dict(kind="parse", sig=sig3, items=items, argv=render(items), mode=rng.choice(MODES), stdin="",
                            unimportable=[], evalerr=[]))
            for ckind in ("function", "class_init"):
                out.append(dict(kind="apply", ckind=ckind, route="direct", sig=sig3, mode="string", stdin="",
                                items=items, argv=render(items), mode_token="string"))
    sigm = dict(args=["x"], ndefaults=0, varargs=None, kwonly=[], kwdefaults=[], varkw=None)
    sigv = dict(args=[], ndefaults=0, varargs="rest", kwonly=[], kwdefaults=[], varkw=None)
    for sg in (sigm, sigv):
        for args, dd in ((["1+1", "2+2"], 1), (["a b", "1+2", "--x=2", "-"], 2), (["None", "3.5"], 2),
                         (["2+3", "?", "--", "-5"], 1)):
            for mode in MODES:
                for ckind in ("function", "method"):
                    case = dict(kind="apply", ckind=ckind, route="map", sig=sg, mode=mode, stdin="", items=None,
                                map_literal=False, map_dd=dd, map_args=list(args),
                                gopts=rng.choice(MAIN_MODE_GOPTS[mode]), form=rng.choice(MAP_FORMS))
                    case["argv"] = map_argv(case)
                    out.append(case)
        case = dict(kind="apply", ckind="function", route="map", sig=sg, mode="auto", stdin="", items=None, ns="real",
                    map_literal=False, map_dd=1, map_args=["2+3", "2+3", "zzqhello"], gopts=["--args=auto"],
                    form=["--map", TARGET_NAME])
        case["argv"] = map_argv(case)
        out.append(case)
    for h in COMPILE_REJECTED_CLOSED:
        for items in ([["pos", "2+3"], ["pos", h]], [["opt", "--k=v", "zz", h]]):
            out.append(dict(kind="apply", ckind="function", route=rng.choice(["direct", "main_apply"]), ns="real",
                            sig=dict(args=[], ndefaults=0, varargs="rest", kwonly=[], kwdefaults=[], varkw="kw"),
                            mode="auto", stdin="", items=items, argv=render(items)))
    for case in out:
        if case["kind"] == "apply" and case["route"] == "direct":
            case.setdefault("mode_token", rng.choice(DIRECT_MODE_TOKENS[case["mode"]]))
        elif case["kind"] == "apply" and case["route"] == "main_apply":
            case.setdefault("gopts", ["--args=auto"])
            case.setdefault("form", ["--apply", TARGET_NAME])
    return out


MODES = ["string", "eval", "auto"]
FORMS = ["--k=v", "--k v", "-k v", "-k=v"]
HELP_TOKENS = ["--?", "-?", "?", "--??", "-??", "??"]


def gen_sig(rng):
    """Return dict(args, ndefaults, varargs, kwonly, kwdefaults, varkw)."""
    r = rng.random()
    if r < 0.55:
        fams = rng.sample(NAME_FAMILIES, 1)
    elif r < 0.9:
        fams = rng.sample(NAME_FAMILIES, 2)
    else:
        fams = rng.sample(NAME_FAMILIES, 3)
    pool = [n for f in fams for n in f]
    rng.shuffle(pool)
    k = rng.choice([0, 1, 1, 2, 2, 3, 3, 4, 5, 6])
    names = pool[:min(k, len(pool))]
    nargs = rng.randint(0, len(names))
    if rng.random() < 0.5:
        nargs = len(names)
    args, kwonly = names[:nargs], names[nargs:]
    ndefaults = rng.choice([0, 0, rng.randint(0, len(args)), len(args)]) if args else 0
    kwdefaults = [n for n in kwonly if rng.random() < 0.6]
    used = set(names)
    varargs = None
    if rng.random() < 0.3:
        varargs = next(n for n in ["rest", "args", "va"] if n not in used)
    varkw = None
    if rng.random() < 0.3:
        varkw = next(n for n in ["kw", "kwargs", "opts"] if n not in used)
    return dict(args=args, ndefaults=ndefaults, varargs=varargs, kwonly=kwonly, kwdefaults=kwdefaults, varkw=varkw)


def sig_names(sig):
    return list(sig["args"]) + list(sig["kwonly"])


DEFAULT_TEXTS = ["2+3", "None", "os.sep", "'q'", "a b", "x", "1", "[1, 2]", "-5", "--x", "", " ", "1/0", "exit()"]
DEFAULT_LITERALS = ["None", "0", "False", "()"]


def add_defvals(rng, sig, cands=(), real=False):
    """Give some defaulted parameters a real default value instead of the harness' sentinel object: a string
    (expression-like text, often one that also occurs on the command line — a literal that must arrive untouched)
    or a falsy literal (None, 0, False, ())."""
    dv = {}
    nargs = len(sig["args"])
    for n in list(sig["args"][nargs - sig["ndefaults"]:]) + list(sig["kwdefaults"]):
        r = rng.random()
        if r < 0.25:
            pool = [c for c in cands if len(c) < 200] + DEFAULT_TEXTS
            dv[n] = ["str", rng.choice(pool)]
        elif r < 0.4:
            # (with the real evaluator the argument `None` is worth None: keep the default distinguishable)
            dv[n] = ["lit", rng.choice([x for x in DEFAULT_LITERALS if not (real and x == "None")])]
    if dv:
        sig["defvals"] = dv
    return sig


def gen_string(rng, dash_ok=True):
    if rng.random() < 0.04:
        return gen_hostile(rng, dash_ok)
    r = rng.random()
    if r < 0.03:
        return rng.choice(COMPILE_REJECTED)
    if r < 0.62:
        return rng.choice(STRINGS)
    if r < 0.72 and dash_ok:
        return rng.choice(DASH_STRINGS)
    if r < 0.86:
        alpha = "ab1 +-=._'\"$;()[]é\n\t?*\\#,:"
        return "".join(rng.choice(alpha) for _ in range(rng.randint(0, 8)))
    if r < 0.93:
        return rng.choice(STRINGS) + rng.choice(STRINGS)
    return rng.choice(["x" * 300, "1+" * 40 + "1", " " * 20, "-" * 5, "=" * 4])


def gen_typed_name(rng, sig):
    """An option name as the user types it (before '-' -> '_' replacement)."""
    names = sig_names(sig)
    r = rng.random()
    if names and r < 0.45:
        n = rng.choice(names)
    elif names and r < 0.8:
        n = rng.choice(names)
        n = n[:rng.randint(1, len(n))]
    elif names and r < 0.86:
        n = rng.choice(names) + rng.choice(["x", "_", "1", "y"])
    else:
        n = rng.choice(UNKNOWN_NAMES)
    if "_" in n and rng.random() < 0.5:
        n = n.replace("_", "-")
    return n


def render_item(it):
    k = it[0]
    if k == "pos":
        return [it[1]]
    if k == "stdin":
        return ["-"]
    if k == "dd":
        return ["--"] + list(it[1])
    if k == "opt":
        form, name, value = it[1], it[2], it[3]
        if form == "--k=v":
            return ["--" + name + "=" + value]
        if form == "-k=v":
            return ["-" + name + "=" + value]
        if form == "--k v":
            return ["--" + name, value]
        if form == "-k v":
            return ["-" + name, value]
    raise ValueError(it)


def render(items):
    out = []
    for it in items:
        out.extend(render_item(it))
    return out


def gen_items(rng, sig, wild=False):
    """Structured command line.  With wild=False the side conditions of the documented forms hold
    (positionals without leading dash, '=' values non-empty, ' ' values not starting with '--')."""
    n = rng.choice([0, 1, 1, 2, 2, 3, 3, 4, 5, 7])
    items = []
    for _ in range(n):
        r = rng.random()
        if r < 0.45:
            s = gen_string(rng, dash_ok=wild)
            if not wild:
                while s.startswith("-") or s in HELP_TOKENS:
                    s = gen_string(rng, dash_ok=False)
            items.append(["pos", s])
        elif r < 0.95:
            form = rng.choice(FORMS)
            name = gen_typed_name(rng, sig)
            if form.startswith("-k") and not wild:
                name = name.lstrip("-") or "x"
            v = gen_string(rng)
            if not wild:
                if form.endswith("=v"):
                    if rng.random() < 0.07:
                        v = ""          # H2: `--name=` binds the empty string
                else:
                    while v.startswith("--"):
                        v = gen_string(rng)
            items.append(["opt", form, name, v])
        else:
            items.append(["stdin"])
    if rng.random() < 0.2:
        items.append(["dd", [gen_string(rng) for _ in range(rng.randint(0, 3))]])
    return items


def gen_items_valid(rng, sig):
    """A command line built to bind: every required parameter supplied exactly once (positionally or by an option
    naming it exactly or by a unique prefix), some optional ones, repeated options (last wins), extras for *args/**kw."""
    names = sig_names(sig)
    args, kwonly = sig["args"], sig["kwonly"]
    nreq = len(args) - sig["ndefaults"]
    npos = rng.randint(0, len(args))
    if sig["varargs"] and rng.random() < 0.4:
        npos = len(args) + rng.randint(1, 3)
    items = []
    for _ in range(npos):
        s = gen_string(rng, dash_ok=False)
        while s.startswith("-") or s in HELP_TOKENS:
            s = gen_string(rng, dash_ok=False)
        items.append(["pos", s] if rng.random() < 0.93 else ["stdin"])
    targets = []
    for i, a in enumerate(args):
        if i >= npos and (i < nreq or rng.random() < 0.5):
            targets.append(a)
    for a in kwonly:
        if a not in sig["kwdefaults"] or rng.random() < 0.5:
            targets.append(a)
    if sig["varkw"] and rng.random() < 0.5:
        targets.append(rng.choice(["zz", "other", "q9"]))
    if targets and rng.random() < 0.35:
        targets.append(rng.choice(targets))       # a repeated option
    rng.shuffle(targets)
    opts = []
    for tname in targets:
        typed = tname
        if tname in names and rng.random() < 0.5:
            # shortest-or-longer unique prefix
            ks = [k for k in range(1, len(tname) + 1)
                  if [n for n in names if n.startswith(tname[:k])] == [tname]]
            if ks:
                typed = tname[:rng.choice(ks)]
        if "_" in typed and rng.random() < 0.5:
            typed = typed.replace("_", "-")
        form = rng.choice(FORMS)
        if form.startswith("-k"):
            typed2 = typed.lstrip("-")
            if typed2 != typed:
                form = "--" + form[1:]
        v = gen_string(rng)
        if form.endswith("=v"):
            if rng.random() < 0.07:
                v = ""              # H2: `--name=` binds the empty string
        else:
            while v.startswith("--"):
                v = gen_string(rng)
        opts.append(["opt", form, typed, v])
    # interleave options among the positionals
    out = list(items)
    for o in opts:
        out.insert(rng.randint(0, len(out)), o)
    if rng.random() < 0.2 and (sig["varargs"] or npos < len(args)):
        room = 3 if sig["varargs"] else len(args) - npos
        # literal tail only where it cannot collide with an option given above
        taken = {t for t in targets}
        free = 0
        for a in args[npos:]:
            if a in taken:
                break
            free += 1
        k = rng.randint(0, min(room, free if not sig["varargs"] else (free if free < len(args) - npos else 3)))
        out.append(["dd", [gen_string(rng) for _ in range(k)]])
    return out


def gen_soup(rng, sig):
    """Unstructured argv: any mixture of tokens."""
    names = sig_names(sig)
    n = rng.choice([0, 1, 2, 2, 3, 3, 4, 5, 6])
    out = []
    for _ in range(n):
        r = rng.random()
        if r < 0.3:
            out.append(gen_string(rng))
        elif r < 0.45:
            out.append(rng.choice(DASH_STRINGS))
        else:
            nm = gen_typed_name(rng, sig)
            pre = rng.choice(["--", "--", "-", "---"])
            r2 = rng.random()
            if r2 < 0.5:
                out.append(pre + nm + "=" + gen_string(rng))
            else:
                out.append(pre + nm)
    return out


# exhaustive small scope: 9 signatures x argv of length <= 3 over a 12-token alphabet
SMALL_SIGS = [
    dict(args=[], ndefaults=0, varargs=None, kwonly=[], kwdefaults=[], varkw=None),
    dict(args=["x"], ndefaults=0, varargs=None, kwonly=[], kwdefaults=[], varkw=None),
    dict(args=["x", "xy"], ndefaults=0, varargs=None, kwonly=[], kwdefaults=[], varkw=None),
    dict(args=["x", "xy"], ndefaults=1, varargs=None, kwonly=[], kwdefaults=[], varkw="kw"),
    dict(args=["xa", "xb"], ndefaults=2, varargs="rest", kwonly=[], kwdefaults=[], varkw=None),
    dict(args=["a"], ndefaults=1, varargs=None, kwonly=["xy", "h"], kwdefaults=["h"], varkw=None),
    dict(args=[], ndefaults=0, varargs="rest", kwonly=["x"], kwdefaults=["x"], varkw="kw"),
    dict(args=["help"], ndefaults=1, varargs=None, kwonly=[], kwdefaults=[], varkw="kw"),
    dict(args=["x", "y"], ndefaults=1, varargs=None, kwonly=["xy"], kwdefaults=[], varkw=None),
]
SMALL_TOKENS = ["1", "a b", "", "--x=1", "--x", "-x=2", "--xy=3", "--", "-", "--h", "-y", "--x="]


def small_scope(tier, rng):
    out = []
    combos = []
    for n in (0, 1, 2, 3):
        combos.extend(itertools.product(SMALL_TOKENS, repeat=n))
    for sig in SMALL_SIGS:
        cs = combos
        if tier != "thorough":
            cs = rng.sample(combos, 60)
        for argv in cs:
            for mode in (MODES if tier == "thorough" else [rng.choice(MODES)]):
                out.append(dict(kind="parse", sig=sig, argv=list(argv), mode=mode, stdin="IN", unimportable=["a b"],
                                evalerr=[]))
    return out


# ----------------------------------------------------------------------------
# `apply` cases: the whole delivery path in-process (auto_apply / _PyMain.apply / heuristic_cmd / --map) onto every
# kind of callable that _get_argspec distinguishes
# ----------------------------------------------------------------------------

# kinds whose parameters `py` can see (it strips the bound first parameter itself) ...
CKINDS_TRANSPARENT = ["function", "lambda", "method", "classmethod", "classmethod_via_instance", "staticmethod",
                      "class_init", "class_new", "class_inherit_init"]
# ... and kinds that `py` can only call as f(*args, **kwargs): option names are passed on as typed
CKINDS_OPAQUE = ["callable_instance", "partial", "wrapped", "class_generic_new", "class_exception"]
CKINDS = CKINDS_TRANSPARENT + CKINDS_OPAQUE
CKINDS_IN_CLASS_BODY = [k for k in CKINDS if k not in ("function", "lambda", "partial", "wrapped")]
GENERIC_SIG = dict(args=[], ndefaults=0, varargs="c15a", kwonly=[], kwdefaults=[], varkw="c15k")

ROUTES = ["direct", "main_apply", "main_heur", "map"]
TARGET_NAME = "c15t"

DIRECT_MODE_TOKENS = {
    "auto": [None, None, "auto", "a", "Automatic", " AUTO "],
    "string": ["string", "string", "Str", "s", "literals", "strs"],
    "eval": ["eval", "eval", "e", "Expr", "expressions"],
}
MAIN_MODE_GOPTS = {
    "auto": [["--args=auto"], ["--args", "a"], ["-arg-mode=Automatic"], ["--safe", "--args=auto"], ["-q", "--args=auto"]],
    "string": [["--safe"], ["--safe"], ["--args=string"], ["--args", "Str"], ["-q", "--safe"], ["--args=eval", "--safe"],
               ["--argument=literal"], ["--safe", "--output=silent"]],
    "eval": [["--args=eval"], ["--arguments", "e"], ["--safe", "--args=expr"], ["--arg_mode=Evaluate", "--silent"]],
}
APPLY_FORMS = [["--apply", TARGET_NAME], ["--apply", TARGET_NAME], ["--apply=" + TARGET_NAME], ["-apply", TARGET_NAME],
               ["--call", TARGET_NAME], ["apply", TARGET_NAME], ["%apply", TARGET_NAME], ["-call=" + TARGET_NAME]]
MAP_FORMS = [["--map", TARGET_NAME], ["--map=" + TARGET_NAME], ["map", TARGET_NAME]]


# Argument strings for cases that run with the REAL evaluator (pyflyby's _Namespace, empty import database): what
# they are is decided by plain Python (eval in a namespace holding os and sys), not by a stub
REAL_EVALUABLE = ["2+3", "None", "[1, 2]", "0x10", "1e3", "3.5", "True", "{'a': 1}", "len('abc')", "sys.maxsize > 0",
                  "len(os.sep)", "(1, 2)", "'q'", '"dq"', "'2+3'", "os.sep", "1 # c", "not 0", "'a' 'b'", "b'by'",
                  "r'\\d'", "10-3", "2**10", "os.sep * 2", "'%s' % 5", "[x for x in (1, 2)]"]
REAL_UNIMPORTABLE = ["zzqhello", "zzq.bar", "Willowbrook29817621+5", "zzqf(x)", "zzqx if zzqy else zzqz",
                     "\u540d\u524dzzq", "zzq1 + os.sep", "zzq_", "[zzqa, 1]", "zzqcaf.txt", "zzq-latte", "zzq.a.b.c",
                     "sys.zzq", "os.sep + zzq"]
REAL_UNPARSABLE = ["a b", "$HOME", "hello world", "(1,", "x;y", "`ls`", "~/f", "*", "a=b", "1 2", "import os",
                   "print 1", "caf\udce9.txt", "'unterminated", "2014-07-18x", "a|", "%s", "> out", "$(true)", "x = 1"]
REAL_BLANK = [" ", "\t", "\n"]
REAL_POOL = REAL_EVALUABLE * 2 + REAL_UNIMPORTABLE * 2 + REAL_UNPARSABLE + REAL_BLANK + COMPILE_REJECTED_CLOSED


def real_substitute(rng, case):
    """Replace every argument string of a generated apply case by one from the real-evaluator pool."""
    def pick():
        return rng.choice(REAL_POOL)
    if case.get("items") is not None:
        items = []
        for it in case["items"]:
            if it[0] == "pos":
                items.append(["pos", pick()])
            elif it[0] == "opt":
                items.append(["opt", it[1], it[2], pick()])
            elif it[0] == "dd":
                items.append(["dd", [pick() for _ in it[1]]])
            else:
                items.append(it)
        case["items"] = items
        case["argv"] = render(items)
    else:
        case["map_args"] = [pick() for _ in case["map_args"]]
        case["argv"] = map_argv(case)
    case["ns"] = "real"
    case["stdin"] = rng.choice(["", "IN", "2+3", "zzqhello"])
    return case


def map_dd(case):
    """Where the `--` stands among the arguments of a --map case: None (no `--`), 0 (first: all literal), k > 0 (H1:
    the first k arguments are read in the current mode, the rest are literal)."""
    if "map_dd" in case:
        return case["map_dd"]
    return 0 if case.get("map_literal") else None


def map_argv(case):
    dd, args = map_dd(case), list(case["map_args"])
    if dd is None:
        return args
    return args[:dd] + ["--"] + args[dd:]


def map_steps(case):
    """[(argument, literal?)] of a --map case as the property reads it."""
    dd = map_dd(case)
    return [(a, dd is not None and i >= dd) for i, a in enumerate(case["map_args"])]


def looks_like_option_or_blank(a):
    """`py f ARGS...` without an argument-mode option first tries to read "f ARGS..." as one piece of Python text,
    unless an argument is blank or looks like an option (dash + letter/dash)."""
    import re
    return bool(re.match(r"\s*$|-[a-zA-Z-]", a))


def _sig_for_ckind(rng, ckind):
    for _ in range(50):
        sig = gen_sig(rng)
        if ckind in CKINDS_IN_CLASS_BODY and any(n.startswith("__") for n in sig_names(sig)):
            continue        # `__q` inside a class body is a different (mangled) parameter name
        return sig
    return dict(args=["x"], ndefaults=0, varargs=None, kwonly=[], kwdefaults=[], varkw=None)


def one_positional_binds(sig):
    nreq = len(sig["args"]) - sig["ndefaults"]
    if any(a not in sig["kwdefaults"] for a in sig["kwonly"]):
        return False
    if nreq > 1:
        return False
    return bool(sig["args"]) or bool(sig["varargs"])


def gen_apply(rng, ckind=None, route=None, valid=None, real=None):
    ckind = ckind or rng.choice(CKINDS)
    if real is None:
        real = rng.random() < 0.3
    sig = _sig_for_ckind(rng, ckind)
    route = route or rng.choice(["direct", "direct", "main_apply", "main_apply", "main_heur", "main_heur", "map"])
    if route == "map":
        for _ in range(20):
            if one_positional_binds(sig):
                break
            sig = _sig_for_ckind(rng, ckind)
        else:
            route = "direct"
    # the real evaluator: string and automatic mode only (what eval mode does with text that cannot be evaluated is
    # not part of the statement)
    mode = rng.choice(["string", "auto", "auto"] if real else MODES)
    case = dict(kind="apply", ckind=ckind, route=route, sig=sig, mode=mode,
                stdin=rng.choice(["", "IN", "1+1", "line1\nline2\n", "--x"]))
    if route == "map":
        n = rng.choice([1, 1, 2, 3, 4])
        r = rng.random()
        dd = None if r < 0.35 else (0 if r < 0.65 else rng.randint(1, n))      # H1: `--` in the middle / at the end
        args = []
        for i in range(n):
            literal = dd is not None and i >= dd
            s = gen_string(rng, dash_ok=literal)
            while not literal and (s.startswith("-") or s in HELP_TOKENS):
                s = gen_string(rng, dash_ok=False)
            args.append(s)
        case.update(map_literal=(dd == 0), map_dd=dd, map_args=args, items=None,
                    gopts=rng.choice(MAIN_MODE_GOPTS[mode] + ([[], ["-q"]] if mode == "auto" else [])),
                    form=rng.choice(MAP_FORMS))
        case["argv"] = map_argv(case)
        if real:
            real_substitute(rng, case)
        return case
    r = rng.random() if valid is None else (0.0 if valid else 0.9)
    if r < 0.45:
        items = gen_items_valid(rng, sig)
    elif r < 0.8:
        items = gen_items(rng, sig, wild=False)
    else:
        items = gen_items(rng, sig, wild=True)
    case["items"] = items
    case["argv"] = render(items)
    if real:
        real_substitute(rng, case)
    if route == "direct":
        case["mode_token"] = rng.choice(DIRECT_MODE_TOKENS[mode])
    elif route == "main_apply":
        case["gopts"] = rng.choice(MAIN_MODE_GOPTS[mode] + ([[], [], ["-q"]] if mode == "auto" else []))
        case["form"] = rng.choice(APPLY_FORMS)
    else:
        gopts = rng.choice(MAIN_MODE_GOPTS[mode])
        if mode == "auto" and any(looks_like_option_or_blank(a) for a in case["argv"]) and rng.random() < 0.6:
            gopts = rng.choice([[], [], ["-q"], ["--output=silent"]])
        case["gopts"] = gopts
        case["form"] = [TARGET_NAME]
    return case


def apply_scope(tier, rng):
    """Every kind of callable through every route, with a command line built to bind and one that need not."""
    out = []
    reps = 4 if tier == "thorough" else 1
    for ckind in CKINDS:
        for route in ROUTES:
            for _ in range(reps):
                for valid, real in ((True, False), (True, True), (False, False), (False, True)):
                    case = gen_apply(rng, ckind=ckind, route=route, valid=valid, real=real)
                    add_defvals(rng, case["sig"], case["argv"], real=real)
                    out.append(case)
    return out
