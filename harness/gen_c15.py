"""Generators for C15: function signatures, command lines (structured items and token soup)."""
from __future__ import annotations

import itertools

NAME_FAMILIES = [
    ["x", "xy", "xyz", "xy_z"],
    ["foo", "foobar", "foo_bar", "fo"],
    ["a", "ab", "abc", "b"],
    ["verbose", "v", "value", "val"],
    ["help", "h", "hx", "source", "src", "source_file"],
    ["arg", "args_", "argument", "kwarg"],
    ["n", "name", "names", "num"],
    ["debug", "depth", "d", "dest"],
    ["_p", "_", "_pq", "__q"],
    ["é", "éa", "名", "x1", "x12"],
]
ALL_NAMES = sorted({n for fam in NAME_FAMILIES for n in fam})

UNKNOWN_NAMES = ["zz", "q", "help", "h", "source", "xq", "foo_baz", "other", "he", "so", "x_", "class", "if", "None",
                 "1x", "x.y", "", "é2", "x y", "in"]

STRINGS = [
    "", " ", "\t", "\n", "1", "1+2", "3.5", "0x10", "1e3", "None", "True", "[1, 2]", "(1,", "{'a': 1}", "'q'", '"dq"',
    "os.path", "os.sep", "sys.argv[0]", "f(x)", "lambda: 0", "x if y else z", "a b", "hello world", "$HOME", "${x}",
    "`ls`", "$(rm -rf /)", "x;y", "a|b", "a&&b", "> out", "~/f", "*", "*.py", "a=b", "x=1", "=", "==", "a==b",
    "é", "名前", "a\\b", "a\\nb", "x\n", "1\n2", "  1", "1 # c", "# c", "yield", "*a", "print 1", "import os",
    "__import__('os').system('true')", "exit()", "1/0", "a.b.c", "Willowbrook29817621+5", "'unterminated", "r'\\d'",
    "b'by'", "f'{x}'", "...", "_", "x y z", "%s", "{0}", "\x00", "\x0c", "\r", "a\r\nb", " ", "\xa0",
    "\x1c", "\x1f\x85", "\u2003", "\u3000\t", "\u200b", "\u2028", "\ufeff", "1\u2003+\u20031", "\U0001F600", "a\u0301",
]
DASH_STRINGS = ["-", "--", "-5", "-1.5", "--x", "--x=1", "-x", "---", "--=", "-=", "-=x", "--x=", "--x==", "?", "??", "-?",
                "--?", "-??", "--??", "--help", "-h", "--h", "-help", "--source", "-source", "--help=1", "-h=", "-é", "--1x=2",
                "--x-y=1", "--x.y=1", "-- ", " --", "--\n", "- ", "-\n"]

# Hostile argument strings: text on which CPython's compile() gives up with something other than SyntaxError
# (lone surrogates = what argv holds for undecodable bytes (PEP 383) -> UnicodeEncodeError; very long / deeply nested
# text -> RecursionError / MemoryError; sizes are kept far from the depth-dependent thresholds), NUL, control
# characters, BOM, line-separator look-alikes inside quoted strings, 10k-character tokens, 199/250-deep brackets.
HOSTILE = [
    "caf\udce9.txt", "\udcff", "\ud800", "'\udce9'", "a\udc80b c", "\udce9=1", "x\udcc3\udca9", "r'\udcfe\udcff'", "1+\udc80",
    "a\x00b", "'\x00'", "\x00", "1\x00",
    "\x01\x02", "\x7f", "\x1b[31m", "\x08", "1\x0c+2", "'a\x0cb'", "'a\x0bb'", "'a\u2028b'", "'a\x85b'", "'a\rb'", "\"\x1c\"",
    "'''a\nb'''", "1\u2028+2", "'a\u2029'", "\x0b1", "1\x1d", "'\x1e\x1f'", "\"a\x0c\x0b\u2028b\"", "(1,\x0c2)",
    "\ufeff1+2", "'\ufeff'", "\ufeff", "\ufeff'x'",
    "x" * 10000, "'" + "y" * 10000 + "'", "9" * 10000, "a b " * 2500, "1" + "+x1" * 5000, "not " * 5000 + "x",
    "~" * 5000 + "1", "~" * 9000 + "1", "2**" * 5000 + "2", "a" + ".b" * 5000, "a" + "[0]" * 5000, "+" * 5000 + "1",
    "not " * 800 + "x", "~" * 1000 + "1", "a" + ".b" * 1000, "1" + "+x1" * 800, "1" + "<2" * 3000, "'a' " * 3000,
    "(" * 199 + "1" + ")" * 199, "(" * 250 + "1" + ")" * 250, "[" * 200 + "]" * 200, "[" * 3000 + "]" * 3000,
    "{" * 150 + "}" * 150, "f(" * 150 + ")" * 150, "f(" * 300 + ")" * 300, "lambda: " * 500 + "0", "1 if 2 else " * 500 + "3",
    "[" * 150 + "'\udce9'" + "]" * 150,
]
HOSTILE_DASH = ["-" * 5000 + "1", "-" * 9000 + "1", "-\udce9", "--\udce9=1", "-x\x00", "--x=\ufeff"]


def gen_hostile(rng, dash_ok=False):
    if dash_ok and rng.random() < 0.1:
        return rng.choice(HOSTILE_DASH)
    return rng.choice(HOSTILE)


def hostile_scope(tier, rng):
    """Every hostile string in every argument position (positional, `--k=v`, `--k v`, after `--`), next to evaluable
    neighbours, in auto mode (all) and in string / eval mode (a sample)."""
    sig = dict(args=["a", "b"], ndefaults=1, varargs="rest", kwonly=["key"], kwdefaults=["key"], varkw="kw")
    out = []
    strings = HOSTILE + HOSTILE_DASH
    for h in strings:
        placements = []
        if not h.startswith("-"):
            placements.append([["pos", "2+3"], ["pos", h], ["pos", "None"]])
        if h != "":
            placements.append([["pos", "2+3"], ["opt", "--k=v", "key", h]])
            placements.append([["opt", "-k=v", "zz", h], ["pos", "x y"]])
        if not h.startswith("--"):
            placements.append([["pos", "1"], ["opt", "--k v", "b", h]])
        placements.append([["pos", "1"], ["dd", [h, "2+3"]]])
        if tier != "thorough":
            placements = rng.sample(placements, min(2, len(placements)))
        for items in placements:
            modes = ["auto"] if tier != "thorough" else MODES
            if tier != "thorough" and rng.random() < 0.25:
                modes = ["auto", rng.choice(["string", "eval"])]
            for mode in modes:
                out.append(dict(kind="parse", sig=sig, items=items, argv=render(items), mode=mode, stdin=h,
                                unimportable=["x y"], evalerr=[]))
    return out


MODES = ["string", "eval", "auto"]
FORMS = ["--k=v", "--k v", "-k v", "-k=v"]
HELP_TOKENS = ["--?", "-?", "?", "--??", "-??", "??"]


def gen_sig(rng):
    """Return dict(args, ndefaults, varargs, kwonly, kwdefaults, varkw)."""
    r = rng.random()
    if r < 0.55:
        fams = rng.sample(NAME_FAMILIES, 1)
    elif r < 0.9:
        fams = rng.sample(NAME_FAMILIES, 2)
    else:
        fams = rng.sample(NAME_FAMILIES, 3)
    pool = [n for f in fams for n in f]
    rng.shuffle(pool)
    k = rng.choice([0, 1, 1, 2, 2, 3, 3, 4, 5, 6])
    names = pool[:min(k, len(pool))]
    nargs = rng.randint(0, len(names))
    if rng.random() < 0.5:
        nargs = len(names)
    args, kwonly = names[:nargs], names[nargs:]
    ndefaults = rng.choice([0, 0, rng.randint(0, len(args)), len(args)]) if args else 0
    kwdefaults = [n for n in kwonly if rng.random() < 0.6]
    used = set(names)
    varargs = None
    if rng.random() < 0.3:
        varargs = next(n for n in ["rest", "args", "va"] if n not in used)
    varkw = None
    if rng.random() < 0.3:
        varkw = next(n for n in ["kw", "kwargs", "opts"] if n not in used)
    return dict(args=args, ndefaults=ndefaults, varargs=varargs, kwonly=kwonly, kwdefaults=kwdefaults, varkw=varkw)


def sig_names(sig):
    return list(sig["args"]) + list(sig["kwonly"])


def gen_string(rng, dash_ok=True):
    if rng.random() < 0.04:
        return gen_hostile(rng, dash_ok)
    r = rng.random()
    if r < 0.62:
        return rng.choice(STRINGS)
    if r < 0.72 and dash_ok:
        return rng.choice(DASH_STRINGS)
    if r < 0.86:
        alpha = "ab1 +-=._'\"$;()[]é\n\t?*\\#,:"
        return "".join(rng.choice(alpha) for _ in range(rng.randint(0, 8)))
    if r < 0.93:
        return rng.choice(STRINGS) + rng.choice(STRINGS)
    return rng.choice(["x" * 300, "1+" * 40 + "1", " " * 20, "-" * 5, "=" * 4])


def gen_typed_name(rng, sig):
    """An option name as the user types it (before '-' -> '_' replacement)."""
    names = sig_names(sig)
    r = rng.random()
    if names and r < 0.45:
        n = rng.choice(names)
    elif names and r < 0.8:
        n = rng.choice(names)
        n = n[:rng.randint(1, len(n))]
    elif names and r < 0.86:
        n = rng.choice(names) + rng.choice(["x", "_", "1", "y"])
    else:
        n = rng.choice(UNKNOWN_NAMES)
    if "_" in n and rng.random() < 0.5:
        n = n.replace("_", "-")
    return n


def render_item(it):
    k = it[0]
    if k == "pos":
        return [it[1]]
    if k == "stdin":
        return ["-"]
    if k == "dd":
        return ["--"] + list(it[1])
    if k == "opt":
        form, name, value = it[1], it[2], it[3]
        if form == "--k=v":
            return ["--" + name + "=" + value]
        if form == "-k=v":
            return ["-" + name + "=" + value]
        if form == "--k v":
            return ["--" + name, value]
        if form == "-k v":
            return ["-" + name, value]
    raise ValueError(it)


def render(items):
    out = []
    for it in items:
        out.extend(render_item(it))
    return out


def gen_items(rng, sig, wild=False):
    """Structured command line.  With wild=False the side conditions of the documented forms hold
    (positionals without leading dash, '=' values non-empty, ' ' values not starting with '--')."""
    n = rng.choice([0, 1, 1, 2, 2, 3, 3, 4, 5, 7])
    items = []
    for _ in range(n):
        r = rng.random()
        if r < 0.45:
            s = gen_string(rng, dash_ok=wild)
            if not wild:
                while s.startswith("-") or s in HELP_TOKENS:
                    s = gen_string(rng, dash_ok=False)
            items.append(["pos", s])
        elif r < 0.95:
            form = rng.choice(FORMS)
            name = gen_typed_name(rng, sig)
            if form.startswith("-k") and not wild:
                name = name.lstrip("-") or "x"
            v = gen_string(rng)
            if not wild:
                if form.endswith("=v"):
                    while v == "":
                        v = gen_string(rng)
                else:
                    while v.startswith("--"):
                        v = gen_string(rng)
            items.append(["opt", form, name, v])
        else:
            items.append(["stdin"])
    if rng.random() < 0.2:
        items.append(["dd", [gen_string(rng) for _ in range(rng.randint(0, 3))]])
    return items


def gen_items_valid(rng, sig):
    """A command line built to bind: every required parameter supplied exactly once (positionally or by an option
    naming it exactly or by a unique prefix), some optional ones, repeated options (last wins), extras for *args/**kw."""
    names = sig_names(sig)
    args, kwonly = sig["args"], sig["kwonly"]
    nreq = len(args) - sig["ndefaults"]
    npos = rng.randint(0, len(args))
    if sig["varargs"] and rng.random() < 0.4:
        npos = len(args) + rng.randint(1, 3)
    items = []
    for _ in range(npos):
        s = gen_string(rng, dash_ok=False)
        while s.startswith("-") or s in HELP_TOKENS:
            s = gen_string(rng, dash_ok=False)
        items.append(["pos", s] if rng.random() < 0.93 else ["stdin"])
    targets = []
    for i, a in enumerate(args):
        if i >= npos and (i < nreq or rng.random() < 0.5):
            targets.append(a)
    for a in kwonly:
        if a not in sig["kwdefaults"] or rng.random() < 0.5:
            targets.append(a)
    if sig["varkw"] and rng.random() < 0.5:
        targets.append(rng.choice(["zz", "other", "q9"]))
    if targets and rng.random() < 0.35:
        targets.append(rng.choice(targets))       # a repeated option
    rng.shuffle(targets)
    opts = []
    for tname in targets:
        typed = tname
        if tname in names and rng.random() < 0.5:
            # shortest-or-longer unique prefix
            ks = [k for k in range(1, len(tname) + 1)
                  if [n for n in names if n.startswith(tname[:k])] == [tname]]
            if ks:
                typed = tname[:rng.choice(ks)]
        if "_" in typed and rng.random() < 0.5:
            typed = typed.replace("_", "-")
        form = rng.choice(FORMS)
        if form.startswith("-k"):
            typed2 = typed.lstrip("-")
            if typed2 != typed:
                form = "--" + form[1:]
        v = gen_string(rng)
        if form.endswith("=v"):
            while v == "":
                v = gen_string(rng)
        else:
            while v.startswith("--"):
                v = gen_string(rng)
        opts.append(["opt", form, typed, v])
    # interleave options among the positionals
    out = list(items)
    for o in opts:
        out.insert(rng.randint(0, len(out)), o)
    if rng.random() < 0.2 and (sig["varargs"] or npos < len(args)):
        room = 3 if sig["varargs"] else len(args) - npos
        # literal tail only where it cannot collide with an option given above
        taken = {t for t in targets}
        free = 0
        for a in args[npos:]:
            if a in taken:
                break
            free += 1
        k = rng.randint(0, min(room, free if not sig["varargs"] else (free if free < len(args) - npos else 3)))
        out.append(["dd", [gen_string(rng) for _ in range(k)]])
    return out


def gen_soup(rng, sig):
    """Unstructured argv: any mixture of tokens."""
    names = sig_names(sig)
    n = rng.choice([0, 1, 2, 2, 3, 3, 4, 5, 6])
    out = []
    for _ in range(n):
        r = rng.random()
        if r < 0.3:
            out.append(gen_string(rng))
        elif r < 0.45:
            out.append(rng.choice(DASH_STRINGS))
        else:
            nm = gen_typed_name(rng, sig)
            pre = rng.choice(["--", "--", "-", "---"])
            r2 = rng.random()
            if r2 < 0.5:
                out.append(pre + nm + "=" + gen_string(rng))
            else:
                out.append(pre + nm)
    return out


# exhaustive small scope: 9 signatures x argv of length <= 3 over a 12-token alphabet
SMALL_SIGS = [
    dict(args=[], ndefaults=0, varargs=None, kwonly=[], kwdefaults=[], varkw=None),
    dict(args=["x"], ndefaults=0, varargs=None, kwonly=[], kwdefaults=[], varkw=None),
    dict(args=["x", "xy"], ndefaults=0, varargs=None, kwonly=[], kwdefaults=[], varkw=None),
    dict(args=["x", "xy"], ndefaults=1, varargs=None, kwonly=[], kwdefaults=[], varkw="kw"),
    dict(args=["xa", "xb"], ndefaults=2, varargs="rest", kwonly=[], kwdefaults=[], varkw=None),
    dict(args=["a"], ndefaults=1, varargs=None, kwonly=["xy", "h"], kwdefaults=["h"], varkw=None),
    dict(args=[], ndefaults=0, varargs="rest", kwonly=["x"], kwdefaults=["x"], varkw="kw"),
    dict(args=["help"], ndefaults=1, varargs=None, kwonly=[], kwdefaults=[], varkw="kw"),
    dict(args=["x", "y"], ndefaults=1, varargs=None, kwonly=["xy"], kwdefaults=[], varkw=None),
]
SMALL_TOKENS = ["1", "a b", "", "--x=1", "--x", "-x=2", "--xy=3", "--", "-", "--h", "-y", "--x="]


def small_scope(tier, rng):
    out = []
    combos = []
    for n in (0, 1, 2, 3):
        combos.extend(itertools.product(SMALL_TOKENS, repeat=n))
    for sig in SMALL_SIGS:
        cs = combos
        if tier != "thorough":
            cs = rng.sample(combos, 60)
        for argv in cs:
            for mode in (MODES if tier == "thorough" else [rng.choice(MODES)]):
                out.append(dict(kind="parse", sig=sig, argv=list(argv), mode=mode, stdin="IN", unimportable=["a b"],
                                evalerr=[]))
    return out
