"""C16 — xreload updates live references and is atomic when the new code fails."""
from __future__ import annotations

import importlib
import importlib.util
import inspect
import json
import linecache
import os
import re
import shutil
import sys
import tempfile
import types

from vcommon import Prop
import gen_c16

_COUNTER = [0]
import builtins as _b
_BUILTINS_DICT = _b.__dict__
_ADDR = re.compile(r"0x[0-9a-fA-F]+")
SENTINEL = 777000


# ----------------------------------------------------------------------------
# canonical observation of a namespace (model-independent; only CPython semantics)
# ----------------------------------------------------------------------------

def canon(v, modname, depth=0, path=()):
    if depth > 6 or id(v) in path:
        return "<deep>"
    path = path + (id(v),)
    if v is None or isinstance(v, (bool, int, float, str, bytes)):
        return repr(v)
    if isinstance(v, (list, tuple)):
        return [type(v).__name__] + [canon(x, modname, depth + 1, path) for x in v]
    if isinstance(v, (set, frozenset)):
        return ["set"] + sorted(json.dumps(canon(x, modname, depth + 1, path)) for x in v)
    if isinstance(v, dict):
        return ["dict"] + sorted([json.dumps(canon(k, modname, depth + 1, path)), canon(x, modname, depth + 1, path)]
                                 for k, x in list(v.items()))
    if isinstance(v, types.FunctionType):
        return "<func %s>" % v.__name__
    if isinstance(v, types.MethodType):
        return "<method %s of %s>" % (getattr(v.__func__, "__name__", "?"), json.dumps(canon(v.__self__, modname, depth + 1, path)))
    if isinstance(v, type):
        return "<class %s.%s>" % (v.__module__, v.__name__)
    if isinstance(v, types.ModuleType):
        return "<module %s>" % v.__name__
    if type(v).__module__ == modname:
        return ["inst", type(v).__name__, _state(v, modname, depth, path)]
    return "<%s %s>" % (type(v).__name__, _ADDR.sub("0x", repr(v))[:80])


def _state(o, modname, depth, path):
    st = {}
    d = getattr(o, "__dict__", None)
    if isinstance(d, dict):
        for k, x in list(d.items()):
            st[str(k)] = canon(x, modname, depth + 1, path)
    for klass in type(o).__mro__:
        for s in klass.__dict__.get("__slots__", ()) or ():
            if isinstance(s, str) and s not in ("__dict__", "__weakref__"):
                try:
                    st["slot:" + s] = canon(getattr(o, s), modname, depth + 1, path)
                except AttributeError:
                    st["slot:" + s] = "<unset>"
    return sorted(st.items())


def _call(fn, modname):
    try:
        sig = inspect.signature(fn)
    except (TypeError, ValueError):
        return ["!nosig"]
    req = tot = 0
    for p in sig.parameters.values():
        if p.kind in (p.POSITIONAL_ONLY, p.POSITIONAL_OR_KEYWORD):
            tot += 1
            if p.default is p.empty:
                req += 1
    out = []
    for n in sorted({req, tot}):
        args = [2, 3, 4, 5, 6][:n]
        try:
            out.append([n, canon(fn(*args), modname)])
        except Exception as e:
            out.append([n, "!" + type(e).__name__])
    return out


def _is_callable_member(v):
    return isinstance(v, (types.FunctionType, types.MethodType))


def _attr_probe(owner, a, modname, do_call):
    try:
        v = getattr(owner, a)
    except Exception as e:
        return "!" + type(e).__name__
    if _is_callable_member(v):
        return ["callable", getattr(v, "__name__", "?"), _call(v, modname) if do_call else None]
    return ["value", canon(v, modname)]


def probe(obj, modname, depth=0):
    if isinstance(obj, types.FunctionType):
        return dict(kind="func", name=obj.__name__, doc=obj.__doc__, defaults=canon(obj.__defaults__, modname),
                    attrs=canon(dict(vars(obj)), modname), calls=_call(obj, modname))
    if isinstance(obj, types.MethodType):
        return dict(kind="method", name=getattr(obj.__func__, "__name__", "?"), calls=_call(obj, modname),
                    selfis=canon(obj.__self__, modname))
    if isinstance(obj, type):
        if obj.__module__ != modname:
            return dict(kind="extclass", name=obj.__module__ + "." + obj.__name__)
        out = dict(kind="class", name=obj.__name__, doc=obj.__doc__, bases=[b.__name__ for b in obj.__bases__],
                   mro=[b.__name__ for b in obj.__mro__], slots=canon(obj.__dict__.get("__slots__"), modname))
        inst = None
        for args in ((3,), ()):
            try:
                inst = obj(*args)
                out["ctor"] = len(args)
                break
            except Exception as e:
                out["ctor"] = "!" + type(e).__name__
        attrs = {}
        for a in sorted(dir(obj)):
            if a.startswith("__"):
                continue
            raw = inspect.getattr_static(obj, a, None)
            rk = type(raw).__name__
            ent = dict(raw=rk)
            ent["via_class"] = _attr_probe(obj, a, modname, do_call=rk in ("staticmethod", "classmethod"))
            if inst is not None:
                ent["via_inst"] = _attr_probe(inst, a, modname, do_call=True)
            attrs[a] = ent
        out["attrs"] = attrs
        if inst is not None:
            out["inst_state"] = _state(inst, modname, 0, ())
            out["inst_is"] = isinstance(inst, obj)
        return out
    if isinstance(obj, types.ModuleType):
        return dict(kind="module", name=obj.__name__)
    if type(obj).__module__ == modname and not isinstance(obj, type):
        attrs = {}
        for a in sorted(dir(type(obj))):
            if a.startswith("__"):
                continue
            attrs[a] = _attr_probe(obj, a, modname, do_call=True)
        out = dict(kind="inst", cls=type(obj).__name__, state=_state(obj, modname, 0, ()), attrs=attrs)
        if "__weakref__" in dir(type(obj)):
            try:
                out["weakref"] = repr(obj.__weakref__)
            except Exception as e:
                out["weakref"] = "!" + type(e).__name__
        return out
    if isinstance(obj, (list, tuple)) and depth < 2:
        return dict(kind=type(obj).__name__, elems=[probe(e, modname, depth + 1) for e in obj])
    if isinstance(obj, dict) and depth < 2:
        return dict(kind="dict", elems=sorted([json.dumps(canon(k, modname)), probe(e, modname, depth + 1)]
                                               for k, e in list(obj.items())))
    return dict(kind="value", value=canon(obj, modname))


# names the import system / xreload itself / the warnings machinery (an ImportWarning about a relative import registers
# itself in the importing module's globals) put into a module; every other name — dunder or not — belongs to the source
SYSTEM_DUNDERS = frozenset(["__builtins__", "__cached__", "__file__", "__loader__", "__name__", "__package__", "__spec__",
                            "__loadtime__", "__path__", "__warningregistry__"])


def _is_submodule_attr(n, v):
    """`pkg.sub` set by the import system when the submodule `pkg.sub` of a generated package is loaded"""
    return (isinstance(v, types.ModuleType) and isinstance(getattr(v, "__name__", None), str)
            and v.__name__.startswith("c16m") and "." in v.__name__ and v.__name__.rsplit(".", 1)[1] == n)


def public(ns):
    return sorted(n for n in ns if isinstance(n, str) and n not in SYSTEM_DUNDERS and not _is_submodule_attr(n, ns[n]))


def submodule_attrs(ns):
    return sorted(n for n in ns if isinstance(n, str) and _is_submodule_attr(n, ns[n]))


def cells_equal(a, b):
    """what `==` says about the non-updatable closure cell contents of two functions, pairwise; a comparison that raises
    counts as "not equal" (that is how _livepatch__function reads it)"""
    ca, cb = getattr(a, "__closure__", None) or (), getattr(b, "__closure__", None) or ()
    for x, y in zip(ca, cb):
        try:
            u, v = x.cell_contents, y.cell_contents
        except ValueError:
            continue
        if isinstance(u, _UPDATABLE):
            continue
        try:
            if not (u is v or u == v):
                return False
        except Exception:
            return False
    return True


def lazy_view(mod):
    """PEP 562: what module-level __getattr__ / __dir__ make visible"""
    try:
        v = repr(getattr(mod, "lazy_attr"))
    except AttributeError:
        v = "<AttributeError>"
    except Exception as e:
        v = "!" + type(e).__name__
    try:
        d = sorted(x for x in dir(mod) if x not in SYSTEM_DUNDERS and not _is_submodule_attr(x, mod.__dict__.get(x)))
    except Exception as e:
        d = "!" + type(e).__name__
    return [v, d]


def observe(ns, modname):
    """ns: dict name -> object.  Returns canonical observation (phase 1: read-only calls)."""
    names = public(ns)
    out = dict(names=names, values={}, relations=[], aliases=[])
    for n in names:
        try:
            out["values"][n] = probe(ns[n], modname)
        except Exception as e:  # never expected
            out["values"][n] = "!probe " + type(e).__name__
    classes = [n for n in names if isinstance(ns[n], type) and ns[n].__module__ == modname]
    insts = [n for n in names if type(ns[n]).__module__ == modname and not isinstance(ns[n], type)]
    for a in classes:
        for b in classes:
            if a != b:
                out["relations"].append(["issubclass", a, b, issubclass(ns[a], ns[b])])
    for i in insts:
        for c in classes:
            out["relations"].append(["isinstance", i, c, isinstance(ns[i], ns[c])])
            out["relations"].append(["type_is", i, c, type(ns[i]) is ns[c]])
    groups = {}
    for n in names:
        v = ns[n]
        if isinstance(v, (types.FunctionType, type, dict, list)) or type(v).__module__ == modname:
            groups.setdefault(id(v), []).append(n)
    out["aliases"] = sorted(g for g in groups.values() if len(g) > 1)
    return out


def rebind_ints(ns):
    k = 0
    for n in public(ns):
        v = ns[n]
        if isinstance(v, int) and not isinstance(v, bool):
            k += 1
            ns[n] = SENTINEL + k


# ----------------------------------------------------------------------------
# non-invasive structure: shapes, snapshot, flags
# ----------------------------------------------------------------------------

_UPDATABLE = (types.FunctionType, types.MethodType, type, dict)


def shape(obj, modname):
    """The parts of an object the property's side condition talks about (name, closure shape, slot layout, bases)."""
    if isinstance(obj, types.FunctionType):
        cl = obj.__closure__ or ()
        cells = []
        for c in cl:
            try:
                v = c.cell_contents
            except ValueError:
                cells.append(["empty"])
                continue
            if isinstance(v, _UPDATABLE):
                cells.append([type(v).__name__, "updatable"])
            else:
                cells.append([type(v).__name__, canon(v, modname)])
        return dict(kind="func", name=obj.__name__, module=obj.__module__, ncells=len(cl),
                    freevars=list(obj.__code__.co_freevars), cells=cells)
    if isinstance(obj, type):
        # slot layout and base classes: of the class and of every ancestor defined in the module
        layout = [[k.__name__, canon(k.__dict__.get("__slots__"), modname),
                   [[b.__module__ == modname, b.__name__] for b in k.__bases__]]
                  for k in obj.__mro__ if k.__module__ == modname]
        return dict(kind="class", name=obj.__name__, module=obj.__module__,
                    slots=canon(obj.__dict__.get("__slots__"), modname), layout=layout,
                    bases=[[b.__module__ == modname, b.__name__] for b in obj.__bases__], meta=type(obj).__name__)
    return dict(kind="other", type=type(obj).__name__)


def cell_type_inmod(fn, modname):
    """does a closure cell of fn hold an object whose *type* is defined by the module (an instance of a module class, a
    class with an in-module metaclass)?  `type(old) != type(new)` then compares an old with a scratch type."""
    for c in getattr(fn, "__closure__", None) or ():
        try:
            v = c.cell_contents
        except ValueError:
            continue
        if getattr(type(v), "__module__", None) == modname:
            return True
    return False


def same_shape(a, b):
    """name, closure shape, slot layout and base classes unchanged (cell *values* are D17's hypothesis, reported apart)."""
    if a["kind"] != b["kind"] or a["kind"] == "other":
        return False
    if a["kind"] == "func":
        return (a["name"], a["module"], a["ncells"], a["freevars"]) == (b["name"], b["module"], b["ncells"], b["freevars"])
    return ((a["name"], a["module"], a["slots"], a["bases"], a["meta"], a["layout"])
            == (b["name"], b["module"], b["slots"], b["bases"], b["meta"], b["layout"]))


def _children(obj, modname):
    """(label, child) pairs of the object graph below a module value, without calling user code."""
    if isinstance(obj, types.FunctionType):
        yield "__code__", obj.__code__
        yield "__defaults__", obj.__defaults__
        yield "__doc__", obj.__doc__
        yield "__name__", obj.__name__
        for k, v in list(vars(obj).items()):
            yield "attr:" + str(k), v
        for i, c in enumerate(obj.__closure__ or ()):
            try:
                yield "cell%d" % i, c.cell_contents
            except ValueError:
                pass
    elif isinstance(obj, types.MethodType):
        yield "__func__", obj.__func__
        yield "__self__", obj.__self__
    elif isinstance(obj, (staticmethod, classmethod)):
        yield "__func__", obj.__func__
    elif isinstance(obj, property):
        yield "fget", obj.fget
        yield "fset", obj.fset
    elif isinstance(obj, type):
        if obj.__module__ == modname:
            for i, b in enumerate(obj.__bases__):
                yield "base%d" % i, b
            for k, v in list(obj.__dict__.items()):
                if k in ("__dict__", "__weakref__"):
                    yield "desc:" + k, v      # the descriptor object itself (a leaf)
                else:
                    yield "attr:" + str(k), v
    elif isinstance(obj, dict):
        for k, v in list(obj.items()):
            yield "key:" + repr(k), v
    elif isinstance(obj, (list, tuple)):
        for i, v in enumerate(obj):
            yield "elem%d" % i, v
    elif type(obj).__module__ == modname:
        yield "__class__", type(obj)
        d = getattr(obj, "__dict__", None)
        if isinstance(d, dict):
            for k, v in list(d.items()):
                yield "attr:" + str(k), v
        for klass in type(obj).__mro__:
            for s in klass.__dict__.get("__slots__", ()) or ():
                if isinstance(s, str) and hasattr(obj, s) and s not in ("__dict__", "__weakref__"):
                    yield "slot:" + s, getattr(obj, s)


def snapshot(module, modname):
    """Deep structural snapshot of everything reachable from the module dict: {id: (type, [(label, child id)])}.
    Keeps the objects alive so ids stay unique.  Only compared inside one process."""
    seen, keep, todo = {}, [], [module.__dict__]
    while todo:
        o = todo.pop()
        if id(o) in seen:
            continue
        keep.append(o)
        kids = list(_children(o, modname))
        leaf = None
        if not kids and not isinstance(o, (dict, list, tuple, types.FunctionType, type)):
            try:
                leaf = _ADDR.sub("0x", repr(o))[:60]
            except Exception:
                leaf = "?"
        seen[id(o)] = (type(o).__name__, [(l, id(c)) for l, c in kids], leaf)
        for _, c in kids:
            todo.append(c)
    return seen, keep


def diff_snapshots(a, b, root_id):
    if a == b:
        return None
    out = []
    for i in a:
        if i not in b:
            out.append("object vanished: %s" % (a[i][0],))
        elif a[i] != b[i]:
            la, lb = dict(a[i][1]), dict(b[i][1])
            ch = sorted(set(k for k in set(la) | set(lb) if la.get(k) != lb.get(k)))
            out.append("%s%s changed at %s" % (a[i][0], " (module dict)" if i == root_id else "", ch[:6]))
    for i in b:
        if i not in a:
            out.append("new object reachable: %s" % (b[i][0],))
    return out[:6] or ["snapshots differ"]


def foreign_globals(obj, module, modname, old_ids, depth=0, seen=None):
    """Is an object *born in the scratch module* reachable from obj?  (a function defined by this module whose globals
    are not the module's dict, or a class / instance of a class of this module that did not exist before the reload)"""
    seen = seen if seen is not None else set()
    if id(obj) in seen or depth > 6:
        return False
    seen.add(id(obj))
    if isinstance(obj, types.FunctionType):
        if obj.__module__ == modname and obj.__globals__ is not module.__dict__:
            return True
    elif isinstance(obj, type):
        if obj.__module__ == modname and id(obj) not in old_ids:
            return True
    elif type(obj).__module__ == modname and id(type(obj)) not in old_ids:
        return True
    if isinstance(obj, type) and obj.__module__ == modname:
        for b in obj.__mro__[1:]:
            if b.__module__ == modname and foreign_globals(b, module, modname, old_ids, depth + 1, seen):
                return True
    for _, c in _children(obj, modname):
        if isinstance(c, (types.FunctionType, types.MethodType, staticmethod, classmethod, property, type, dict, list, tuple)) \
                or type(c).__module__ == modname:
            if foreign_globals(c, module, modname, old_ids, depth + 1, seen):
                return True
    return False


def global_deps(obj, modname, depth=0, seen=None):
    """Global names read by the code reachable from obj (functions, methods, closures, class bodies' functions)."""
    seen = seen if seen is not None else set()
    out = set()
    if id(obj) in seen or depth > 6:
        return out
    seen.add(id(obj))
    if isinstance(obj, types.CodeType):
        out |= set(obj.co_names)
        for c in obj.co_consts:
            if isinstance(c, types.CodeType):
                out |= global_deps(c, modname, depth + 1, seen)
        return out
    if isinstance(obj, types.FunctionType):
        out |= global_deps(obj.__code__, modname, depth + 1, seen)
    if isinstance(obj, type) and obj.__module__ == modname:
        for b in obj.__mro__[1:]:
            if b.__module__ == modname:
                out |= global_deps(b, modname, depth + 1, seen)
    for _, c in _children(obj, modname):
        if isinstance(c, (types.FunctionType, types.MethodType, staticmethod, classmethod, property, type, dict, list, tuple)) \
                or type(c).__module__ == modname:
            out |= global_deps(c, modname, depth + 1, seen)
    return out


def has_inst_hook(obj, modname):
    """does the class (of the value), or an ancestor defined in the module, define __livepatch__ / __reload_update__ as a
    plain instance method (D80: livepatch calls it for the *class* without self; inside _livepatch__bases the TypeError is
    taken for a refused __bases__ assignment and the class is replaced instead of patched)"""
    if obj is None:
        return False
    k = obj if isinstance(obj, type) else type(obj)
    return any(isinstance(c.__dict__.get(h), types.FunctionType)
               for c in k.__mro__ if getattr(c, "__module__", None) == modname for h in ("__livepatch__", "__reload_update__"))


def cell_self_unnamed(fn, ns, modname):
    """does a closure cell of the function hold a bound method whose __self__ is an instance of a module class that no
    module-level name refers to (e.g. the name was rebound later)?  _livepatch__method only updates __func__, and nothing
    else leads livepatch to that instance (D82)."""
    if not isinstance(fn, types.FunctionType):
        return False
    named = set(id(v) for v in ns.values())
    for c in fn.__closure__ or ():
        try:
            v = c.cell_contents
        except ValueError:
            continue
        if isinstance(v, types.MethodType) and type(v.__self__).__module__ == modname and not isinstance(v.__self__, type) \
                and id(v.__self__) not in named:
            return True
    return False


def inmod_base(obj, modname):
    k = obj if isinstance(obj, type) else type(obj)
    return any(b.__module__ == modname for b in k.__mro__[1:])


def class_of(obj):
    return obj if isinstance(obj, type) else type(obj)


def pairing(old_ns, new_ns, modname):
    """Walk both namespaces along equal paths.  Returns (names whose old object is paired with two different new
    objects, names below which a closure cell holds an updatable object that cannot be patched in place)."""
    pairs = {}
    rpairs = {}
    names = {}
    rnames = {}
    cellbad = set()
    kindbad = set()
    kwbad = set()

    def patchable(o):
        return isinstance(o, (types.FunctionType, type, dict)) or type(o).__module__ == modname

    def walk(o, n, top, depth, seen):
        if o is n or depth > 3 or (id(o), id(n)) in seen:
            return
        seen.add((id(o), id(n)))
        if patchable(o) and patchable(n):
            pairs.setdefault(id(o), set()).add(id(n))
            names.setdefault(id(o), set()).add(top)
            rpairs.setdefault(id(n), set()).add(id(o))
            rnames.setdefault(id(n), set()).add(top)
        if type(o) is not type(n) and not (type(o).__module__ == modname and type(n).__module__ == modname):
            return
        if isinstance(o, type) and isinstance(n, type) and kind_changed(o, n, modname):
            kindbad.add(top)
        if isinstance(o, types.FunctionType) and isinstance(n, types.FunctionType) and o.__kwdefaults__ != n.__kwdefaults__:
            kwbad.add(top)
        if isinstance(o, (list, tuple)):
            return  # containers other than dicts are replaced, not descended into
        if isinstance(o, (types.FunctionType, type)) and not same_shape(shape(o, modname), shape(n, modname)):
            return  # not patched in place: the new object is bound instead
        co, cn = dict(_children(o, modname)), dict(_children(n, modname))
        for l in co:
            if l in cn and (l.startswith(("attr:", "key:", "cell", "slot:", "base")) or l in ("__func__", "__class__")):
                a, b = co[l], cn[l]
                if isinstance(a, (staticmethod, classmethod)) and type(a) is type(b):
                    a, b = a.__func__, b.__func__
                if l.startswith("cell") and a is not b and isinstance(a, _UPDATABLE) and type(a) is type(b):
                    if isinstance(a, (types.FunctionType, type)):
                        sa, sb = shape(a, modname), shape(b, modname)
                        if not same_shape(sa, sb) or sa.get("cells") != sb.get("cells"):
                            cellbad.add(top)
                    if isinstance(a, types.FunctionType) and a.__module__ != modname:
                        cellbad.add(top)
                walk(a, b, top, depth + 1, seen)

    for nm in public(old_ns):
        if nm in new_ns:
            walk(old_ns[nm], new_ns[nm], nm, 0, set())
    bad = set()
    for i, s in pairs.items():
        if len(s) > 1:
            bad |= names[i]
    for i, s in rpairs.items():
        if len(s) > 1:
            bad |= rnames[i]
    return sorted(bad), sorted(cellbad), sorted(kindbad), sorted(kwbad)


def kind_changed(old_val, fresh_val, modname):
    """Did a method of the (class of the) value change between plain/static/class/property/data?"""
    if old_val is None:
        return False
    ko, kn = class_of(old_val), class_of(fresh_val)
    if ko.__module__ != modname or kn.__module__ != modname:
        return False
    M = {"staticmethod", "classmethod", "function", "property"}
    for a in set(dir(ko)) & set(dir(kn)):
        if a.startswith("__"):
            continue
        to = type(inspect.getattr_static(ko, a, None)).__name__
        tn = type(inspect.getattr_static(kn, a, None)).__name__
        if to != tn and {to, tn} & M:
            return True
    return False



# ----------------------------------------------------------------------------
# abstraction of real object graphs to the model heap (for K)
# ----------------------------------------------------------------------------

class Abstractor:
    """id(real object) -> model id (index into the heap list); objects are kept alive so ids stay unique."""

    def __init__(self, modname):
        self.modname = modname
        self.ids = {}
        self.objs = []
        self.tok = {}
        self.keep = []
        self.unsupported = []
        self.dyn = {}     # model id -> ["f", type name] | ["h", model id of the class]: exact type when not the kind's default
        # True when every __livepatch__ hook of the case is transparent by construction (gen_c16.HOOKS: the hook returns
        # do_livepatch() / livepatch(..., heed_hook=False)): livepatch() with such a hook does exactly what it does without
        # one, so the hook-less model applies and the hook is just another attribute.  Any other hook: K is skipped.
        self.hooks_transparent = False

    @staticmethod
    def keystr(k):
        """dict keys as model strings: `_livepatch__dict` orders keys by str(key); non-string keys get the type appended so
        that 1 and '1' stay different keys"""
        return k if isinstance(k, str) else "%s\x01%s" % (str(k), type(k).__name__)

    def exact_type(self, o, default):
        t = type(o)
        if t is default:
            return
        i = self.ids[id(o)]
        if self.is_modclass(t):
            self.dyn[i] = ["h", self.ref(t)]
        else:
            self.dyn[i] = ["f", t.__module__ + "." + t.__qualname__]

    def dyn_table(self):
        return [[i] + v for i, v in sorted(self.dyn.items())]

    def token(self, o):
        if id(o) not in self.tok:
            self.tok[id(o)] = len(self.tok)
            self.keep.append(o)
        return self.tok[id(o)]

    def ref(self, o):
        """model id of o, allocating (and queueing the object for description) if new"""
        i = self.ids.get(id(o))
        if i is None:
            i = len(self.objs)
            self.ids[id(o)] = i
            self.objs.append(o)
        return i

    def is_modclass(self, o):
        # classes of the module under reload, and of the harness's helper modules (foreign, but Python-level and patchable)
        return isinstance(o, type) and (o.__module__ == self.modname or str(o.__module__).startswith("c16ext"))

    def describe(self, o):
        mn = self.modname
        if isinstance(o, types.FunctionType):
            cells = [self.ref(c) for c in o.__closure__ or ()]
            if (hasattr(o, "__livepatch__") or hasattr(o, "__reload_update__")) and not self.hooks_transparent:
                self.unsupported.append("hook")
            return dict(k="func", name=o.__name__, modn=o.__module__, code=self.token(o.__code__),
                        defaults=self.token(o.__defaults__), doc=self.token(o.__doc__), dict=self.ref(o.__dict__),
                        cells=cells, freevars=list(o.__code__.co_freevars))
        if self.is_modclass(o):
            self.exact_type(o, type)
            if (hasattr(o, "__livepatch__") or hasattr(o, "__reload_update__")) and not self.hooks_transparent:
                self.unsupported.append("hook")
            sl = o.__dict__.get("__slots__")
            if sl is not None and not (isinstance(sl, (tuple, list)) and all(isinstance(x, str) for x in sl)):
                self.unsupported.append("odd __slots__")
                sl = None
            if sl is not None and any(x.startswith("__") and not x.endswith("__") for x in sl):
                # private slot names are stored mangled (C16-H4); the model reads __slots__ literally
                self.unsupported.append("odd __slots__")
                sl = None
            for b in o.__bases__:
                if b is not object and b is not type and not self.is_modclass(b):
                    self.unsupported.append("foreign base")
            return dict(k="cls", name=o.__name__, modn=o.__module__, slots=list(sl) if sl is not None else None,
                        bases=[self.ref(b) for b in o.__bases__ if self.is_modclass(b)],
                        attrs=[[k, self.ref(v)] for k, v in sorted(o.__dict__.items())])
        if o is _BUILTINS_DICT:
            return dict(k="atom", ty="builtins.dict", val="<builtins namespace>")
        if isinstance(o, dict):
            if type(o).__module__ == mn:
                self.unsupported.append("dict subclass defined in the module")
            self.exact_type(o, dict)
            ents = [[self.keystr(k), self.ref(v)] for k, v in list(o.items())]
            if len(set(e[0] for e in ents)) != len(ents):
                self.unsupported.append("dict keys collide under str()")
            return dict(k="dict", entries=sorted(ents))
        if isinstance(o, types.CellType):
            try:
                return dict(k="cell", content=self.ref(o.cell_contents))
            except ValueError:
                self.unsupported.append("empty cell")
                return dict(k="atom", ty="builtins.cell", val="<empty>")
        if isinstance(o, types.MethodType):
            return dict(k="meth", func=self.ref(o.__func__), self=self.ref(o.__self__))
        if type(o) is staticmethod:
            return dict(k="smeth", func=self.ref(o.__func__))
        if type(o) is classmethod:
            return dict(k="cmeth", func=self.ref(o.__func__))
        if isinstance(o, types.ModuleType) and getattr(o, "__name__", None) == mn and type(o) is types.ModuleType:
            return dict(k="module", dict=self.ref(o.__dict__))
        if type(o).__module__ == mn and not isinstance(o, type):
            d = getattr(o, "__dict__", None)
            slots = []
            seen = set()
            for klass in type(o).__mro__:
                for sname in klass.__dict__.get("__slots__", ()) or ():
                    if isinstance(sname, str) and sname not in seen and sname not in ("__dict__", "__weakref__"):
                        seen.add(sname)
                        try:
                            slots.append([sname, self.ref(getattr(o, sname))])
                        except AttributeError:
                            pass
            if (hasattr(type(o), "__livepatch__") or hasattr(type(o), "__reload_update__")) and not self.hooks_transparent:
                self.unsupported.append("hook")
            return dict(k="inst", cls=self.ref(type(o)), dict=self.ref(d) if type(d) is dict else None, slots=sorted(slots))
        try:
            val = repr(o)[:200]
        except Exception:
            val = "<unrepr %d>" % id(o)
        if not isinstance(o, (int, float, str, bytes, tuple, frozenset, type(None), bool)):
            val = "%s@%d" % (val, self.token(o))      # identity-compared values are only equal to themselves
        elif isinstance(o, tuple) and not all(isinstance(x, (int, float, str, bytes, type(None), bool)) for x in o):
            val = "%s@%d" % (val, self.token(o))
        return dict(k="atom", ty=type(o).__module__ + "." + type(o).__qualname__, val=val)

    def heap(self, start=0):
        """describe every object with id >= start (describing allocates the children)"""
        out = []
        i = start
        while i < len(self.objs):
            out.append(self.describe(self.objs[i]))
            i += 1
        return out

    def redescribe(self, upto):
        """current description of the first `upto` objects (post state); may allocate ids for objects not seen before"""
        return [self.describe(self.objs[i]) for i in range(upto)]


# ----------------------------------------------------------------------------
# the check
# ----------------------------------------------------------------------------

def _exc_name(e):
    return type(e).__name__


def fresh_load(name, path, pkg=False, after=None):
    """Import `path` as module `name` without leaving it (or, for a package, any submodule it loads) in sys.modules.
    `after(mod)` runs while the fresh module is still registered."""
    spec = importlib.util.spec_from_file_location(name, path, submodule_search_locations=[os.path.dirname(path)] if pkg else None)
    mod = importlib.util.module_from_spec(spec)
    MISSING = object()
    saved = sys.modules.get(name, MISSING)
    saved_sub = {k: sys.modules.pop(k) for k in list(sys.modules) if k.startswith(name + ".")}
    sys.modules[name] = mod
    try:
        spec.loader.exec_module(mod)
        if after is not None:
            after(mod)
    finally:
        if saved is MISSING:
            sys.modules.pop(name, None)
        else:
            sys.modules[name] = saved
        for k in [k for k in sys.modules if k.startswith(name + ".")]:
            sys.modules.pop(k, None)
        sys.modules.update(saved_sub)
    return mod


# The property does not depend on the interpreter's optimisation level.  A case of kind "optlevel" runs one (old, new) pair
# in child interpreters started without -O, with -O and with -OO (same script) and reports, per level, a canonical
# observation of the reloaded module, of the references captured before the reload and of a fresh import of the new text
# made by the same child.  Model independent; K has nothing to say about it (the Lean model has no optimisation level).
_CHILD = r'''
import sys, os, json, re, types, importlib, importlib.util
lib, d, name = sys.argv[1:4]
sys.path.insert(0, d)
sys.path.insert(0, lib)
sys.dont_write_bytecode = True
os.environ["PYFLYBY_LOG_LEVEL"] = "ERROR"
os.environ.setdefault("PYFLYBY_PATH", "EMPTY")
import pyflyby
assert os.path.realpath(pyflyby.__file__).startswith(os.path.realpath(lib)), pyflyby.__file__
ADDR = re.compile(r"0x[0-9a-fA-F]+")
path = os.path.join(d, name + ".py")
old = open(os.path.join(d, "old.txt")).read()
new = open(os.path.join(d, "new.txt")).read()

def write(p, text, t):
    with open(p, "w") as f:
        f.write(text)
    os.utime(p, (t, t))

def call(f):
    for args in ((), (2,), (2, 3)):
        try:
            return summary(f(*args), 1)
        except TypeError:
            continue
        except Exception as e:
            return "!" + type(e).__name__
    return "!TypeError"

def summary(v, depth=0):
    if isinstance(v, (types.FunctionType, types.MethodType)):
        return ["func", getattr(v, "__name__", "?"), call(v) if depth == 0 else None]
    if isinstance(v, type):
        if depth > 0:
            return ["class", v.__name__]
        try:
            inst = v()
        except Exception:
            inst = None
        attrs = {}
        for a in sorted(dir(v)):
            if a.startswith("__"):
                continue
            try:
                x = getattr(inst if inst is not None else v, a)
            except Exception as e:
                attrs[a] = "!" + type(e).__name__
                continue
            attrs[a] = call(x) if callable(x) else summary(x, 1)
        return ["class", v.__name__, [b.__name__ for b in v.__mro__], sorted(attrs.items())]
    if isinstance(v, types.ModuleType):
        return ["module", v.__name__]
    if isinstance(v, (list, tuple)) and depth < 3:
        return [type(v).__name__, [summary(x, depth + 1) for x in v]]
    if isinstance(v, dict) and depth < 3:
        return ["dict", sorted([repr(k), summary(x, depth + 1)] for k, x in v.items())]
    if type(v).__module__ == name:
        st = sorted((k, summary(x, depth + 1)) for k, x in getattr(v, "__dict__", {}).items())
        meths = {}
        for a in sorted(dir(type(v))):
            if not a.startswith("__"):
                try:
                    x = getattr(v, a)
                    meths[a] = call(x) if callable(x) else summary(x, depth + 1)
                except Exception as e:
                    meths[a] = "!" + type(e).__name__
        return ["inst", type(v).__name__, st, sorted(meths.items())]
    return ["value", ADDR.sub("0x", repr(v))]

def pub(ns):
    return sorted(n for n in ns if not n.startswith("__"))

write(path, old, 1600000000)
importlib.invalidate_caches()
m = importlib.import_module(name)
captured = {n: m.__dict__[n] for n in pub(m.__dict__)}
insts = {n: v for n, v in captured.items() if type(v).__module__ == name and not isinstance(v, type)}
import time
t = time.time() + 100
write(path, new, t)
raised = None
try:
    pyflyby.xreload(m)
except BaseException as e:
    raised = type(e).__name__ + ": " + str(e)[:100]
spec = importlib.util.spec_from_file_location(name, path)
fresh = importlib.util.module_from_spec(spec)
spec.loader.exec_module(fresh)
md, fd = m.__dict__, fresh.__dict__
out = dict(opt=sys.flags.optimize, raised=raised, names_post=pub(md), names_fresh=pub(fd),
           post={n: summary(md[n]) for n in pub(md)}, fresh={n: summary(fd[n]) for n in pub(fd)},
           captured={n: summary(v) for n, v in captured.items() if isinstance(v, (types.FunctionType, type)) and n in fd},
           kept={n: md.get(n) is v for n, v in captured.items()
                 if isinstance(v, (types.FunctionType, type)) and isinstance(fd.get(n), type(v)) and fd[n].__name__ == v.__name__},
           inst_of={n: [isinstance(md.get(n), md[type(v).__name__]) if isinstance(md.get(type(v).__name__), type) else None,
                        isinstance(fd.get(n), fd[type(v).__name__]) if isinstance(fd.get(type(v).__name__), type) else None]
                    for n, v in insts.items() if n in md and n in fd})
print("C16CHILD " + json.dumps(out, sort_keys=True))
'''


def run_optlevels(case, root):
    """run the pair in child interpreters at optimisation levels 0, 1, 2; returns the list of their reports"""
    import subprocess
    from vcommon import REPO
    d = tempfile.mkdtemp(prefix="c16opt_", dir=root if root and os.path.isdir(root) else None)
    try:
        script = os.path.join(d, "child.py")
        with open(script, "w") as f:
            f.write(_CHILD)
        with open(os.path.join(d, "old.txt"), "w") as f:
            f.write(gen_c16.source(case["old"]))
        with open(os.path.join(d, "new.txt"), "w") as f:
            f.write(gen_c16.source(case["new"]))
        reports = []
        env = dict(os.environ)
        env.pop("PYTHONOPTIMIZE", None)
        for lvl, flag in ((0, []), (1, ["-O"]), (2, ["-OO"])):
            name = "c16o%d_%d" % (os.getpid(), lvl)
            r = subprocess.run([sys.executable] + flag + [script, os.path.join(REPO, "lib", "python"), d, name],
                               capture_output=True, text=True, timeout=60, env=env, cwd=d)
            line = [l for l in r.stdout.splitlines() if l.startswith("C16CHILD ")]
            if r.returncode != 0 or not line:
                reports.append(dict(opt=lvl, child_failed=(r.stderr or r.stdout)[-400:]))
            else:
                rep_ = json.loads(line[-1][len("C16CHILD "):])
                if rep_["opt"] != lvl:
                    rep_["child_failed"] = "optimisation level %r, wanted %r" % (rep_["opt"], lvl)
                reports.append(rep_)
        return reports
    finally:
        shutil.rmtree(d, ignore_errors=True)


def lay_out(base, name, pkg):
    """the path of module `name`'s own source below `base`; for a package the directory and its submodules are created"""
    if not pkg:
        return os.path.join(base, name + ".py")
    pd = os.path.join(base, name)
    os.makedirs(pd, exist_ok=True)
    for sn, st in gen_c16.PKG_SUBMODULES.items():
        _write(os.path.join(pd, sn + ".py"), st, 1_600_000_000)
    return os.path.join(pd, "__init__.py")


def late_import(name):
    """a package must be able to load a submodule that has not been imported yet (needs sys.modules[name].__path__)"""
    parent = sys.modules.get(name)
    had = parent is not None and "late" in parent.__dict__
    try:
        return repr(importlib.import_module(name + ".late").val)
    except BaseException as e:
        return "!" + type(e).__name__
    finally:
        sys.modules.pop(name + ".late", None)
        if parent is not None and not had:
            parent.__dict__.pop("late", None)


def would_reload_others(name):
    """xreload() without arguments looks at every loaded module.  Is there one — other than the case's module — that it
    would reload (source modified after the process started, e.g. a harness file edited during the run)?"""
    import pyflyby._livepatch as LP
    for n, mod in list(sys.modules.items()):
        if n == name or n == "__main__":
            continue
        try:
            fn = LP._get_module_py_file(mod)
            if not fn or not fn.endswith(".py"):
                continue
            if not (getattr(mod, "__loadtime__", LP._PROCESS_START_TIME) > os.stat(fn).st_mtime):
                return n
        except Exception:
            continue
    return None


def _write(path, text, bump):
    with open(path, "w") as f:
        f.write(text)
    if bump is not None:
        os.utime(path, ns=(int(bump) * 1_000_000_000, int(bump) * 1_000_000_000))


def _write_ns(path, text, ns):
    with open(path, "w") as f:
        f.write(text)
    os.utime(path, ns=(ns, ns))


def diff_obs(got, want, prefix=""):
    """First differing path between two JSON-like observations."""
    if type(got) is not type(want):
        return prefix or "."
    if isinstance(got, dict):
        for k in sorted(set(got) | set(want)):
            if k not in got or k not in want:
                return "%s/%s" % (prefix, k)
            d = diff_obs(got[k], want[k], "%s/%s" % (prefix, k))
            if d:
                return d
        return None
    if isinstance(got, list):
        if len(got) != len(want):
            return prefix + "/len"
        for i, (a, b) in enumerate(zip(got, want)):
            d = diff_obs(a, b, "%s/%d" % (prefix, i))
            if d:
                return d
        return None
    return None if got == want else (prefix or ".")


_FIXES = {}


def detect_fixes():
    """Which of the proposed repairs the tree under test contains (decides the model variant; by source text)."""
    from vcommon import REPO
    if REPO not in _FIXES:
        try:
            src = open(os.path.join(REPO, "lib", "python", "pyflyby", "_livepatch.py")).read()
        except OSError:
            src = ""
        klass = src[src.find("def _livepatch__class"):src.find("def _livepatch__object")]
        _FIXES[REPO] = dict(d18="_livepatch__bases(" in klass,
                            d41="setattr(oldobj, name, getattr(newobj, name))" in src,
                            d44='"__weakref__"' in klass.split("_livepatch__bases")[0] or "'__weakref__'" in klass.split("_livepatch__bases")[0],
                            d45="cell_contents = " in src,
                            d52="old_modname = _get_definition_module(old)" in src)
    return _FIXES[REPO]


def layout_sig(k, modname):
    """what CPython's `__bases__` assignment check looks at, coarsely: child of `object` or of a heap class, the
    non-empty __slots__ along the MRO, whether instances have a __dict__"""
    mro = [c for c in k.__mro__ if c.__module__ == modname]
    return [any(b.__module__ == modname for b in k.__bases__),
            [list(c.__dict__["__slots__"]) for c in mro if c.__dict__.get("__slots__")],
            any("__slots__" not in c.__dict__ for c in mro)]


class C16(Prop):
    id = "C16"
    driver = "C16"
    lean_modules = ["Pfb.C16.Props", "Pfb.C16.Obs", "Pfb.C16.ObsClass"]
    theorems = [
        "Pfb.C16.lp_frame",
        "Pfb.C16.C16_rollback",
        "Pfb.C16.C16_rollback_syntax",
        "Pfb.C16.C16_registry_restored",
        "Pfb.C16.reloadNeeded_iff",
        "Pfb.C16.C16_second_edit_reloaded",
        "Pfb.C16.C16_guard_skip_unchanged",
        "Pfb.C16.cell_metaclass_subclass_updatable",
        "Pfb.C16.cell_dict_subclass_updatable",
        "Pfb.C16.mem_sortStrs",
        "Pfb.C16.C16_names",
        "Pfb.C16.lp_dict_keys",
        "Pfb.C16.C16_function",
        "Pfb.C16.C16_class",
        "Pfb.C16.D18_issubclass_false",
        "Pfb.C16.D18_fixed_issubclass_true",
        "Pfb.C16.D41_typeError",
        "Pfb.C16.D41_fixed",
        "Pfb.C16.D17_identity_lost",
        "Pfb.C16.D17_contrast_identity_kept",
        "Pfb.C16.D45_stale_cell",
        "Pfb.C16.D45_fixed",
        "Pfb.C16.C16_obs_partial",
        "Pfb.C16.lp_dict_obs",
        "Pfb.C16.lp_func_obs",
        "Pfb.C16.lp_dictAtoms",
        "Pfb.C16.lp_flatFunc",
        "Pfb.C16.lp_atomOld",
        "Pfb.C16.lp_module_obs",
        "Pfb.C16.obsEq_refl",
        "Pfb.C16.D18_not_flat",
        "Pfb.C16.D18_invisible_to_obsEq",
        "Pfb.C16.witness_D17_captured_ref_not_obs",
        "Pfb.C16.witness_D46_aliasing_needed",
        "Pfb.C16.lp_flatClass",
        "Pfb.C16.lp_class_obs",
        "Pfb.C16.C16_obs_partial_classes",
        "Pfb.C16.C16_identity_kept",
        "Pfb.C16.C16_identity_kept_flat",
        "Pfb.C16.flatModuleC_of_flatModule",
        "Pfb.C16.witness_D42_outside_flatClass",
        "Pfb.C16.witness_D18_outside_flatClass",
    ]
    anchors = [
        ("lib/python/pyflyby/_livepatch.py", "livepatch"),
        ("lib/python/pyflyby/_livepatch.py", "_livepatch__module"),
        ("lib/python/pyflyby/_livepatch.py", "_livepatch__dict"),
        ("lib/python/pyflyby/_livepatch.py", "_livepatch__function"),
        ("lib/python/pyflyby/_livepatch.py", "_livepatch__method"),
        ("lib/python/pyflyby/_livepatch.py", "_livepatch__setattr"),
        ("lib/python/pyflyby/_livepatch.py", "_livepatch__class"),
        ("lib/python/pyflyby/_livepatch.py", "_livepatch__object"),
        ("lib/python/pyflyby/_livepatch.py", "_get_definition_module"),
        ("lib/python/pyflyby/_livepatch.py", "_xreload_module"),
        ("lib/python/pyflyby/_livepatch.py", "xreload"),
    ]
    quick_cases = 2500
    thorough_cases = 30000
    quick_deadline_s = 60
    thorough_deadline_s = 600
    rule = ("(old, new) module version pairs from harness/gen_c16.py (functions, defaults, docs, function attributes, "
            "decorators, closure factories and instances, lambdas, classes with inheritance inside the module, slots, "
            "plain/static/class methods, properties, module-level instances (also slotted, with slots set in one version only), "
            "data, aliases, containers, transparent __livepatch__/__reload_update__ hooks on functions, classes and the module, "
            "closure cells holding a value whose == raises, renamed captured variables), the module a plain file or a package "
            "with relative imports, named by object / name / path / *.pyc path / 'name.py' / in a list / not at all (xreload()) / "
            "by an object that is no longer registered, new = 1-3 edits "
            "of old, optionally a preceding successful reload, x failure kind x statement index; non-trivial when the "
            "old version imports and xreload actually ran; distinct by (pre, old, new, fail)")
    trusted_base = ["CPython's function/class object model (what assigning __code__/__bases__ does to live callers)",
                    "the harness's abstraction of real object graphs to the model heap (harness/c16.py abstract_heap)"]
    assumptions = ["generated modules have no import-time side effects outside their own namespace",
                   "every generated __livepatch__ hook is transparent (returns do_livepatch() / livepatch(..., heed_hook=False)); "
                   "the model has no hooks: K treats such a hook as an ordinary attribute, any other hook is outside K",
                   "xreload() without arguments: importlib.reload of extension modules is stubbed out by the harness"]

    _root = None

    def setup(self, tier, rng):
        sys.dont_write_bytecode = True
        # every case directory lives below one per-run directory that teardown() removes, so nothing survives a
        # worker that is terminated at the deadline
        self._root = tempfile.mkdtemp(prefix="c16run_")

    def teardown(self):
        if self._root:
            shutil.rmtree(self._root, ignore_errors=True)
            self._root = None

    def gen_case(self, rng, i, tier):
        c = gen_c16.gen_case(rng, tier)
        c.pop("items", None)
        return c

    # hand-written version pairs, each run without failure and with a failure before every statement index
    PAIRS = [
        (["def foo(a=1):\n    return a + 1"], ["def foo(a=2):\n    'doc'\n    return a + 10"]),
        (["X = 1", "def f():\n    return X", "def gone():\n    return 0"], ["X = 2", "def f():\n    return X + 1", "Y = [X]"]),
        (["def deco(fn):\n    def wrapper(*a):\n        return fn(*a) + 1\n    return wrapper", "@deco\ndef f(a=1):\n    return a"],
         ["def deco(fn):\n    def wrapper(*a):\n        return fn(*a) + 2\n    return wrapper", "@deco\ndef f(a=1):\n    return a * 3"]),
        (["def mk(p):\n    def inner(x=1):\n        return x * p\n    return inner", "cl = mk(2)"],
         ["def mk(p):\n    def inner(x=1):\n        return x * p + 1\n    return inner", "cl = mk(2)"]),
        (["class C:\n    K = 1\n    def m(self, a=1):\n        return a\n    @staticmethod\n    def s(a=1):\n        return a\n    @classmethod\n    def c(cls):\n        return cls.__name__\n    @property\n    def p(self):\n        return 1", "i = C()", "i.e = 1"],
         ["class C:\n    K = 2\n    def m(self, a=1):\n        return a + 1\n    @staticmethod\n    def s(a=1):\n        return a + 1\n    @classmethod\n    def c(cls):\n        return cls.__name__ + '!'\n    @property\n    def p(self):\n        return 2\n    def extra(self):\n        return 3", "i = C()", "i.e = 2"]),
        (["class S:\n    __slots__ = ('v',)\n    def __init__(self, v=0):\n        self.v = v\n    def m(self):\n        return self.v", "s = S(1)"],
         ["class S:\n    __slots__ = ('v',)\n    def __init__(self, v=0):\n        self.v = v\n    def m(self):\n        return self.v + 1", "s = S(2)"]),
        (["d = {'a': 1, 'f': (lambda: 1)}", "t = (1, 2)"], ["d = {'b': 2, 'f': (lambda: 2)}", "t = (1, 3)", "u = None"]),
        (["import os", "from os.path import join", "def f():\n    return join('a', 'b')"], ["import os", "from os.path import join", "def f():\n    return join('a', 'c')"]),
        (["def f():\n    return 1", "f.tag = 1", "box = [f]"], ["def f():\n    return 2", "f.other = 2", "box = [f, f]"]),
        (["class C:\n    def m(self):\n        return 1", "class C2:\n    X = C"], ["class C:\n    def m(self):\n        return 2", "class C2:\n    X = C"]),
        (["class C:\n    def f(self):\n        return 1", "C.X = C"], ["class C:\n    def f(self):\n        return 2", "C.X = C"]),
        (["d = {}", "d['x'] = d", "d['f'] = lambda: 1"], ["d = {}", "d['x'] = d", "d['f'] = lambda: 2"]),
        # a slotted instance: slot set only before / only after / in both / in neither version
        (["class S:\n    __slots__ = ('v', 'u', 'w', 'x')\n    def __init__(self, v=0):\n        self.v = v\n    def m(self):\n        return (self.v, getattr(self, 'u', None), getattr(self, 'w', None))", "s = S(1)", "s.u = 5"],
         ["class S:\n    __slots__ = ('v', 'u', 'w', 'x')\n    def __init__(self, v=0):\n        self.v = v\n    def m(self):\n        return (self.v, getattr(self, 'u', None), getattr(self, 'w', None), 1)", "s = S(2)", "s.w = 6"]),
        # CPython refuses the __bases__ assignment (instance layout changes): the class is replaced, nothing half patched
        (["class D:\n    __slots__ = ('v',)\n    def __init__(self, v=0):\n        self.v = v", "class A(D):\n    def m(self):\n        return 1", "def user():\n    return A().m()"],
         ["class D:\n    __slots__ = ('v',)\n    def __init__(self, v=0):\n        self.v = v", "class A:\n    def m(self):\n        return 2", "def user():\n    return A().m()"]),
        # only the order of the bases changes: other method resolution order for the class, its subclass, live instances
        (["class A:\n    def who(self):\n        return 'A'\n    def only_a(self):\n        return 'a'", "class B:\n    def who(self):\n        return 'B'", "class D(A, B):\n    def tag(self):\n        return 'D:' + self.who()", "class E(D):\n    pass", "d1 = D()", "e1 = E()"],
         ["class A:\n    def who(self):\n        return 'A'\n    def only_a(self):\n        return 'a'", "class B:\n    def who(self):\n        return 'B'", "class D(B, A):\n    def tag(self):\n        return 'D:' + self.who()", "class E(D):\n    pass", "d1 = D()", "e1 = E()"]),
        # module-level instances without attributes (a sentinel) / that lose their attributes
        (["class Unset:\n    def m(self):\n        return 1", "UNSET = Unset()", "def get(d, k='k'):\n    return d.get(k, UNSET) is UNSET", "class P:\n    def name(self):\n        return 'v1'", "plugin = P()", "plugin.debug = True"],
         ["class Unset:\n    def m(self):\n        return 2", "UNSET = Unset()", "def get(d, k='k'):\n    return d.get(k, UNSET) is UNSET", "class P:\n    def name(self):\n        return 'v2'", "plugin = P()"]),
        # the captured variable of a closure is renamed: same closure length, other co_freevars
        (["def mk(p):\n    def inner(x=1):\n        return x * p\n    return inner", "cl = mk(2)", "def user():\n    return cl(3)"],
         ["def mk(r):\n    def inner(x=1):\n        return x * r + 1\n    return inner", "cl = mk(2)", "def user():\n    return cl(3)"]),
    ]

    OPT_PAIRS = [0, 1, 2, 4, 8]

    def exhaustive_cases(self, tier, rng):
        out = []
        kinds = ["raise", "syntax", "kbint"] if tier != "thorough" else list(gen_c16.INJECT) + ["syntax"]
        for old, new in self.PAIRS:
            for via in (["module"] if tier != "thorough" else ["module", "name", "path"]):
                out.append(dict(old=old, new=new, fail=None, via=via))
                for at in range(len(new) + 1):
                    for kind in kinds:
                        out.append(dict(old=old, new=new, fail=dict(at=at, kind=kind), via=via))
        # a deterministic handful of pairs in child interpreters with and without -O / -OO
        for i in self.OPT_PAIRS:
            out.append(dict(kind="optlevel", old=self.PAIRS[i][0], new=self.PAIRS[i][1], fail=None, via="module"))
        return out

    # -- implementation + facts ------------------------------------------------
    def run_impl(self, case):
        if case.get("kind") == "optlevel":
            return dict(trivial=None, optlevel=run_optlevels(case, self._root))
        import pyflyby
        sys.dont_write_bytecode = True
        _COUNTER[0] += 1
        name = "c16m%d_%d" % (os.getpid(), _COUNTER[0])
        d = tempfile.mkdtemp(prefix="c16_", dir=self._root if self._root and os.path.isdir(self._root) else None)
        d = os.path.realpath(d)
        pkg = bool(case.get("pkg"))
        path = lay_out(d, name, pkg)
        fdir = os.path.join(d, "fresh")
        os.mkdir(fdir)
        obs = dict(trivial=None)
        sys.path.insert(0, d)
        t0 = 1_700_000_000
        for en, es in gen_c16.EXT_SOURCES.items():
            # old mtime: an argument-less xreload() must not find the helper modules modified
            _write(os.path.join(d, en + ".py"), es, t0 - 100)
        try:
            old_text = gen_c16.source(case["old"])
            new_text = gen_c16.source(case["new"], case.get("fail"))
            chain = [gen_c16.source(case[k]) for k in ("pre0", "pre") if case.get(k)] + [old_text]
            if not case.get("pre"):
                chain = [old_text]
            _write(path, chain[0], t0)
            importlib.invalidate_caches()
            try:
                m = importlib.import_module(name)
            except BaseException as e:
                sys.modules.pop(name, None)
                obs["trivial"] = "old version does not import: " + _exc_name(e)
                return obs
            # The harness sets every edit's mtime explicitly.  _xreload_module skips a reload only when
            # loadtime > mtime, loadtime = module.__loadtime__ (mtime of the file at the last successful reload) or,
            # before the first reload, the process start time.
            import time as _time
            import pyflyby._livepatch as LP
            last_ns = [None]

            def stamp_ns(rel):
                L = m.__dict__.get("__loadtime__", LP._PROCESS_START_TIME)
                if rel == "equal" and "__loadtime__" in m.__dict__ and last_ns[0] is not None:
                    return last_ns[0]
                if rel == "older":
                    return (int(L) - 50) * 1_000_000_000
                return (max(int(L), int(_time.time())) + 10) * 1_000_000_000
            for ci, text in enumerate(chain[1:], 1):
                rel = case.get("pre_rel", "newer") if (ci == len(chain) - 1 and len(chain) > 2) else "newer"
                ns = stamp_ns(rel)
                _write_ns(path, text, ns)
                last_ns[0] = ns
                try:
                    pyflyby.xreload(m)
                except BaseException as e:
                    obs["trivial"] = "preceding reload raised: " + _exc_name(e)
                    return obs
            # ---- before the attempt ------------------------------------------------
            md = m.__dict__
            other = types.ModuleType("c16_other")
            pubs = public(md)
            if pubs:
                exec("from %s import %s" % (name, ", ".join(pubs)), other.__dict__)
            box = [md[n] for n in pubs]
            thunks = {n: (lambda o: (lambda: o))(md[n]) for n in pubs}
            cap_methods = {}
            for n in pubs:
                v = md[n]
                if isinstance(v, type) and v.__module__ == name:
                    for a in sorted(v.__dict__):
                        if not a.startswith("__") and _is_callable_member(getattr(v, a, None)):
                            cap_methods[n + "." + a] = getattr(v, a)
            cap_bound = {}
            for n in pubs:
                v = md[n]
                if type(v).__module__ == name and not isinstance(v, type):
                    for a in sorted(dir(type(v))):
                        if a.startswith("__"):
                            continue
                        try:
                            b = getattr(v, a)
                        except Exception:
                            continue
                        if isinstance(b, types.MethodType) and b.__self__ is v:
                            cap_bound[n + "." + a] = b
            old_shapes = {n: shape(md[n], name) for n in pubs}
            for q, v in cap_methods.items():
                old_shapes[q] = shape(v.__func__ if isinstance(v, types.MethodType) else v, name)
            foreign = {n: md[n] for n in pubs if isinstance(md[n], (types.FunctionType, type))
                       and getattr(md[n], "__module__", name) != name and getattr(md[n], "__module__", "").startswith("c16ext")}
            foreign_before = {n: (id(v.__code__) if isinstance(v, types.FunctionType) else sorted((k, id(x)) for k, x in v.__dict__.items()))
                              for n, v in foreign.items()}
            snap_before, keep = snapshot(m, name)
            keys_before = {k: id(v) for k, v in md.items()}
            sysmod_before = sys.modules.get(name)
            # ---- does the new text execute on its own? ------------------------------
            fpath = lay_out(fdir, name, pkg)
            _write(fpath, new_text, None)
            fresh = None
            late = {}
            try:
                fresh = fresh_load(name, fpath, pkg, after=(lambda fm: late.__setitem__("fresh", late_import(name))) if pkg else None)
                obs["exec_fails"] = None
            except BaseException as e:
                obs["exec_fails"] = _exc_name(e)
            old_ns = {n: md[n] for n in pubs}
            obs["layout_changed"] = False
            if fresh is not None:
                for n in pubs:
                    fv = fresh.__dict__.get(n)
                    if isinstance(md[n], type) and md[n].__module__ == name and isinstance(fv, type) and fv.__module__ == name:
                        if layout_sig(md[n], name) != layout_sig(fv, name):
                            obs["layout_changed"] = True
            multi, cellbad, kindbad, kwbad, kindch = [], [], [], [], {}
            if fresh is not None:
                multi, cellbad, kindbad, kwbad = pairing(old_ns, fresh.__dict__, name)
                for n, fv in fresh.__dict__.items():
                    if isinstance(fv, type) or type(fv).__module__ == name:
                        kindch[n] = kind_changed(old_ns.get(n), fv, name)
            # ---- abstraction for the model (K) ---------------------------------------
            import pyflyby._livepatch as LP
            ab = Abstractor(name)
            ab.hooks_transparent = case.get("hooks") == "transparent"
            kinfo = dict(module=ab.ref(m), name=name)
            kinfo["pre"] = ab.heap(0)
            kinfo["dyn"] = ab.dyn_table()
            n_pre = len(ab.objs)
            kinfo["sysmods"] = [[name, ab.ids[id(sys.modules[name])]]] if id(sys.modules.get(name)) in ab.ids else []
            real_lp = LP.livepatch

            def spy(old, new, modname=None, visit_stack=(), cache=None, assume_type=None, heed_hook=True):
                if assume_type is types.ModuleType and visit_stack == () and old is m and "objs" not in kinfo:
                    k0 = len(ab.objs)
                    ab.ref(new)
                    kinfo["objs"] = ab.heap(k0)
                    kinfo["dyn"] = ab.dyn_table()
                    kinfo["n_mid"] = len(ab.objs)
                return real_lp(old, new, modname=modname, visit_stack=visit_stack, cache=cache,
                               assume_type=assume_type, heed_hook=heed_hook)
            real_cls = LP._LIVEPATCH_DISPATCH_TABLE[type]

            def cls_spy(oldclass, newclass, *a, **kw):
                # CPython may refuse the __bases__ assignment (layout change, inheritance cycle); with fixes/C16-D48.diff
                # livepatch then returns the new class.  The model has no layout rules: such runs are not compared.
                same = oldclass.__dict__.get("__slots__") == newclass.__dict__.get("__slots__")
                r = real_cls(oldclass, newclass, *a, **kw)
                if same and r is newclass:
                    kinfo["bases_refused"] = True
                return r
            # ---- the attempt -------------------------------------------------------
            ns = stamp_ns(case.get("rel", "newer"))
            _write_ns(path, new_text, ns)
            kinfo["mtime"] = repr(os.stat(path).st_mtime)
            # what the clean code does with these times (stated here, independent of the model):
            #   loadtime > mtime                   -> return None, nothing read, nothing changed
            #   else text == linecache's old text  -> return module, nothing changed
            #   else                               -> reload
            L = md.get("__loadtime__", LP._PROCESS_START_TIME)
            M = os.stat(path).st_mtime
            cached = linecache.cache.get(path)
            cached_text = "".join(cached[2]) if cached is not None and len(cached) >= 3 else None
            mtime_ns = os.stat(path).st_mtime_ns
            obs["guard"] = dict(loadtime_ns=mtime_ns if L == M else int(L * 1_000_000_000), mtime_ns=mtime_ns,
                                same=cached_text is not None and cached_text == new_text, rel=case.get("rel", "newer"),
                                has_loadtime="__loadtime__" in md)
            obs["expected_reload"] = (not (L > M)) and not obs["guard"]["same"]
            obs["lazy_before"] = lazy_view(m)
            obs["submods_before"] = submodule_attrs(md)
            obs["submods_fresh"] = submodule_attrs(fresh.__dict__) if fresh is not None else None
            LP.livepatch = spy
            LP._LIVEPATCH_DISPATCH_TABLE[type] = cls_spy
            via = case.get("via", "module")
            if via == "all" and would_reload_others(name):
                via = "module"        # (a source file of the harness / of pyflyby was modified while the check runs)
            obs["via"] = via
            if case.get("unreg") and via == "module":
                # the caller holds the module object, the registry no longer has it
                sys.modules.pop(name, None)
                sysmod_before = None
                kinfo["sysmods"] = []
                obs["unreg"] = True
            arg = {"module": (m,), "name": (name,), "path": (path,), "list": ([m],), "all": (),
                   "basename": (name + ".py",), "pyc": (path + "c",)}[via]
            raised = None
            real_reload = LP.reload_module
            # xreload() hands every loaded module without a *.py file (extension modules) to importlib.reload: outside
            # the property, and not something to do to the process that runs the check
            LP.reload_module = lambda mod: mod
            try:
                pyflyby.xreload(*arg)
            except BaseException as e:
                raised = _exc_name(e)
                obs["raised_msg"] = str(e)[:120]
            finally:
                LP.livepatch = real_lp
                LP._LIVEPATCH_DISPATCH_TABLE[type] = real_cls
                LP.reload_module = real_reload
            obs["raised"] = raised
            obs["lazy_post"] = lazy_view(m)
            obs["lazy_fresh"] = lazy_view(fresh) if fresh is not None else None
            n_mid = kinfo.get("n_mid", n_pre)
            kinfo["post"] = ab.redescribe(n_mid)
            kinfo["post_extra"] = ab.heap(n_mid)
            sm = sys.modules.get(name)
            kinfo["sysmod_post"] = ab.ids.get(id(sm)) if sm is not None else None
            kinfo["unsupported"] = sorted(set(ab.unsupported))
            obs["k"] = kinfo
            if obs.get("unreg"):
                # failure: the name must still be absent; success: xreload registers what it returns (the old module)
                obs["sysmod_same"] = sys.modules.get(name) is (None if (raised is not None or obs["exec_fails"] is not None) else m)
            else:
                obs["sysmod_same"] = sys.modules.get(name) is sysmod_before and sysmod_before is m
            obs["submods_post"] = submodule_attrs(md)
            if pkg:
                prev = sys.modules.get(name, None)
                sys.modules[name] = m
                try:
                    obs["late_post"] = late_import(name)
                finally:
                    if prev is None:
                        sys.modules.pop(name, None)
                    else:
                        sys.modules[name] = prev
                obs["late_fresh"] = late.get("fresh")
            foreign_after = {n: (id(v.__code__) if isinstance(v, types.FunctionType) else sorted((k, id(x)) for k, x in v.__dict__.items()))
                             for n, v in foreign.items()}
            obs["foreign_modified"] = sorted(n for n in foreign if foreign_before[n] != foreign_after[n])
            if obs["exec_fails"] is not None:
                # ---- rollback facts ------------------------------------------------
                snap_after, keep2 = snapshot(m, name)
                obs["rollback_diff"] = diff_snapshots(snap_before, snap_after, id(md))
                obs["dict_same"] = {k: id(v) for k, v in md.items()} == keys_before
                obs["box_same"] = all(a is b for a, b in zip(box, [md.get(n) for n in pubs]))
                if not case.get("pre"):
                    os.mkdir(os.path.join(fdir, "old"))
                    opath = lay_out(os.path.join(fdir, "old"), name, pkg)
                    _write(opath, old_text, None)
                    twin = fresh_load(name, opath, pkg)
                    twin_cap = {n: twin.__dict__[n] for n in public(twin.__dict__)}
                    obs["behaviour_after_failure"] = observe(md, name)
                    obs["behaviour_of_old_text"] = observe(twin.__dict__, name)
                    capns = {n: getattr(other, n) for n in pubs}
                    obs["captured_after_failure"] = observe(capns, name)
                    obs["behaviour_of_old_text_again"] = observe(twin_cap, name)   # same call sequence on the twin
                return obs
            if raised is not None:
                return obs
            # ---- success: compare with a fresh import of the new text ---------------
            fd = fresh.__dict__
            new_shapes = {n: shape(fd[n], name) for n in public(fd)}
            obs["names_post"] = public(md)
            obs["names_fresh"] = public(fd)
            flags = {}
            old_ids = set(snap_before)
            for n in public(md):
                v = md[n]
                fv = fd.get(n)
                fl = dict(bound="kept" if keys_before.get(n) == id(v) else "new",
                          foreign=foreign_globals(v, m, name, old_ids), multi_paired=n in multi,
                          cell_unpatchable=n in cellbad)
                ismod = fv is not None and (isinstance(fv, type) or type(fv).__module__ == name)
                fl["inmod_base"] = bool(ismod and inmod_base(fv, name))
                fl["kind_changed"] = bool(ismod and kindch.get(n)) or n in kindbad
                fl["calls_foreign"] = fl["foreign"]
                fl["kwdefaults_changed"] = n in kwbad
                fl["old_foreign_modified"] = n in obs.get("foreign_modified", [])
                fl["slots_mixed"] = False
                fl["method_self_unnamed"] = bool(cell_self_unnamed(old_ns.get(n), old_ns, name) and cell_self_unnamed(fv, fd, name))
                fl["inst_hook"] = bool(ismod and (has_inst_hook(fv, name) or has_inst_hook(old_ns.get(n), name)))
                if ismod and not isinstance(fv, type):
                    sl = [k for k in type(fv).__mro__ if k.__dict__.get("__slots__")]
                    # ... or slots that _livepatch__object cannot find by reading __slots__ literally (a single string of
                    # more than one character, a private name that is stored mangled): H4b, same loop as D50
                    odd = [k for k in sl if isinstance(k.__dict__["__slots__"], str) and len(k.__dict__["__slots__"]) > 1
                           or not isinstance(k.__dict__["__slots__"], str)
                           and any(isinstance(x, str) and x.startswith("__") and not x.endswith("__") for x in k.__dict__["__slots__"])]
                    fl["slots_mixed"] = bool(sl) and (len(sl) > 1 or hasattr(fv, "__dict__") or bool(odd))
                flags[n] = fl
            # a name that calls (through module globals) a flagged name inherits the flags that describe *what* is bound
            deps = {n: global_deps(fd[n], name) & set(flags) for n in flags if n in fd}
            byid = {}
            for n in flags:
                if n in fd and (isinstance(fd[n], (types.FunctionType, type)) or type(fd[n]).__module__ == name):
                    byid.setdefault(id(fd[n]), set()).add(n)

            def reach_names(o, depth, seen):
                out = set(byid.get(id(o), ()))
                if depth < 4 and id(o) not in seen:
                    seen.add(id(o))
                    for _, c in _children(o, name):
                        if isinstance(c, (types.FunctionType, types.MethodType, staticmethod, classmethod, type, dict, list, tuple)) \
                                or type(c).__module__ == name:
                            out |= reach_names(c, depth + 1, seen)
                return out
            for n in deps:
                deps[n] |= reach_names(fd[n], 0, set()) - {n}
            changed = True
            while changed:
                changed = False
                for n, ds in deps.items():
                    for dn in ds:
                        for k in ("multi_paired", "cell_unpatchable", "kind_changed", "calls_foreign", "old_foreign_modified", "kwdefaults_changed",
                                  "inst_hook", "method_self_unnamed"):
                            if flags[dn][k] and not flags[n][k]:
                                flags[n][k] = True
                                changed = True
            obs["flags"] = flags
            # captured references that the property says must keep identity
            keep_names, ident = [], {}
            for n in pubs:
                if n in new_shapes and n in md and same_shape(old_shapes[n], new_shapes[n]):
                    keep_names.append(n)
                    ident[n] = dict(imported=getattr(other, n) is md[n], thunk=thunks[n]() is md[n],
                                    boxed=box[pubs.index(n)] is md[n],
                                    cells_same=(old_shapes[n].get("cells") == new_shapes[n].get("cells")
                                                and cells_equal(getattr(other, n), fd[n])),
                                    bases_inmod=any(b[0] for b in new_shapes[n].get("bases", [])),
                                    cell_type_inmod=cell_type_inmod(getattr(other, n), name),
                                    inst_hook=bool(isinstance(fd[n], type) and (has_inst_hook(fd[n], name) or has_inst_hook(getattr(other, n), name))),
                                    meta_shadowed=bool(isinstance(fd[n], type) and type(fd[n]).__module__ == name
                                                       and fd.get(type(fd[n]).__name__) is not type(fd[n])))
            obs["keep_names"] = keep_names
            obs["identity"] = ident
            obs["inst_class"] = {n: type(fd[n]).__name__ for n in public(fd)
                                 if type(fd[n]).__module__ == name and not isinstance(fd[n], type)}
            # module-level instances that exist in both versions and that livepatch updates in place: an instance of a
            # class of the module bound under its own name in both versions, the class unchanged in shape and still the
            # old object, plain instance dict, no __slots__, only in-module ancestors.  Such an instance is not "born in
            # the scratch module" (D43): it must stay an instance of the module's class.
            for n in pubs:
                ov, fv = old_ns[n], fd.get(n)
                if n not in flags or isinstance(ov, type) or isinstance(fv, type) or fv is None:
                    continue
                ko, kn = type(ov), type(fv)
                if ko.__module__ != name or kn.__module__ != name or ko.__name__ != kn.__name__:
                    continue
                cn = ko.__name__
                flags[n]["inst_patchable"] = bool(
                    old_ns.get(cn) is ko and fd.get(cn) is kn and cn in keep_names and md.get(cn) is ko
                    and type(ko) is type and type(kn) is type
                    and all(c is object or (c.__module__ == name and "__slots__" not in c.__dict__) for c in ko.__mro__)
                    and all(c is object or (c.__module__ == name and "__slots__" not in c.__dict__) for c in kn.__mro__)
                    and type(getattr(ov, "__dict__", None)) is dict and type(getattr(fv, "__dict__", None)) is dict
                    and not flags[n].get("multi_paired") and not flags.get(cn, {}).get("multi_paired")
                    and not has_inst_hook(ko, name) and not has_inst_hook(kn, name))
            meth_ident = {}
            for q, v in cap_methods.items():
                cn, a = q.split(".")
                if cn not in keep_names or cn not in fd or a not in fd[cn].__dict__:
                    continue
                fv = getattr(fd[cn], a, None)
                if not _is_callable_member(fv) or type(fv) is not type(v):
                    continue
                nf = fv.__func__ if isinstance(fv, types.MethodType) else fv
                if not same_shape(old_shapes[q], shape(nf, name)):
                    continue
                cur = getattr(md[cn], a, None)
                of = v.__func__ if isinstance(v, types.MethodType) else v
                cf = cur.__func__ if isinstance(cur, types.MethodType) else cur
                raw_old_kind = type(inspect.getattr_static(md[cn], a, None)).__name__
                raw_new_kind = type(inspect.getattr_static(fd[cn], a, None)).__name__
                meth_ident[q] = dict(same=of is cf, cells_same=old_shapes[q].get("cells") == shape(nf, name).get("cells"),
                                     kind_same=raw_old_kind == raw_new_kind, cell_type_inmod=cell_type_inmod(of, name),
                                     meta_shadowed=ident[cn]["meta_shadowed"], inst_hook=ident[cn]["inst_hook"],
                                     got=_call(v, name) if isinstance(v, types.MethodType) or raw_new_kind == "staticmethod" else None,
                                     want=_call(fv, name) if isinstance(v, types.MethodType) or raw_new_kind == "staticmethod" else None)
            obs["method_identity"] = meth_ident
            # bound methods of instances that existed before the reload must run the new code
            bound_obs = {}
            for q, b in cap_bound.items():
                n, a = q.split(".")
                if n not in fd or md.get(n) is not b.__self__ or type(b.__self__).__name__ not in keep_names:
                    continue
                fb = getattr(fd[n], a, None)
                if not (isinstance(fb, types.MethodType) and fb.__self__ is fd[n]):
                    continue
                if not same_shape(shape(b.__func__, name), shape(fb.__func__, name)):
                    continue
                bound_obs[q] = dict(got=_call(b, name), want=_call(fb, name),
                                    cells_same=shape(b.__func__, name).get("cells") == shape(fb.__func__, name).get("cells"),
                                    cell_type_inmod=cell_type_inmod(b.__func__, name))
            obs["bound_methods"] = bound_obs
            obs["post"] = observe(md, name)
            obs["fresh"] = observe(fd, name)
            capns = {n: getattr(other, n) for n in keep_names}
            obs["captured"] = observe(capns, name)
            obs["fresh_restricted"] = observe({n: fd[n] for n in keep_names}, name)
            # phase 2: rebinding module globals from outside must be seen by the module's functions
            rebind_ints(md)
            rebind_ints(fd)
            obs["post2"] = observe(md, name)["values"]
            obs["fresh2"] = observe(fd, name)["values"]
            return obs
        finally:
            try:
                sys.path.remove(d)
            except ValueError:
                pass
            sys.modules.pop(name, None)
            for k in [k for k in sys.modules if k.startswith(name + ".")]:
                sys.modules.pop(k, None)
            for en in gen_c16.EXT_SOURCES:
                sys.modules.pop(en, None)
            for k in [k for k in linecache.cache if k.startswith(d)]:
                linecache.cache.pop(k, None)
            shutil.rmtree(d, ignore_errors=True)

    # -- oracle ---------------------------------------------------------------------
    def _oracle_optlevel(self, case, obs):
        fails = []
        brief = dict(old=case["old"], new=case["new"], kind="optlevel")
        reps = obs.get("optlevel") or []
        base = reps[0] if reps else {}
        for r in reps:
            lvl = dict(optimize=r.get("opt"))
            if r.get("child_failed"):
                fails.append(dict(what="child interpreter did not complete the reload", err=r["child_failed"], **lvl, **brief))
                continue
            if r["raised"] is not None:
                fails.append(dict(what="xreload raised although the new source executes", err=r["raised"], **lvl, **brief))
                continue
            if r["names_post"] != r["names_fresh"]:
                fails.append(dict(what="names differ from a fresh import", got=r["names_post"], want=r["names_fresh"], **lvl, **brief))
                continue
            d = diff_obs(r["post"], r["fresh"])
            if d:
                fails.append(dict(what="namespace differs from a fresh import", where=d, **lvl, **brief))
            lost = sorted(n for n, k in r["kept"].items() if not k)
            if lost:
                fails.append(dict(what="captured reference lost identity although its shape is unchanged", names=lost, **lvl, **brief))
            for n, sv in sorted(r["captured"].items()):
                if r["kept"].get(n) and sv != r["fresh"].get(n):
                    fails.append(dict(what="captured reference does not behave as the new source", name=n, got=sv,
                                      want=r["fresh"].get(n), **lvl, **brief))
            for n, (got, want) in sorted(r["inst_of"].items()):
                if got != want:
                    fails.append(dict(what="class relation differs from a fresh import", rel=["isinstance", n, got], **lvl, **brief))
            if not base.get("child_failed"):
                for f in ("post", "captured", "kept", "inst_of", "names_post"):
                    d = diff_obs(r.get(f), base.get(f))
                    if d:
                        fails.append(dict(what="result depends on the interpreter's optimisation level", field=f, where=d, **lvl, **brief))
                        break
        return fails[:6]

    def oracle(self, case, obs):
        if case.get("kind") == "optlevel":
            return self._oracle_optlevel(case, obs)
        if obs.get("trivial"):
            return []
        fails = []
        brief = dict(old=case["old"], new=case["new"], fail=case.get("fail"))
        if case.get("pre"):
            brief["pre"] = case["pre"]
        if case.get("pre0"):
            brief["pre0"] = case["pre0"]
        brief["guard"] = obs.get("guard")
        if not obs.get("expected_reload", True):
            # the clean code does not reload here (file older than the load time, or text unchanged): the property
            # says nothing; what happens instead is compared with the model's guard by K
            return []
        if obs.get("exec_fails") is not None:
            if obs.get("lazy_before") != obs.get("lazy_post"):
                fails.append(dict(what="rollback: module-level __getattr__/__dir__ view changed", got=obs.get("lazy_post"),
                                  want=obs.get("lazy_before"), **brief))
            # atomicity: module, its objects and the registry exactly as before
            if not obs["sysmod_same"]:
                fails.append(dict(what="rollback: sys.modules entry is not the old module", **brief))
            if not obs["dict_same"]:
                fails.append(dict(what="rollback: module namespace changed (names or identities)", **brief))
            if obs["rollback_diff"]:
                fails.append(dict(what="rollback: objects of the module changed", diff=obs["rollback_diff"], **brief))
            if not obs["box_same"]:
                fails.append(dict(what="rollback: captured references no longer the module's objects", **brief))
            if "behaviour_after_failure" in obs:
                d = diff_obs(obs["behaviour_after_failure"], obs["behaviour_of_old_text"])
                if d:
                    fails.append(dict(what="rollback: behaviour differs from the old text", where=d, **brief))
                d = diff_obs(obs["captured_after_failure"], obs["behaviour_of_old_text_again"])
                if d:
                    fails.append(dict(what="rollback: behaviour of captured references differs from the old text", where=d, **brief))
            if obs.get("raised") is None:
                fails.append(dict(what="xreload swallowed the failure of the new source", err=obs["exec_fails"], **brief))
            return fails[:4]
        if obs.get("raised") is not None:
            return [dict(what="xreload raised although the new source executes", err=obs["raised"],
                         msg=obs.get("raised_msg"), **brief)]
        if not obs["sysmod_same"]:
            fails.append(dict(what="sys.modules entry is not the old module after a successful reload", **brief))
        if obs.get("lazy_post") != obs.get("lazy_fresh"):
            fails.append(dict(what="module-level __getattr__/__dir__ view differs from a fresh import",
                              got=obs.get("lazy_post"), want=obs.get("lazy_fresh"), **brief))
        if obs.get("foreign_modified"):
            fails.append(dict(what="an object that belongs to another module was modified by the reload",
                              names=obs["foreign_modified"], **brief))
        if case.get("pkg"):
            # a package: submodule attributes (set by the import system, not by the source text) and the ability to load
            # further submodules are part of what a fresh import gives
            lost = sorted(set(obs.get("submods_before") or []) & set(obs.get("submods_fresh") or []) - set(obs.get("submods_post") or []))
            if lost:
                fails.append(dict(what="package lost the attribute of a loaded submodule that a fresh import has", names=lost, **brief))
            extra = sorted(set(obs.get("submods_post") or []) - set(obs.get("submods_before") or []) - set(obs.get("submods_fresh") or []))
            if extra:
                fails.append(dict(what="package has a submodule attribute that neither the old module nor a fresh import has",
                                  names=extra, **brief))
            if obs.get("late_post") != obs.get("late_fresh"):
                fails.append(dict(what="package cannot load a further submodule as a fresh import can", got=obs.get("late_post"),
                                  want=obs.get("late_fresh"), **brief))
        # names
        if obs["names_post"] != obs["names_fresh"]:
            fails.append(dict(what="names differ from a fresh import", got=obs["names_post"], want=obs["names_fresh"], **brief))
            return fails
        flags = obs["flags"]
        any_foreign = any(fl.get("foreign") for fl in flags.values())
        brief["any_scratch_born"] = any_foreign
        post, fresh = obs["post"], obs["fresh"]
        for n in post["names"]:
            d = diff_obs(post["values"][n], fresh["values"][n])
            if d:
                fails.append(dict(what="namespace differs from a fresh import", name=n, where=d, phase=1,
                                  flags=flags.get(n), **brief))
        if not fails:
            for n in post["names"]:
                d = diff_obs(obs["post2"][n], obs["fresh2"][n])
                if d:
                    fails.append(dict(what="namespace differs from a fresh import", name=n, where=d, phase=2,
                                      flags=flags.get(n), **brief))
        for r_got, r_want in zip(post["relations"], fresh["relations"]):
            if r_got != r_want:
                own = (obs.get("inst_class") or {}).get(r_got[1]) if r_got[0] in ("isinstance", "type_is") else None
                fails.append(dict(what="class relation differs from a fresh import", rel=r_got, rel_own_class=own,
                                  flags=flags.get(r_got[1], {}), flags_b=flags.get(r_got[2], {}), **brief))
        if post["aliases"] != fresh["aliases"]:
            inv = sorted(set(n for g in post["aliases"] + fresh["aliases"]
                             if g not in post["aliases"] or g not in fresh["aliases"] for n in g))
            fails.append(dict(what="aliasing among names differs from a fresh import", got=post["aliases"],
                              want=fresh["aliases"], names=inv,
                              flags=dict(multi_paired=any(flags.get(n, {}).get("multi_paired") for n in inv),
                                         foreign=any(flags.get(n, {}).get("foreign") and flags.get(n, {}).get("bound") == "new"
                                                     for n in inv)),
                              **brief))
        # captured references
        for n in obs["keep_names"]:
            idn = obs["identity"][n]
            if not (idn["imported"] and idn["thunk"] and idn["boxed"]):
                fails.append(dict(what="captured reference lost identity although its shape is unchanged", name=n,
                                  identity=idn, flags=flags.get(n), **brief))
                continue
            d = diff_obs(obs["captured"]["values"][n], obs["fresh_restricted"]["values"][n])
            if d and not any(f.get("name") == n for f in fails):
                fails.append(dict(what="captured reference does not behave as the new source", name=n, where=d,
                                  identity=idn, flags=flags.get(n), **brief))
        for q, mi in obs["method_identity"].items():
            cn = q.split(".")[0]
            if not mi["same"]:
                fails.append(dict(what="captured method lost identity although its shape is unchanged", name=q,
                                  identity=mi, flags=flags.get(cn), **brief))
            elif mi["got"] != mi["want"] and not any(f.get("name") == cn for f in fails):
                fails.append(dict(what="captured method does not behave as the new source", name=q, got=mi["got"],
                                  want=mi["want"], identity=mi, flags=flags.get(cn), **brief))
        for q, bo in obs.get("bound_methods", {}).items():
            n = q.split(".")[0]
            if bo["got"] != bo["want"] and not any(f.get("name") in (n, q) for f in fails):
                fails.append(dict(what="captured method does not behave as the new source", name=q, got=bo["got"],
                                  want=bo["want"], identity=bo, flags=flags.get(n), bound_of_instance=True, **brief))
        return fails[:6]


    # -- model ------------------------------------------------------------------------
    ERRMAP = {"TypeError": "TypeError", "AttributeError": "AttributeError", "AssertionError": "AssertionError",
              "KeyError": "KeyError"}

    def _k_skip(self, case, obs):
        if case.get("kind") == "optlevel":
            return "optimisation-level case (child interpreters; O only, the model has no optimisation level)"
        k = obs.get("k")
        if obs.get("trivial") or not k:
            return "trivial"
        if k["unsupported"]:
            return "unsupported: " + ",".join(k["unsupported"])
        if "__bases__" in (obs.get("raised_msg") or "") or obs.get("layout_changed") or k.get("bases_refused"):
            return "CPython layout check on __bases__ (not modelled)"
        if "__livepatch__() missing" in (obs.get("raised_msg") or "") or "__reload_update__() missing" in (obs.get("raised_msg") or ""):
            # D80: an instance-method hook found on the class is called without self; the model has no hooks (a hook that
            # is not transparent is outside K, see Abstractor.hooks_transparent)
            return "instance-method hook called on the class (D80, hooks are not modelled)"
        return None

    def model_requests(self, case, obs):
        if self._k_skip(case, obs):
            return []
        k = obs["k"]
        req = dict(op="xreload", heap=k["pre"], sysmods=k["sysmods"], objs=k.get("objs", []),
                   name=k.get("name") or (k["sysmods"][0][0] if k["sysmods"] else "?"), module=k["module"],
                   compileOk=obs.get("exec_fails") != "SyntaxError",
                   mtime=dict(k="atom", ty="builtins.float", val=k["mtime"]), fuel=4000, fixes=detect_fixes(), dyn=k.get("dyn", []),
                   loadtime=obs["guard"]["loadtime_ns"], mtimeNs=obs["guard"]["mtime_ns"], same=obs["guard"]["same"])
        if obs.get("exec_fails") is not None and obs["exec_fails"] != "SyntaxError":
            req["fail"] = (case.get("fail") or {}).get("at", 0)
            req["objs"] = []
        return [req]

    @staticmethod
    def _norm(o):
        o = dict(o)
        for f in ("attrs", "entries", "slots"):
            if isinstance(o.get(f), list) and f != "slots" or (f == "slots" and o.get("k") == "inst"):
                o[f] = sorted(o[f])
        return o

    def compare(self, case, obs, resps):
        r = resps[0]
        k = obs["k"]
        res = r["result"]
        # the mtime / unchanged-text guard
        reached = "objs" in k or obs.get("raised") is not None
        if r.get("skipped"):
            if reached:
                return "model guard says no reload (%s), impl reloaded; guard=%r" % (r["skipped"], obs.get("guard"))
            if obs.get("raised") is not None:
                return "model guard says no reload, impl raised %s" % obs["raised"]
        elif obs.get("exec_fails") is None and "objs" not in k and obs.get("raised") is None:
            return ("model guard says reload (loadtime <= mtime and text changed), impl did not reach livepatch; guard=%r"
                    % (obs.get("guard"),))
        # outcome
        if r.get("skipped"):
            pass
        elif obs.get("exec_fails") is not None:
            want = "SyntaxError" if obs["exec_fails"] == "SyntaxError" else "execFailed"
            got = res.get("err")
            got = "execFailed" if isinstance(got, dict) else got
            if got != want:
                return "exec failure: model says %r" % (res,)
            if obs.get("raised") is None:
                return "impl swallowed the exec failure, model raises"
        elif obs.get("raised") is not None:
            want = self.ERRMAP.get(obs["raised"], obs["raised"])
            if res.get("err") != want:
                return "impl raised %s (%s), model says %r" % (obs["raised"], obs.get("raised_msg"), res)
        else:
            if "ok" not in res:
                return "impl succeeded, model says %r" % (res,)
            if res["ok"] != k["module"]:
                return "model returns object %r, impl returns the old module" % (res["ok"],)
        # registry
        sm = dict((a, b) for a, b in r.get("sysmods", []))
        name = k.get("name") or (k["sysmods"][0][0] if k["sysmods"] else "?")
        if sm.get(name) != k["sysmod_post"]:
            return "sys.modules[name]: model %r impl %r" % (sm.get(name), k["sysmod_post"])
        if "err" in res and obs.get("exec_fails") is None:
            return None     # livepatch itself failed: the model does not return the half-patched heap
        # heap, up to renaming of ids allocated during the run
        mh = r["heap"]
        ih = k["post"] + k["post_extra"]
        n = len(k["post"])
        fwd, bwd = {}, {}
        todo = [(i, i) for i in range(n)]
        for i in range(n):
            fwd[i] = i
            bwd[i] = i
        seen = set()

        def pair(a, b, where):
            if a < n or b < n:
                if a != b:
                    return "%s: model id %d, impl id %d" % (where, a, b)
                return None
            if fwd.get(a, b) != b or bwd.get(b, a) != a:
                return "%s: inconsistent renaming %d~%d" % (where, a, b)
            fwd[a] = b
            bwd[b] = a
            todo.append((a, b))
            return None
        while todo:
            a, b = todo.pop()
            if (a, b) in seen:
                continue
            seen.add((a, b))
            if a >= len(mh) or b >= len(ih):
                return "dangling id model %d impl %d" % (a, b)
            mo, io = self._norm(mh[a]), self._norm(ih[b])
            if mo["k"] != io["k"]:
                return "object %d: kind model %s impl %s" % (a, mo["k"], io["k"])
            for f in sorted(set(mo) | set(io)):
                x, y = mo.get(f), io.get(f)
                if f == "modn" and mo["k"] == "cls":
                    continue   # a class's __module__ lives in its dict and is synced like any attribute (compared there)
                where = "object %d (%s %s).%s" % (a, mo["k"], mo.get("name", ""), f)
                if f in ("dict", "cls", "func", "self", "content") and isinstance(x, int) and isinstance(y, int):
                    d = pair(x, y, where)
                elif f in ("cells", "bases"):
                    d = None if len(x) == len(y) else where + ": length"
                    for u, v in zip(x, y):
                        d = d or pair(u, v, where)
                elif f in ("attrs", "entries") or (f == "slots" and mo["k"] == "inst"):
                    d = None if [u[0] for u in x] == [v[0] for v in y] else \
                        "%s: keys model %s impl %s" % (where, [u[0] for u in x][:12], [v[0] for v in y][:12])
                    if d is None:
                        for u, v in zip(x, y):
                            d = d or pair(u[1], v[1], where + "[%s]" % u[0])
                else:
                    d = None if x == y else "%s: model %r impl %r" % (where, x, y)
                if d:
                    return d
        return None

    def nontrivial_key(self, case, obs):
        if obs.get("trivial"):
            return None
        return json.dumps([case.get("pre0"), case.get("pre"), case["old"], case["new"], case.get("fail"), case.get("rel")])

    def sample_repr(self, case, obs):
        return dict(old=case["old"][:4], new=case["new"][:4], fail=case.get("fail"), raised=obs.get("raised"),
                    exec_fails=obs.get("exec_fails"), keep=obs.get("keep_names"))

    def stats(self, case, obs, acc):
        def inc(k):
            acc[k] = acc.get(k, 0) + 1
        inc("cases_from_" + case.get("_src", "?"))
        if obs.get("trivial"):
            inc("trivial")
            return
        if obs.get("exec_fails") is not None:
            inc("exec_fails:" + obs["exec_fails"])
            inc("fail_injected" if case.get("fail") else "fail_natural")
        else:
            inc("success")
            inc("kept_identity_names_%s" % min(len(obs.get("keep_names", [])), 5))
        if case.get("pre"):
            inc("with_preceding_reload")
        inc("via_" + (obs.get("via") or case.get("via", "module")))
        for fl in ("unreg", "pkg", "hooks"):
            if case.get(fl):
                inc("with_" + fl)
        text = "\n".join(case["new"])
        for k, pat in (("class", "class "), ("inherit", "(A)"), ("closure", "mk("), ("deco", "@deco"), ("static", "@staticmethod"),
                       ("classmethod", "@classmethod"), ("property", "@property"), ("slots", "__slots__"), ("super", "super()")):
            if pat in text:
                inc("new_has_" + k)


    # -- known-finding families (narrow; every predicate only looks at facts the oracle computed from real objects) ----
    @staticmethod
    def _fam_d17(case, f):
        return (f.get("what", "").startswith(("captured reference lost identity", "captured method lost identity"))
                and f.get("identity", {}).get("cells_same") is False)

    @staticmethod
    def _fam_d18(case, f):
        w = f.get("what", "")
        fa, fb = f.get("flags") or {}, f.get("flags_b") or {}
        if w.startswith("class relation differs"):
            return fa.get("bound") == "kept" and fb.get("bound") == "kept" and bool(fa.get("inmod_base"))
        if w.startswith(("namespace differs", "captured reference does not behave", "captured method does not behave")):
            return bool(case.get("pre")) and fa.get("bound") == "kept" and bool(fa.get("inmod_base")) and bool(fa.get("foreign"))
        return False

    @staticmethod
    def _fam_scratch(case, f):
        w = f.get("what", "")
        fa, fb = f.get("flags") or {}, f.get("flags_b") or {}
        if w.startswith("class relation differs"):
            if fa.get("inst_patchable") and f.get("rel", [None, None, None])[2] == f.get("rel_own_class"):
                return False      # an instance that livepatch updates in place, against its own class: not scratch-born
            return (fa.get("bound") == "new" and bool(fa.get("foreign"))) or (fb.get("bound") == "new" and bool(fb.get("foreign")))
        if w.startswith("namespace differs"):
            writer = any("global " in st for st in case["new"])
            zsuper = any("super()" in st for st in case["new"])
            if str(f.get("where", "")).startswith("/mro") and fa.get("bound") == "kept" and fa.get("foreign") and fa.get("inmod_base"):
                # a class that had to be replaced (e.g. CPython refused its new __bases__) is scratch-born and derives from
                # the scratch module's classes; a kept class below it then has both generations in its MRO
                return True
            return ((bool(fa.get("foreign")) and (f.get("phase") == 2 or bool(case.get("pre")) or writer or zsuper))
                    or (bool(fa.get("calls_foreign")) and (bool(case.get("pre")) or f.get("phase") == 2))
                    or (writer and bool(f.get("any_scratch_born"))))
        if w.startswith(("captured reference does not behave", "captured method does not behave")):
            writer = any("global " in st for st in case["new"])
            return ((bool(fa.get("calls_foreign")) and bool(case.get("pre")))
                    or (writer and bool(f.get("any_scratch_born"))))
        if w.startswith("aliasing among names"):
            return bool(fa.get("foreign"))
        return False

    @staticmethod
    def _fam_weakref(case, f):
        return f.get("what", "").startswith("namespace differs") and str(f.get("where", "")).endswith("/weakref")

    @staticmethod
    def _fam_cell(case, f):
        return (f.get("what", "").startswith(("namespace differs", "captured reference does not behave"))
                and bool((f.get("flags") or {}).get("cell_unpatchable")))

    @staticmethod
    def _fam_kind(case, f):
        return (f.get("what", "").startswith(("namespace differs", "captured reference does not behave",
                                              "captured method does not behave", "captured method lost identity"))
                and (bool((f.get("flags") or {}).get("kind_changed")) or f.get("identity", {}).get("kind_same") is False))

    @staticmethod
    def _fam_alias(case, f):
        fa, fb = f.get("flags") or {}, f.get("flags_b") or {}
        if f.get("what", "").startswith("class relation differs"):
            return bool(fa.get("multi_paired")) and bool(fb.get("multi_paired"))
        return (f.get("what", "").startswith(("aliasing among names", "namespace differs", "captured reference", "captured method"))
                and bool(fa.get("multi_paired")))

    @staticmethod
    def _fam_slots_mixed(case, f):
        return (f.get("what", "").startswith(("namespace differs", "captured reference does not behave"))
                and bool((f.get("flags") or {}).get("slots_mixed")))

    @staticmethod
    def _fam_raise(sub):
        def pred(case, f):
            return f.get("what", "").startswith("xreload raised although") and sub in (f.get("msg") or "")
        return pred

    @staticmethod
    def _fam_slots_literal(case, f):
        """C16-H4: AssertionError out of _livepatch__setattr (a member descriptor reached it) on a pair in which a class
        has a __slots__ that is a single string or lists a private (name-mangled) name"""
        if not (f.get("what", "").startswith("xreload raised although") and f.get("err") == "AssertionError"):
            return False
        pat = re.compile(r"__slots__ = (?:'\w\w+'|\((?:'\w+', )*'__\w*[^_'\W]')")
        return any(pat.search(st) for st in case["new"]) and any(pat.search(st) for st in case["old"])

    families = {}


C16.families = {
    "empty_closure_cell": C16._fam_raise("Cell is empty"),
    "slots_names_taken_literally": C16._fam_slots_literal,
    "closure_cell_value_changed": C16._fam_d17,
    "inmodule_bases_are_scratch_classes": C16._fam_d18,
    "scratch_born_objects_bound": C16._fam_scratch,
    "weakref_descriptor_of_scratch_class": C16._fam_weakref,
    "unpatchable_object_in_closure_cell": C16._fam_cell,
    "method_kind_changed": C16._fam_kind,
    "aliasing_changed_between_versions": C16._fam_alias,
    "slots_instance_partially_synced": C16._fam_slots_mixed,
    "object_of_another_module_modified": (lambda case, f: f.get("what", "").startswith("an object that belongs to another module")
                                          or (f.get("what", "").startswith(("namespace differs", "captured reference", "captured method",
                                                                            "class relation differs", "aliasing among"))
                                              and bool((f.get("flags") or {}).get("old_foreign_modified")))),
    "kwdefaults_not_updated": (lambda case, f: f.get("what", "").startswith(("namespace differs", "captured reference does not behave",
                                                                              "captured method does not behave"))
                               and bool((f.get("flags") or {}).get("kwdefaults_changed"))),
    "type_of_cell_or_class_defined_in_module": (lambda case, f: f.get("what", "").startswith(("captured reference lost identity",
                                                                                              "captured method lost identity"))
                                                and (bool(f.get("identity", {}).get("cell_type_inmod"))
                                                     or bool(f.get("identity", {}).get("meta_shadowed")))),
    "bound_method_self_not_updated": (lambda case, f: f.get("what", "").startswith(("namespace differs", "captured reference does not behave"))
                                      and bool((f.get("flags") or {}).get("method_self_unnamed"))),
    "enum_member_reassigned": C16._fam_raise("cannot reassign member"),
    "slots_instance_setattr_typeerror": C16._fam_raise("setattr expected 3 arguments"),
    "class_dict_descriptor_not_writable": C16._fam_raise("attribute '__dict__' of 'type' objects is not writable"),
    "bases_assignment_layout": C16._fam_raise("__bases__ assignment"),
    "instance_method_hook_called_on_class": (lambda case, f: (f.get("what", "").startswith("xreload raised although")
                                                              and f.get("err") == "TypeError"
                                                              and ("__livepatch__() missing 1 required positional argument: 'self'" in (f.get("msg") or "")
                                                                   or "__reload_update__() missing 1 required positional argument: 'self'" in (f.get("msg") or "")))
                                             # the same TypeError raised below _livepatch__bases is taken for a refused __bases__
                                             # assignment: the class is replaced instead of patched
                                             or (f.get("what", "").startswith(("captured reference lost identity", "captured method lost identity"))
                                                 and bool(f.get("identity", {}).get("inst_hook")))
                                             or (f.get("what", "").startswith(("namespace differs", "class relation differs", "aliasing among",
                                                                               "captured reference does not behave", "captured method does not behave"))
                                                 and (bool((f.get("flags") or {}).get("inst_hook")) or bool((f.get("flags_b") or {}).get("inst_hook"))))),
    "package_submodule_attribute_lost": (lambda case, f: bool(case.get("pkg"))
                                         and f.get("what", "").startswith("package lost the attribute of a loaded submodule")),
}

PROP = C16()
