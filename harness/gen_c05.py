"""
gen_c05 — mini-Python (Pfb.PyCore) programs for C05/C20: generator, renderer to Python source,
synthetic import universe, trap objects and the CPython reference runner.

Mini-AST (JSON; the same object is sent to the Lean driver):

  expr ::= ["name", n] | ["attr", e, a] | ["call", f, [e..]] | ["const"] | ["bool", b]
         | ["binop", l, r] | ["lambda", ARGS, e] | ["listComp", elt, GENS] | ["setComp", elt, GENS]
         | ["genExp", elt, GENS] | ["dictComp", k, v, GENS] | ["ifExp", t, a, b] | ["tuple", [e..]]
         | ["list", [e..]] | ["subscript", v, i]
  GENS ::= [[target, iter, [if..]] ..]          target ::= ["name", n] | ["tuple", [target..]]
  ARGS ::= {"args": [[name, ann|null]..], "defaults": [e..], "vararg": name|null,
            "kwonly": [[name, ann|null]..], "kwdefaults": [e|null ..], "kwarg": name|null}
  stmt ::= ["expr", e] | ["assign", [target..], e] | ["augAssign", target, e]
         | ["annAssign", target, ann, e|null] | ["import", [[dotted, as|null]..]]
         | ["importFrom", module, [[name, as|null]..]]
         | ["funcDef", name, ARGS, body, [decorator..], returns|null]
         | ["classDef", name, [base..], body, [decorator..]]
         | ["for", target, iter, body, orelse] | ["while", test, body, orelse]   (rendered with a trailing `break`)
         | ["if", test, body, orelse] | ["with", [[e, target|null]..], body]
         | ["try", body, [[type|null, name|null, body]..], orelse, finalbody]
         | ["return", e|null] | ["pass"] | ["raise", e]
         | ["delete", [target..]] | ["global", [n..]] | ["nonlocal", [n..]]        (unclaimed extension)
  assignment targets: ["name", n] | ["attr", e, a] | ["subscript", v, i] | ["tuple", [target..]]

Additional kinds, produced only by `Gen(..., more=True)` (C05) and removed by `desugar()` before a program goes to the
Lean model (which has no such constructs; each rewriting preserves the order of name loads/stores and of evaluation):
  ["dict", [[k|null, v]..]]   rendered `{_K(k): v, **_K(w)}`   -> ["tuple", [_K(k), v, _K(w) ..]]   (a display = loads in the same scope)
  ["await", e]                rendered `(await _K(e))`          -> _K(e)      (`_K` is awaitable and yields `_K` at once)
  ["run", e]                  rendered `_R(e)`                  -> _K(e)      (`_R` drives a coroutine to completion where it stands)
  funcDef[6] == true          `async def` (names af/ag; every call is wrapped in ["run", ..]) -> plain def
  for[5] == true              `async for t in _A(it):`          -> `for t in _K(it):`   (`_A(x)` iterates exactly once, like `_K`)
  with[3] == true             `async with _K(e) as t:`          -> `with _K(e) as t:`
  ["importFrom", m, [["*", null]]]   star import (module level only; the analysis model has it, the run-time model does not: K(b) skipped)

`["const"]` is rendered as the builtin `_K` (a universal dummy object installed in `builtins` by
`install_builtins()`), so that every operation of a generated program succeeds on every value and the only
exceptions are NameErrors, explicit `raise Exception` and the few typed ones listed in `run_cpython`.
"""
from __future__ import annotations

import ast
import builtins
import dis
import importlib.abc
import importlib.machinery
import sys
import types

# ----------------------------------------------------------------------------
# alphabets
# ----------------------------------------------------------------------------
VNAMES = ["a", "b", "c", "x", "y"]
FNAMES = ["f", "g", "h"]
CNAMES = ["C", "D"]
ROOTS = ["pa", "pb"]
SUBS = ["s1", "s2"]
MEMBERS = ["m1", "m2"]
# attributes that every module of the universe serves *dynamically* through a module-level `__getattr__` (PEP 562):
# present for `getattr(module, name)`, absent from `vars(module)`
DYNAMIC = ["d1", "d2"]
ATTRS = ["u", "v"]
BUILTIN_READS = ["len", "Exception"]


# ----------------------------------------------------------------------------
# renderer
# ----------------------------------------------------------------------------
def r_expr(e):
    k = e[0]
    if k == "name":
        return e[1]
    if k == "attr":
        return "%s.%s" % (r_atom(e[1]), e[2])
    if k == "call":
        args = e[2]
        if len(args) == 1 and args[0][0] == "genExp":
            return "%s(%s)" % (r_atom(e[1]), r_expr(args[0])[1:-1])
        return "%s(%s)" % (r_atom(e[1]), ", ".join(r_expr(a) for a in args))
    if k == "const":
        return "_K"
    if k == "bool":
        return "True" if e[1] else "False"
    if k == "str":
        return repr(str(e[1]))
    if k == "binop":
        return "(%s + %s)" % (r_expr(e[1]), r_expr(e[2]))
    if k == "lambda":
        a = r_args(e[1])
        return "(lambda%s: %s)" % ((" " + a) if a else "", r_expr(e[2]))
    if k == "listComp":
        return "[%s %s]" % (r_expr(e[1]), r_gens(e[2]))
    if k == "setComp":
        return "{%s %s}" % (r_expr(e[1]), r_gens(e[2]))
    if k == "genExp":
        return "(%s %s)" % (r_expr(e[1]), r_gens(e[2]))
    if k == "dictComp":
        return "{%s: %s %s}" % (r_expr(e[1]), r_expr(e[2]), r_gens(e[3]))
    if k == "ifExp":
        return "(%s if %s else %s)" % (r_expr(e[2]), r_expr(e[1]), r_expr(e[3]))
    if k == "tuple":
        if not e[1]:
            return "()"
        return "(%s,)" % ", ".join(r_expr(x) for x in e[1])
    if k == "list":
        return "[%s]" % ", ".join(r_expr(x) for x in e[1])
    if k == "subscript":
        return "%s[%s]" % (r_atom(e[1]), r_expr(e[2]))
    if k == "dict":
        return "{%s}" % ", ".join(("**_K(%s)" % r_expr(v)) if kk is None else ("_K(%s): %s" % (r_expr(kk), r_expr(v)))
                                  for kk, v in e[1])
    if k == "await":
        return "(await _K(%s))" % r_expr(e[1])
    if k == "run":
        return "_R(%s)" % r_expr(e[1])
    raise ValueError("expr " + repr(e))


def r_atom(e):
    s = r_expr(e)
    if e[0] in ("name", "attr", "call", "const", "subscript", "bool") or s.startswith(("(", "[", "{")):
        return s
    return "(" + s + ")"


def r_gens(gens):
    out = []
    for tgt, it, ifs in gens:
        s = "for %s in %s" % (r_target(tgt), r_atom(it))
        for c in ifs:
            s += " if " + r_atom(c)
        out.append(s)
    return " ".join(out)


def r_target(t):
    if t[0] == "tuple":
        return "(%s,)" % ", ".join(r_target(x) for x in t[1])
    return r_expr(t)


def r_args(a, annotations=False):
    parts = []
    args = a.get("args", [])
    defaults = a.get("defaults", [])
    nd = len(args) - len(defaults)

    def one(p):
        n, ann = p
        if ann is not None and annotations:
            return "%s: %s" % (n, r_expr(ann))
        return n
    for i, p in enumerate(args):
        s = one(p)
        if i >= nd:
            s += (" = " if ":" in s else "=") + r_expr(defaults[i - nd])
        parts.append(s)
    if a.get("vararg"):
        parts.append("*" + a["vararg"])
    elif a.get("kwonly"):
        parts.append("*")
    for p, d in zip(a.get("kwonly", []), a.get("kwdefaults", [])):
        s = one(p)
        if d is not None:
            s += "=" + r_expr(d)
        parts.append(s)
    if a.get("kwarg"):
        parts.append("**" + a["kwarg"])
    return ", ".join(parts)


def r_body(body, ind, out):
    """-> the body with every statement wrapped as ["at", line, stmt] (what the Lean model receives)."""
    if not body:
        out.append(ind + "pass")
    return [r_stmt(s, ind, out) for s in body]


def r_stmt(s, ind, out):
    k = s[0]
    I = ind + "    "
    line = len(out) + 1
    t = list(s)
    if k == "expr":
        out.append(ind + r_expr(s[1]))
    elif k == "assign":
        out.append(ind + " = ".join(r_target(t) for t in s[1]) + " = " + r_expr(s[2]))
    elif k == "augAssign":
        out.append(ind + "%s += %s" % (r_target(s[1]), r_expr(s[2])))
    elif k == "annAssign":
        tgt = r_target(s[1])
        out.append(ind + "%s: %s" % (tgt, r_expr(s[2])) + ("" if s[3] is None else " = " + r_expr(s[3])))
    elif k == "import":
        out.append(ind + "import " + ", ".join(n + (" as " + a if a else "") for n, a in s[1]))
    elif k == "importFrom":
        out.append(ind + "from %s import %s" % (s[1], ", ".join(n + (" as " + a if a else "") for n, a in s[2])))
    elif k == "funcDef":
        for d in s[4]:
            out.append(ind + "@" + r_expr(d))
        line = len(out) + 1
        ret = "" if s[5] is None else " -> " + r_expr(s[5])
        out.append(ind + "%sdef %s(%s)%s:" % ("async " if is_async(s) else "", s[1], r_args(s[2], True), ret))
        t[3] = r_body(s[3], I, out)
    elif k == "classDef":
        for d in s[4]:
            out.append(ind + "@" + r_expr(d))
        line = len(out) + 1
        bases = "(%s)" % ", ".join(r_expr(b) for b in s[2]) if s[2] else ""
        out.append(ind + "class %s%s:" % (s[1], bases))
        t[3] = r_body(s[3], I, out)
    elif k == "for":
        if is_async(s):
            out.append(ind + "async for %s in _A(%s):" % (r_target(s[1]), r_expr(s[2])))
        else:
            out.append(ind + "for %s in %s:" % (r_target(s[1]), r_expr(s[2])))
        t[3] = r_body(s[3], I, out)
        if s[4]:
            out.append(ind + "else:")
            t[4] = r_body(s[4], I, out)
    elif k == "while":
        out.append(ind + "while %s:" % r_expr(s[1]))
        t[2] = r_body(s[2], I, out)
        out.append(I + "break")
        if s[3]:
            out.append(ind + "else:")
            t[3] = r_body(s[3], I, out)
    elif k == "if":
        out.append(ind + "if %s:" % r_expr(s[1]))
        t[2] = r_body(s[2], I, out)
        if s[3]:
            out.append(ind + "else:")
            t[3] = r_body(s[3], I, out)
    elif k == "with":
        if is_async(s):
            items = ", ".join("_K(%s)" % r_expr(e) + ("" if tt is None else " as " + r_target(tt)) for e, tt in s[1])
            out.append(ind + "async with %s:" % items)
        else:
            items = ", ".join(r_expr(e) + ("" if tt is None else " as " + r_target(tt)) for e, tt in s[1])
            out.append(ind + "with %s:" % items)
        t[2] = r_body(s[2], I, out)
    elif k == "try":
        out.append(ind + "try:")
        t[1] = r_body(s[1], I, out)
        hs = []
        for typ, name, body in s[2]:
            h = "except"
            if typ is not None:
                h += " " + r_expr(typ)
                if name:
                    h += " as " + name
            hl = len(out) + 1
            out.append(ind + h + ":")
            hs.append([hl, typ, name if typ is not None else None, r_body(body, I, out)])
        t[2] = hs
        if s[3]:
            out.append(ind + "else:")
            t[3] = r_body(s[3], I, out)
        if s[4] or not s[2]:
            out.append(ind + "finally:")
            t[4] = r_body(s[4], I, out)
    elif k == "return":
        out.append(ind + "return" + ("" if s[1] is None else " " + r_expr(s[1])))
    elif k == "pass":
        out.append(ind + "pass")
    elif k == "raise":
        out.append(ind + "raise " + r_expr(s[1]))
    elif k == "delete":
        out.append(ind + "del " + ", ".join(r_target(t) for t in s[1]))
    elif k == "global":
        out.append(ind + "global " + ", ".join(s[1]))
    elif k == "nonlocal":
        out.append(ind + "nonlocal " + ", ".join(s[1]))
    else:
        raise ValueError("stmt " + repr(s))
    return ["at", line, t]


_ASYNC_SLOT = {"funcDef": 6, "for": 5, "with": 3}


def is_async(s):
    i = _ASYNC_SLOT.get(s[0])
    return i is not None and len(s) > i and bool(s[i])


def _dx(e):
    """desugar an expression (see the module docstring)"""
    if e is None:
        return None
    k = e[0]
    KC = lambda x: ["call", ["const"], [x]]
    if k in ("name", "const", "bool", "str"):
        return e
    if k == "attr":
        return ["attr", _dx(e[1]), e[2]]
    if k == "call":
        return ["call", _dx(e[1]), [_dx(x) for x in e[2]]]
    if k == "binop":
        return ["binop", _dx(e[1]), _dx(e[2])]
    if k == "lambda":
        return ["lambda", _dargs(e[1]), _dx(e[2])]
    if k in ("listComp", "setComp", "genExp"):
        return [k, _dx(e[1]), [[_dx(g[0]), _dx(g[1]), [_dx(c) for c in g[2]]] for g in e[2]]]
    if k == "dictComp":
        return [k, _dx(e[1]), _dx(e[2]), [[_dx(g[0]), _dx(g[1]), [_dx(c) for c in g[2]]] for g in e[3]]]
    if k == "ifExp":
        return [k, _dx(e[1]), _dx(e[2]), _dx(e[3])]
    if k in ("tuple", "list"):
        return [k, [_dx(x) for x in e[1]]]
    if k == "subscript":
        return [k, _dx(e[1]), _dx(e[2])]
    if k == "dict":
        out = []
        for kk, v in e[1]:
            out += [KC(_dx(v))] if kk is None else [KC(_dx(kk)), _dx(v)]
        return ["tuple", out]
    if k in ("await", "run"):
        return KC(_dx(e[1]))
    raise ValueError("expr " + repr(e))


def _dargs(a):
    a = dict(a)
    for f in ("args", "kwonly"):
        if a.get(f):
            a[f] = [[n, _dx(ann)] for n, ann in a[f]]
    if a.get("defaults"):
        a["defaults"] = [_dx(x) for x in a["defaults"]]
    if a.get("kwdefaults"):
        a["kwdefaults"] = [_dx(x) for x in a["kwdefaults"]]
    return a


def _ds(s):
    k = s[0]
    B = lambda b: [_ds(x) for x in b]
    KC = lambda x: ["call", ["const"], [x]]
    if k == "expr":
        return [k, _dx(s[1])]
    if k == "assign":
        return [k, [_dx(t) for t in s[1]], _dx(s[2])]
    if k == "augAssign":
        return [k, _dx(s[1]), _dx(s[2])]
    if k == "annAssign":
        return [k, _dx(s[1]), _dx(s[2]), _dx(s[3])]
    if k == "funcDef":
        return [k, s[1], _dargs(s[2]), B(s[3]), [_dx(d) for d in s[4]], _dx(s[5])]
    if k == "classDef":
        return [k, s[1], [_dx(b) for b in s[2]], B(s[3]), [_dx(d) for d in s[4]]]
    if k == "for":
        it = _dx(s[2])
        return [k, _dx(s[1]), KC(it) if is_async(s) else it, B(s[3]), B(s[4])]
    if k in ("while", "if"):
        return [k, _dx(s[1]), B(s[2]), B(s[3])]
    if k == "with":
        a = is_async(s)
        return [k, [[KC(_dx(e)) if a else _dx(e), _dx(t)] for e, t in s[1]], B(s[2])]
    if k == "try":
        return [k, B(s[1]), [[_dx(h[0]), h[1], B(h[2])] for h in s[2]], B(s[3]), B(s[4])]
    if k == "return":
        return [k, _dx(s[1])]
    if k == "raise":
        return [k, _dx(s[1])]
    if k == "delete":
        return [k, [_dx(t) for t in s[1]]]
    return list(s)


def desugar(prog):
    """the program with the `more` constructs rewritten into constructs the Lean model has; statement lines are unchanged
    (every statement still renders to the same number of lines)."""
    return {"body": [_ds(s) for s in prog["body"]], "calls": [_ds(s) for s in prog.get("calls", [])]}


def render_full(prog):
    """prog = {"body": [stmt..], "calls": [stmt..]} -> (source, marker_line, located statements for the model)."""
    out = []
    located = [r_stmt(s, "", out) for s in prog["body"]]
    marker = len(out) + 1
    located += [r_stmt(s, "", out) for s in prog.get("calls", [])]
    return "\n".join(out) + "\n", marker, located


def render(prog):
    src, marker, _ = render_full(prog)
    return src, marker


def all_stmts(prog):
    return list(prog["body"]) + list(prog.get("calls", []))


# ----------------------------------------------------------------------------
# universal dummy value, synthetic import universe
# ----------------------------------------------------------------------------
class _Meta(type):
    """Metaclass of the universal dummy `_K`.  `_K` is a *class* (so that `class C(_K)` yields a real class whose
    methods can be called) on which every operation a generated program can apply succeeds and returns `_K`."""

    def __call__(cls, *a, **k):
        for x in a:
            if isinstance(x, types.GeneratorType):
                for _ in x:
                    pass
        if len(a) == 1 and not k and isinstance(a[0], (types.FunctionType, type)):
            return a[0]          # used as a decorator: identity on functions/classes
        return K

    def __getattr__(cls, n):
        if n.startswith("__") and n.endswith("__"):
            raise AttributeError(n)
        return K

    def __setattr__(cls, n, v):
        pass

    def __delattr__(cls, n):
        pass

    def __iter__(cls):
        return iter((K,))

    def __add__(cls, o):
        return K
    __radd__ = __add__
    __iadd__ = __add__

    def __getitem__(cls, i):
        return K

    def __setitem__(cls, i, v):
        pass

    def __delitem__(cls, i):
        pass

    def __enter__(cls):
        return K

    def __exit__(cls, *a):
        return False

    def __repr__(cls):
        return "_K" if cls.__dict__.get("_isK") else type.__repr__(cls)

    # `await _K` gives `_K` without suspending; `async with _K` enters / leaves like `with _K`
    def __await__(cls):
        return _ret_K()

    async def __aenter__(cls):
        return K

    async def __aexit__(cls, *a):
        return False


def _ret_K():
    return K
    yield


K = type.__call__(_Meta, "_K", (), {"_isK": True})
_D = _Meta


def _R(*a, **k):
    """`_R(coroutine)`: run the coroutine to completion right here (its exceptions propagate to the caller) and return
    `_K`; on anything else `_R` behaves like `_K(...)`.  The Lean model sees `_K(f())` with `f` a plain function."""
    if len(a) == 1 and not k and isinstance(a[0], types.CoroutineType):
        co = a[0]
        try:
            while True:
                co.send(None)
        except StopIteration:
            return K
        finally:
            co.close()
    return _Meta.__call__(K, *a, **k)


class _A(object):
    """`async for t in _A(x)`: evaluates like `_K(x)` (generator arguments are drained) and yields `_K` exactly once."""

    def __init__(self, *a, **k):
        _Meta.__call__(K, *a, **k)
        self._done = False

    def __aiter__(self):
        return self

    async def __anext__(self):
        if self._done:
            raise StopAsyncIteration
        self._done = True
        return K


class _M(types.ModuleType):
    """Module type of the synthetic universe: a real module (attribute lookup is the normal module
    lookup, a missing attribute raises AttributeError) that also tolerates call/iter/+/[]/with."""
    __call__ = _D.__call__
    __iter__ = _D.__iter__
    __add__ = _D.__add__
    __radd__ = _D.__add__
    __iadd__ = _D.__add__
    __getitem__ = _D.__getitem__
    __setitem__ = _D.__setitem__
    __enter__ = _D.__enter__
    __exit__ = _D.__exit__


def install_builtins():
    builtins._K = K
    builtins._R = _R
    builtins._A = _A


class _Finder(importlib.abc.MetaPathFinder, importlib.abc.Loader):
    """pa, pb are packages; below any package, names s* are sub-packages; members m1, m2 are set on load."""
    attempts = None  # optional list recording every find_spec call (C20 tripwire)

    def find_spec(self, name, path=None, target=None):
        if self.attempts is not None:
            self.attempts.append(name)
        parts = name.split(".")
        if parts[0] in ROOTS and all(p[:1] == "s" and p[1:].isdigit() for p in parts[1:]):
            return importlib.machinery.ModuleSpec(name, self, is_package=True)
        return None

    def create_module(self, spec):
        return _M(spec.name)

    def exec_module(self, module):
        module.__path__ = []
        for m in MEMBERS:
            object.__setattr__(module, m, K)

        def __getattr__(name, _m=module):
            if name in DYNAMIC:
                return K
            raise AttributeError("module %r has no attribute %r" % (_m.__name__, name), name=name, obj=_m)
        object.__setattr__(module, "__getattr__", __getattr__)


FINDER = _Finder()


def universe_purge():
    for m in list(sys.modules):
        if m.split(".")[0] in ROOTS:
            del sys.modules[m]


def universe_reset(loaded, attrs=()):
    """sys.modules holds exactly `loaded` (+ parents) of the universe; `attrs` = [(module, attr)] extra dummies."""
    import importlib
    if FINDER not in sys.meta_path:
        sys.meta_path.insert(0, FINDER)
    universe_purge()
    for m in loaded:
        importlib.import_module(m)
    for m, a in attrs:
        if m in sys.modules:
            setattr(sys.modules[m], a, K)


def universe_remove():
    universe_purge()
    if FINDER in sys.meta_path:
        sys.meta_path.remove(FINDER)


def build_ns(spec):
    """spec: list of {name: ["mod", dotted] | ["obj"] | ["fakemod", dotted] | ["none"]} -> list of dicts.
    "mod": the sys.modules entry (must be loaded); "fakemod": a module object of that name that is NOT the
    registry entry; "obj": the dummy; "none": None."""
    out = []
    for d in spec:
        ns = {}
        for n, v in d.items():
            if v[0] == "mod":
                ns[n] = sys.modules[v[1]]
            elif v[0] == "fakemod":
                m = _M(v[1])
                for x in MEMBERS + DYNAMIC + SUBS + ATTRS:
                    object.__setattr__(m, x, K)
                ns[n] = m
            elif v[0] == "none":
                ns[n] = None
            else:
                ns[n] = K
        out.append(ns)
    return out


# ----------------------------------------------------------------------------
# CPython reference run
# ----------------------------------------------------------------------------
FN = "<c05prog>"
_LOADS = None


def _origin_here(tb):
    """the exception was raised by this program frame itself (possibly inside harness/C code it called, e.g. a module's
    `__getattr__`), not by a deeper frame of the program"""
    t = tb.tb_next
    while t is not None:
        if t.tb_frame.f_code.co_filename == FN:
            return False
        t = t.tb_next
    return True


def _quoted(msg):
    import re
    m = re.search(r"'([^']*)'", msg)
    return m.group(1) if m else "?"


def _is_registry(o):
    return isinstance(o, _M) and sys.modules.get(o.__name__) is o


def _is_function_like(co):
    if co.co_name in ("<module>", "<genexpr>", "<listcomp>", "<setcomp>", "<dictcomp>"):
        return False
    return bool(co.co_flags & 0x1)  # CO_OPTIMIZED: functions and lambdas, not class bodies


def _all_code(co):
    yield co
    for c in co.co_consts:
        if isinstance(c, types.CodeType):
            yield from _all_code(c)


_WARM = set()


def _warm_tracing():
    """CPython 3.12: the first frame on which `f_trace_opcodes` is set in a process only starts delivering 'opcode' events
    after the next re-instrumentation, so the first traced execution of a process would record nothing.  Do one throwaway
    traced execution per process."""
    import os
    if os.getpid() in _WARM:
        return
    _WARM.add(os.getpid())

    def loc(frame, event, arg):
        return loc

    def tr(frame, event, arg):
        frame.f_trace_opcodes = True
        return loc
    old = sys.gettrace()
    sys.settrace(tr)
    try:
        exec(compile("a = 1\nb = a\n", "<warm>", "exec"), {})
    finally:
        sys.settrace(old)


def run_once(src, marker, g):
    """Execute `src` with globals `g` under a tracer.  Returns dict:
       ne: global names whose lookup raised NameError (also when caught by the program), in order, unique
       ae: dotted names `module.attr` whose lookup on a universe module raised AttributeError
       outcome: ok | NameError | UnboundLocal | FreeVar | AttributeError | UserExc | Other:<Type>
       all_read: every Name(Load) node was executed;  early: a function/lambda ran before `marker`"""
    _warm_tracing()
    tree = ast.parse(src)
    code = compile(tree, FN, "exec", dont_inherit=True)
    st = dict(mod=None, early=False)
    executed = set()
    ne, ae, local_ne = [], [], []
    ne_at = {}           # name -> [line of the lookup that first raised, raised inside a function / lambda body]
    in_function = set()  # ids of the code objects lexically inside a function / lambda (comprehensions in them included)

    def mark(co, inside):
        inside = inside or _is_function_like(co)
        if inside:
            in_function.add(id(co))
        for c in co.co_consts:
            if isinstance(c, types.CodeType):
                mark(c, inside)
    mark(code, False)
    other = [False]

    def local(frame, event, arg):
        if event == "opcode":
            executed.add((frame.f_code, frame.f_lasti))
        elif event == "exception":
            et, ev, tb = arg
            if tb is not None and _origin_here(tb):
                if isinstance(ev, UnboundLocalError):
                    local_ne.append(_quoted(str(ev)))
                elif isinstance(ev, NameError):
                    if "free variable" in str(ev):
                        local_ne.append(_quoted(str(ev)))
                    elif ev.name not in ne:
                        ne.append(ev.name)
                        ne_at[ev.name] = [frame.f_lineno, id(frame.f_code) in in_function]
                elif isinstance(ev, AttributeError) and _is_registry(getattr(ev, "obj", None)):
                    d = ev.obj.__name__ + "." + str(ev.name)
                    if d not in ae:
                        ae.append(d)
                elif not (type(ev) is Exception and not ev.args) and not isinstance(ev, (StopIteration, GeneratorExit)):
                    other[0] = True
        return local

    def tracer(frame, event, arg):
        co = frame.f_code
        if co.co_filename != FN:
            return None
        if co.co_name == "<module>":
            st["mod"] = frame
        elif _is_function_like(co) and st["mod"] is not None and st["mod"].f_lineno < marker:
            st["early"] = True
        frame.f_trace_opcodes = True
        return local

    old = sys.gettrace()
    oldrec = sys.getrecursionlimit()
    sys.setrecursionlimit(max(120, len(__import__("inspect").stack()) + 90))
    outcome = "ok"
    sys.settrace(tracer)
    try:
        exec(code, g)
    except UnboundLocalError:
        outcome = "UnboundLocal"
    except NameError as e:
        outcome = "FreeVar" if "free variable" in str(e) else "NameError"
    except AttributeError as e:
        outcome = "AttributeError" if _is_registry(getattr(e, "obj", None)) else "Other:AttributeError"
    except Exception as e:
        outcome = "UserExc" if type(e) is Exception and not e.args else "Other:" + type(e).__name__
    finally:
        sys.settrace(old)
        sys.setrecursionlimit(oldrec)
    spans = set()
    for co in _all_code(code):
        offs = {i.offset: i for i in dis.get_instructions(co)}
        for (c, off) in executed:
            if c is co and off in offs and offs[off].positions is not None and offs[off].opname.startswith("LOAD_") \
                    and offs[off].opname not in ("LOAD_CONST", "LOAD_ATTR", "LOAD_FAST_AND_CLEAR", "LOAD_BUILD_CLASS"):
                p = offs[off].positions
                spans.add((p.lineno, p.col_offset, p.end_lineno, p.end_col_offset))
    all_read = True
    aug = {id(n.target) for n in ast.walk(tree) if isinstance(n, ast.AugAssign) and isinstance(n.target, ast.Name)}
    for n in ast.walk(tree):
        # (the target of `x += v` is a Store node that is read first: it counts as a read)
        if isinstance(n, ast.Name) and (isinstance(n.ctx, ast.Load) or id(n) in aug):
            if (n.lineno, n.col_offset, n.end_lineno, n.end_col_offset) not in spans:
                all_read = False
                break
    stores = set()
    for co in _all_code(code):
        ins = {i.offset: i for i in dis.get_instructions(co)}
        for (c, off) in executed:
            if c is co and off in ins and ins[off].opname in ("STORE_NAME", "STORE_GLOBAL", "STORE_FAST", "STORE_DEREF"):
                stores.add((ins[off].argval, ins[off].positions.lineno, ins[off].positions.col_offset))
    return dict(ne=ne, ne_at=ne_at, ae=ae, local_ne=local_ne, outcome=outcome, all_read=all_read, early=st["early"],
                other_raised=other[0] or outcome.startswith("Other"),
                stores=sorted([n, l, c] for n, l, c in stores if l is not None))


def binding_sites(src, name):
    """statements that bind `name` in a module / class / function scope (comprehension variables are not bindings of
    the enclosing scope): ("name", line, col) for assignment-like targets, ("stmt", lo, hi) for import/def/class/except-as."""
    tree = ast.parse(src)
    comp_targets = set()
    for n in ast.walk(tree):
        if isinstance(n, ast.comprehension):
            for m in ast.walk(n.target):
                if isinstance(m, ast.Name):
                    comp_targets.add((m.lineno, m.col_offset))
    out = set()
    for n in ast.walk(tree):
        if isinstance(n, ast.Name) and isinstance(n.ctx, ast.Store) and n.id == name:
            if (n.lineno, n.col_offset) not in comp_targets:
                out.add(("name", n.lineno, n.col_offset))
        elif isinstance(n, (ast.FunctionDef, ast.AsyncFunctionDef, ast.ClassDef)) and n.name == name:
            lo = min([n.lineno] + [d.lineno for d in n.decorator_list])
            out.add(("stmt", lo, n.lineno))
        elif isinstance(n, ast.ExceptHandler) and n.name == name:
            out.add(("stmt", n.lineno, n.lineno))
        elif isinstance(n, (ast.Import, ast.ImportFrom)):
            for a in n.names:
                if (a.asname or a.name.split(".")[0]) == name:
                    out.add(("stmt", n.lineno, n.lineno))
    return sorted(out), comp_targets


def unexecuted_binding(src, name, stores, at=None):
    """some statement binding `name` exists whose store instruction the run never executed — and which the analysis, by its
    design (it does not follow control flow), takes for a binding the failing lookup can see: with `at` = [line of the
    lookup that raised, raised in a function body], a lookup outside function bodies only sees bindings on EARLIER lines
    (a binding further down that was not reached because the run stopped at the NameError does not count); a lookup in a
    function body is checked against the complete module, so every binding counts."""
    sites, comp_targets = binding_sites(src, name)
    done = [(l, c) for n, l, c in stores if n == name and (l, c) not in comp_targets]
    for kind, x, y in sites:
        if at is not None and not at[1] and not x < at[0]:
            continue
        if kind == "name":
            if (x, y) not in done:
                return True
        elif not any(x <= l <= y for l, c in done):
            return True
    return False


def reference(src, marker, nsspec, loaded, max_runs=10):
    """define-and-rerun: run, define every global name that raised NameError (and load / set every universe-module
    attribute that raised AttributeError), run again, until a run raises nothing new.  One dict per run, holding the
    state the run started from (`defined`, `loaded`, `attrs`)."""
    runs = []
    defined, attrs, loaded = [], [], list(loaded)
    while True:
        universe_reset(loaded, attrs)
        g = {}
        for d in build_ns(nsspec):
            g.update(d)
        for n in defined:
            g[n] = K
        r = run_once(src, marker, g)
        r.update(defined=list(defined), loaded=list(loaded), attrs=[list(a) for a in attrs])
        runs.append(r)
        new = False
        for n in r["ne"]:
            if n not in defined:
                defined.append(n)
                new = True
        for d in r["ae"]:
            m, a = d.rsplit(".", 1)
            if FINDER.find_spec(d) is not None:
                if d not in loaded:
                    loaded.append(d)
                    new = True
            elif (m, a) not in attrs:
                attrs.append((m, a))
                new = True
        if not new or len(runs) >= max_runs:
            break
    return runs


def registry_snapshot():
    """The universe part of sys.modules for the Lean model: [[dotted, [[attr, ["mod", idx] | ["obj"]]..]]..]."""
    names = sorted(m for m in sys.modules if m.split(".")[0] in ROOTS)
    ids = {id(sys.modules[m]): i for i, m in enumerate(names)}
    out = []
    for m in names:
        at = []
        for a, v in sorted(vars(sys.modules[m]).items()):
            if a.startswith("__"):
                continue
            at.append([a, ["mod", ids[id(v)]] if id(v) in ids else ["obj"]])
        for a in DYNAMIC:
            if a not in vars(sys.modules[m]):
                at.append([a, ["obj"]])
        out.append([m, at])
    return out


# ----------------------------------------------------------------------------
# generator
# ----------------------------------------------------------------------------
ARITY = {"f": 0, "g": 1, "h": 2, "af": 0, "ag": 1}
# names of `async def` functions (Gen(more=True)): never read or called by generated expressions, only by the
# generated `_R(af())` calls, so that every coroutine is run where the Lean model runs the plain function
AFNAMES = ["af", "ag"]
PNAMES = ["p", "q", "a", "x"]


class Gen(object):
    def __init__(self, rng, wild=0.04, ext=False, more=False):
        self.rng = rng
        self.wild = wild
        self.ext = ext       # unclaimed extension statements (global/nonlocal/del)
        self.more = more     # dict displays, async def/for/with/await, `__all__` forms, star imports, docstrings (C05 only)
        self.features = set()
        self.V, self.F, self.C, self.R, self.S, self.M, self.A = VNAMES, FNAMES, CNAMES, ROOTS, SUBS, MEMBERS + DYNAMIC[:1], ATTRS
        self.B = BUILTIN_READS

    # -- helpers ------------------------------------------------------------
    def ch(self, xs):
        return xs[self.rng.randrange(len(xs))]

    def p(self, x):
        return self.rng.random() < x

    def vname(self):
        return self.ch(self.V)

    def read_name(self, fctx):
        r = self.rng.random()
        if r < 0.62:
            return ["name", self.vname()]
        if r < 0.80:
            return ["name", self.ch(self.R)]
        if r < 0.86:
            return ["name", self.ch(self.B)]
        if r < 0.86 + self.wild:
            return ["name", self.ch(self.F + self.C)]
        return ["name", self.vname()]

    def chain(self, fctx):
        r = self.rng.random()
        if r < 0.55:
            e = ["name", self.ch(self.R)]
            for _ in range(self.ch([1, 1, 2, 3])):
                e = ["attr", e, self.ch(self.S + self.S + self.M + self.A)]
            return e
        e = ["name", self.vname()]
        for _ in range(self.ch([1, 1, 2])):
            e = ["attr", e, self.ch(self.A + self.S + self.M)]
        return e

    def target(self, simple=False):
        r = self.rng.random()
        if simple or r < 0.72:
            return ["name", self.vname()]
        if r < 0.84:
            return ["attr", ["name", self.ch(self.V + self.R)], self.ch(self.A + self.S)]
        if r < 0.90:
            return ["attr", ["attr", ["name", self.ch(self.V + self.R)], self.ch(self.A + self.S)], self.ch(self.A)]
        if r < 0.95:
            return ["subscript", ["name", self.vname()], ["const"]]
        return ["tuple", [["name", self.vname()]]]

    def comp_target(self):
        if self.more and self.p(0.06):
            # `[.. for x.u in ..]`, `[.. for x[_K] in ..]`: the target is an ordinary store expression
            self.features.add("compTargetExpr")
            if self.p(0.5):
                return ["attr", ["name", self.ch(self.V + self.R)], self.ch(self.A)]
            return ["subscript", ["name", self.vname()], self.read_name(None) if self.p(0.5) else ["const"]]
        if self.p(0.85):
            return ["name", self.vname()]
        return ["tuple", [["name", self.vname()]]]

    def iterable(self, d, fctx):
        r = self.rng.random()
        if r < 0.5:
            n = self.ch([0, 1, 1, 2])
            return ["list", [self.expr(d - 1, fctx, small=True) for _ in range(n)]]
        if r < 0.8:
            return ["call", ["const"], [self.expr(d - 1, fctx, small=True)]]
        return ["call", self.callee(fctx), []]

    def callee(self, fctx):
        r = self.rng.random()
        if r < 0.3:
            return ["const"]
        if r < 0.6:
            return ["name", self.vname()]
        if r < 0.8:
            return self.chain(fctx)
        if fctx is not None and fctx < len(self.F) - 1 and r < 0.95:
            return ["name", self.ch(self.F[fctx + 1:])]
        return ["name", self.ch(self.B[:1] + self.V)]

    def gens(self, d, fctx):
        out = []
        for _ in range(self.ch([1, 1, 1, 2])):
            ifs = [self.test(d - 1, fctx)] if self.p(0.3) else []
            out.append([self.comp_target(), self.iterable(d, fctx), ifs])
        return out

    def test(self, d, fctx):
        r = self.rng.random()
        if r < 0.3:
            return ["bool", self.p(0.6)]
        if r < 0.7:
            return self.read_name(fctx)
        if r < 0.85:
            return self.chain(fctx)
        return ["call", self.callee(fctx), []]

    def args(self, d, fctx, name=None, lam=False):
        rng = self.rng
        req = ARITY.get(name, 0) if name else 0
        names = list(PNAMES)
        rng.shuffle(names)
        names = names + ["r", "s"]
        a = {"args": [], "defaults": [], "vararg": None, "kwonly": [], "kwdefaults": [], "kwarg": None}
        k = 0
        for _ in range(req):
            ann = self.expr(d - 1, fctx, small=True) if (not lam and self.p(0.2)) else None
            a["args"].append([names[k], ann])
            k += 1
        for _ in range(self.ch([0, 0, 1, 1, 2])):
            if k >= len(names):
                break
            ann = self.expr(d - 1, fctx, small=True) if (not lam and self.p(0.2)) else None
            a["args"].append([names[k], ann])
            a["defaults"].append(self.expr(d - 1, fctx, small=True))
            k += 1
        if self.p(0.12):
            a["vararg"] = "va"
        if self.p(0.1) and k < len(names):
            a["kwonly"].append([names[k], None])
            a["kwdefaults"].append(self.expr(d - 1, fctx, small=True))
            k += 1
        if self.p(0.08):
            a["kwarg"] = "kw"
        return a

    # -- expressions ----------------------------------------------------------
    def vexpr(self, fctx):
        """operand positions: an expression whose value tolerates every operation"""
        r = self.rng.random()
        if r < 0.5:
            return self.read_name(fctx)
        if r < 0.75:
            return self.chain(fctx)
        if r < 0.85:
            return ["const"]
        return ["call", self.callee(fctx), [self.read_name(fctx)] if self.p(0.5) else []]

    def scoped_attr(self, d, fctx):
        """attribute / method call written directly on an expression that opens a scope of its own (comprehension,
        generator expression, lambda): `[c for c in r].u`, `(lambda p: p).v(_K)`"""
        self.features.add("scopedAttr")
        r = self.rng.random()
        if r < 0.35:
            base = ["listComp", self.expr(d - 1, fctx, small=True), self.gens(d, fctx)]
        elif r < 0.55:
            base = ["genExp", self.expr(d - 1, fctx, small=True), self.gens(d, fctx)]
        elif r < 0.70:
            base = ["setComp", self.expr(d - 1, fctx, small=True), self.gens(d, fctx)]
        elif r < 0.85:
            base = ["dictComp", self.expr(d - 1, fctx, small=True), self.expr(d - 1, fctx, small=True), self.gens(d, fctx)]
        else:
            base = ["lambda", self.args(d, fctx, lam=True), self.expr(d - 1, fctx, small=True)]
        e = ["attr", base, self.ch(self.A)]
        if self.p(0.3):
            e = ["attr", e, self.ch(self.A)]
        if self.p(0.5):
            e = ["call", e, [self.expr(d - 1, fctx, small=True) for _ in range(self.ch([0, 1]))]]
        return e

    def dict_display(self, d, fctx):
        """`{k: v, **w}`: keys, values and `**` operands are ordinary loads in the enclosing scope"""
        self.features.add("dict")
        items = []
        for _ in range(self.ch([0, 1, 1, 2, 2, 3])):
            if self.p(0.2):
                items.append([None, self.expr(d - 1, fctx, small=True)])
            else:
                items.append([self.expr(d - 1, fctx, small=True), self.expr(d - 1, fctx, small=True)])
        e = ["dict", items]
        if self.p(0.25):
            e = ["attr", e, self.ch(self.A)]        # `{**a}.u`: attribute of a non-name
            if self.p(0.5):
                e = ["call", e, []]
        return e

    def docstring(self):
        """a string statement holding doctest examples and `{name}` references (read by scan_for_import_issues with
        parse_docstrings=True only; at run time it is a constant)"""
        self.features.add("docstring")
        n = lambda: self.ch(self.V + self.R + self.R)
        parts = ["Summary."]
        for _ in range(self.ch([1, 1, 2, 3])):
            r = self.rng.random()
            if r < 0.25:
                parts.append("See {%s} and `%s`%s." % (n(), n(), self.ch(["", "", " {class}", " {%s.%s}" % (n(), n())])))
            elif r < 0.5:
                parts.append(">>> %s.%s(%s)\n_K" % (n(), self.ch(self.A + self.M), n()))
            elif r < 0.65:
                parts.append(">>> import %s\n>>> %s.%s + %s" % (self.ch(self.R), self.ch(self.R), self.ch(self.M), n()))
            elif r < 0.8:
                parts.append(">>> for i in %s:\n...     print(i, %s)\n" % (n(), n()))
            elif r < 0.9:
                parts.append(">>> %s = %s\n>>> %s\n" % (n(), n(), n()))
            else:
                parts.append(">>> %s(\n" % n())       # not parseable: ignored with a warning
        return ["expr", ["str", "\n\n".join(parts) + "\n"]]

    def all_stmt(self, fctx):
        """`__all__ = …` in its forms: list / tuple of strings, with a non-string element, a non-display value"""
        self.features.add("all")
        names = [self.ch(self.V + self.R + self.F + self.C) for _ in range(self.ch([1, 1, 2, 3]))]
        strs = [["str", x] for x in names]
        r = self.rng.random()
        if r < 0.45:
            v = ["list", strs]
        elif r < 0.65:
            v = ["tuple", strs]
        elif r < 0.8:
            v = ["list", strs + [self.read_name(fctx)]]
        elif r < 0.9:
            v = ["binop", ["list", strs], ["list", [["str", self.vname()]]]]
        else:
            v = self.read_name(fctx)
        if self.p(0.1):
            return ["augAssign", ["name", "__all__"], v]
        if self.p(0.1):
            return ["assign", [["name", "__all__"], ["name", self.vname()]], v]
        return ["assign", [["name", "__all__"]], v]

    def async_stmt(self, d, fctx, kind):
        """a statement that only an `async def` body can hold"""
        r = self.rng.random()
        if r < 0.4:
            self.features.add("asyncFor")
            return ["for", self.target() if self.p(0.25) else ["name", self.vname()], self.iterable(2, fctx),
                    self.body(d - 1, fctx, kind), self.body(d - 1, fctx, kind, 1) if self.p(0.15) else [], True]
        if r < 0.65:
            self.features.add("asyncWith")
            items = [[self.vexpr(fctx), self.target() if self.p(0.7) else None] for _ in range(self.ch([1, 1, 2]))]
            return ["with", items, self.body(d - 1, fctx, kind), True]
        self.features.add("await")
        aw = ["await", self.expr(1, fctx, small=True)]
        if r < 0.85:
            return ["assign", [self.target()], aw]
        return ["expr", aw]

    def expr(self, d, fctx, small=False):
        if self.more and d > 0 and self.p(0.05):
            return self.dict_display(d, fctx)
        r = self.rng.random()
        if d <= 0 or (small and r < 0.6):
            r2 = self.rng.random()
            if r2 < 0.55:
                return self.read_name(fctx)
            if r2 < 0.8:
                return self.chain(fctx)
            return ["const"]
        r = self.rng.random()
        if r < 0.20:
            return self.read_name(fctx)
        if r < 0.34:
            return self.chain(fctx)
        if r < 0.37:
            return ["const"]
        if r < 0.40:
            return self.scoped_attr(d, fctx)
        if r < 0.52:
            return ["call", self.callee(fctx), [self.expr(d - 1, fctx, small=True) for _ in range(self.ch([0, 1, 1, 2]))]]
        if r < 0.58:
            return ["binop", self.vexpr(fctx), self.vexpr(fctx)]
        if r < 0.66:
            self.features.add("lambda")
            return ["lambda", self.args(d, fctx, lam=True), self.expr(d - 1, fctx)]
        if r < 0.76:
            self.features.add("listComp")
            return ["listComp", self.expr(d - 1, fctx, small=True), self.gens(d, fctx)]
        if r < 0.80:
            self.features.add("setComp")
            return ["call", ["const"], [["setComp", self.expr(d - 1, fctx, small=True), self.gens(d, fctx)]]]
        if r < 0.84:
            self.features.add("dictComp")
            return ["call", ["const"], [["dictComp", self.expr(d - 1, fctx, small=True), self.expr(d - 1, fctx, small=True),
                                          self.gens(d, fctx)]]]
        if r < 0.89:
            self.features.add("genExp")
            return ["call", ["const"], [["genExp", self.expr(d - 1, fctx, small=True), self.gens(d, fctx)]]]
        if r < 0.93:
            return ["ifExp", self.test(d - 1, fctx), self.expr(d - 1, fctx, small=True), self.expr(d - 1, fctx, small=True)]
        if r < 0.97:
            return ["tuple", [self.expr(d - 1, fctx, small=True) for _ in range(self.ch([1, 2]))]]
        return ["subscript", self.read_name(fctx), self.expr(d - 1, fctx, small=True)]

    # -- statements -----------------------------------------------------------
    def imp(self, kind=None):
        if self.more and kind == "module" and self.p(0.06):
            self.features.add("star")
            return ["importFrom", self.ch(self.R) + ("." + self.ch(self.S) if self.p(0.3) else ""), [["*", None]]]
        r = self.rng.random()
        root = self.ch(self.R)
        if r < 0.3:
            return ["import", [[root, None if self.p(0.8) else self.vname()]]]
        if r < 0.55:
            dotted = root + "." + self.ch(self.S) + ("." + self.ch(self.S) if self.p(0.25) else "")
            return ["import", [[dotted, None if self.p(0.8) else self.vname()]]]
        mod = root + ("." + self.ch(self.S) if self.p(0.3) else "")
        n = self.ch(self.S + self.M)
        return ["importFrom", mod, [[n, None if self.p(0.7) else self.vname()]]]

    def body(self, d, fctx, kind, n=None):
        n = n if n is not None else self.ch([1, 1, 2, 2, 3])
        return [self.stmt(d, fctx, kind) for _ in range(n)]

    def with_doc(self, body):
        if self.more and self.p(0.08):
            return [self.docstring()] + body
        return body

    def stmt(self, d, fctx, kind):
        """kind: 'module' | 'func' | 'afunc' (directly inside an `async def`) | 'class'"""
        if self.more:
            if kind == "afunc" and self.p(0.3):
                return self.async_stmt(max(d, 1), fctx, kind)
            if self.p(0.025):
                return self.all_stmt(fctx)
        r = self.rng.random()
        if d <= 0:
            r = r * 0.52
        if r < 0.16:
            return ["expr", self.expr(2, fctx)]
        if r < 0.34:
            ts = [self.target()] + ([self.target(simple=True)] if self.p(0.1) else [])
            return ["assign", ts, self.expr(2, fctx)]
        if r < 0.39:
            t = self.target() if self.p(0.3) else ["name", self.vname()]
            if t[0] == "tuple":
                t = ["name", self.vname()]
            return ["augAssign", t, self.expr(1, fctx, small=True)]
        if r < 0.44:
            t = self.target()
            if t[0] == "tuple":
                t = ["name", self.vname()]
            return ["annAssign", t, self.expr(1, fctx, small=True), self.expr(1, fctx, small=True) if self.p(0.75) else None]
        if r < 0.52:
            return self.imp(kind)
        if r < 0.64:
            return self.funcdef(d, fctx, kind)
        if r < 0.71:
            return self.classdef(d, fctx, kind)
        if r < 0.77:
            self.features.add("for")
            return ["for", self.target() if self.p(0.25) else ["name", self.vname()], self.iterable(2, fctx),
                    self.body(d - 1, fctx, kind), self.body(d - 1, fctx, kind, 1) if self.p(0.15) else []]
        if r < 0.81:
            self.features.add("while")
            return ["while", self.test(1, fctx), self.body(d - 1, fctx, kind), self.body(d - 1, fctx, kind, 1) if self.p(0.2) else []]
        if r < 0.88:
            self.features.add("if")
            return ["if", self.test(1, fctx), self.body(d - 1, fctx, kind), self.body(d - 1, fctx, kind, 1) if self.p(0.35) else []]
        if r < 0.92:
            self.features.add("with")
            items = [[self.vexpr(fctx), self.target() if self.p(0.7) else None] for _ in range(self.ch([1, 1, 2]))]
            return ["with", items, self.body(d - 1, fctx, kind)]
        if r < 0.985 or not self.ext:
            self.features.add("try")
            b = self.body(d - 1, fctx, kind)
            if self.p(0.6):
                b.append(["raise", ["name", "Exception"]])
            hs = []
            if self.p(0.85):
                named = self.p(0.6)
                hs.append([["name", "Exception"] if (named or self.p(0.6)) else None, self.vname() if named else None,
                           self.body(d - 1, fctx, kind, 1)])
            return ["try", b, hs, self.body(d - 1, fctx, kind, 1) if (hs and self.p(0.15)) else [],
                    self.body(d - 1, fctx, kind, 1) if (not hs or self.p(0.2)) else []]
        self.features.add("ext")
        r2 = self.rng.random()
        if self.more and r2 < 0.3:
            # `del a.b`, `del a.b.c`, `del a[i]`, `del f().u`: loads of everything but the last component
            r3 = self.rng.random()
            if r3 < 0.4:
                return ["delete", [self.chain(fctx)]]
            if r3 < 0.7:
                return ["delete", [["subscript", self.read_name(fctx), self.expr(1, fctx, small=True)]]]
            if r3 < 0.85:
                return ["delete", [["attr", ["call", self.callee(fctx), []], self.ch(self.A)]]]
            return ["delete", [["name", self.vname()], self.chain(fctx)]]
        if r2 < 0.5:
            return ["delete", [["name", self.vname()]]]
        if kind in ("func", "afunc") and r2 < 0.8:
            return ["global", [self.vname()]]
        return ["delete", [["name", self.vname()]]]

    def funcdef(self, d, fctx, kind):
        self.features.add("def")
        lo = 0 if fctx is None else fctx + 1
        if lo >= len(self.F):
            return ["assign", [["name", self.vname()]], self.expr(2, fctx)]
        idx = self.rng.randrange(lo, len(self.F))
        name = self.F[idx]
        is_async = self.more and self.p(0.12)
        if is_async:
            self.features.add("asyncDef")
            name = self.ch(AFNAMES)
        a = self.args(2, fctx, name=name)
        decos = [self.ch([["const"], ["name", self.vname()], self.chain(fctx)])] if self.p(0.12) else []
        ret = self.expr(1, fctx, small=True) if self.p(0.12) else None
        body = self.with_doc(self.body(d - 1, idx, "afunc" if is_async else "func"))
        body = self.add_calls(body, idx)
        if self.p(0.5):
            body.append(["return", self.expr(2, idx)])
        if is_async:
            return ["funcDef", name, a, body, decos, ret, True]
        return ["funcDef", name, a, body, decos, ret]

    def classdef(self, d, fctx, kind):
        self.features.add("class")
        name = self.ch(self.C)
        bases = []
        if self.p(0.2):
            bases = [self.ch([["name", self.vname()], self.chain(fctx), ["name", name]])]
        decos = [self.ch([["const"], ["name", self.vname()], ["name", name]])] if self.p(0.1) else []
        body = self.with_doc(self.body(d - 1, fctx, "class"))
        return ["classDef", name, bases, body, decos]

    def call_stmts(self, body, prefix=None):
        """calls of every function / method defined directly in `body` (last definition per name)."""
        out, seen = [], set()
        for s in reversed(body):
            if s[0] == "funcDef" and s[1] not in seen and not (s[4] and s[4][0][0] != "const" and False):
                seen.add(s[1])
                fn = ["name", s[1]] if prefix is None else ["attr", prefix, s[1]]
                call = ["call", fn, [["const"] for _ in range(ARITY.get(s[1], 0))]]
                out.append(["expr", ["run", call] if is_async(s) else call])
            elif s[0] == "classDef" and s[1] not in seen:
                seen.add(s[1])
                cn = ["name", s[1]] if prefix is None else ["attr", prefix, s[1]]
                out.extend(self.call_stmts(s[3], cn))
        out.reverse()
        return out

    def add_calls(self, body, idx):
        return body + self.call_stmts(body)

    def program(self, nstmts=None, depth=3):
        n = nstmts if nstmts is not None else self.ch([1, 2, 3, 3, 4, 5, 6])
        body = self.with_doc([self.stmt(depth - 1, None, "module") for _ in range(n)])
        if self.more and self.p(0.15):
            # a name read by an annotation / default / decorator / base of some def or class gets its (only) module-level
            # binding further down: those are evaluated when the statement runs, not when the function is called
            heads = []
            for st in walk_stmts(body):
                if st[0] in ("funcDef", "classDef"):
                    for e in stmt_exprs(st)[0]:
                        heads += sorted(x for x in names_read(e) if x in self.V + self.R)
            if heads:
                self.features.add("lateBinding")
                n = self.ch(heads)
                body.append(["import", [["pa", n]]] if self.p(0.3) else ["assign", [["name", n]], ["const"]])
        return {"body": body, "calls": self.call_stmts(body)}


def gen_nsspec(rng):
    """-> (nsspec, loaded): initial namespaces and the loaded part of the universe."""
    loaded = []
    r = rng.random()
    if r < 0.35:
        loaded = []
    elif r < 0.6:
        loaded = ["pa"]
    elif r < 0.8:
        loaded = ["pa", "pa.s1"]
    else:
        loaded = ["pa", "pa.s1", "pb", "pa.s1.s2"] if rng.random() < 0.5 else ["pa", "pb.s2"]
    allloaded = set()
    for m in loaded:
        parts = m.split(".")
        for i in range(1, len(parts) + 1):
            allloaded.add(".".join(parts[:i]))
    r = rng.random()
    if r < 0.3:
        return [{}], loaded
    nss = [{}] if rng.random() < 0.8 else [{}, {}]
    for d in nss:
        for _ in range(rng.choice([1, 2, 3])):
            r = rng.random()
            if r < 0.35 and allloaded:
                m = rng.choice(sorted(allloaded))
                n = m.split(".")[0] if rng.random() < 0.7 else rng.choice(VNAMES + [m.split(".")[-1]])
                if "." in m and n == m.split(".")[0]:
                    m = n
                d[n] = ["mod", m]
            elif r < 0.5:
                d[rng.choice(ROOTS + VNAMES)] = ["fakemod", rng.choice(ROOTS)]
            else:
                d[rng.choice(VNAMES + ROOTS + FNAMES + CNAMES)] = ["obj"]
    return nss, loaded


# ----------------------------------------------------------------------------
# raw source snippets (no mini-AST, no Lean model: judged by the oracle only)
# ----------------------------------------------------------------------------
# kind -> [(body, calls)]; holes: {a} {b} {c} variables, {p} {q} parameters, {r} root package, {m} member, {s} sub-package
RAW_TEMPLATES = {
    # type comments: inside the claimed domain (the statements are ordinary); a name that occurs only in a type comment
    # is never looked up by the run, the analysis reports it on purpose (tidy-imports must keep such imports)
    "typecomment": [
        ("def f({p}, {q}):\n    # type: ({a}, {r}.{m}) -> {b}\n    return ({p}, {c})\n", "f(_K, _K)\n"),
        ("def f(\n    {p},  # type: {a}\n    {q}=_K,  # type: {r}.{s}.T\n):\n    return ({q}, {b})\n", "f(_K)\n"),
        ("for {a} in [_K]:  # type: {b}\n    {c}\n{a}\n", ""),
        ("{a} = _K  # type: {b}\n({a}, {c})\n", ""),
        ("with _K as {a}:  # type: {b}\n    {c}\n", ""),
        ("def f({p}):\n    # type: see below\n    return ({a}, {p})\n{b} = _K\n", "f(_K)\n"),
        ("async def af({p}):\n    # type: ({a}) -> {b}\n    async for {c} in _A({p}):  # type: {r}.{m}\n        {c}\n    return {b}\n",
         "_R(af(_K))\n"),
        ("{a}  # type: {b}\n{c}\n", ""),                      # not a type-comment position: parsed without type comments
        ("class C:\n    def f(self, {p}):\n        # type: ({a}) -> C\n        return {b}\n", "C().f(_K)\n"),
        ("import {r}\ndef f({p}):\n    # type: ({r}.{m}) -> {r}.{s}.T\n    return {p}\n", "f({a})\n"),
    ],
    # unclaimed extensions: executed so that a crash is seen; names bound by the construct are not judged
    "match": [
        ("match {a}:\n    case {b}:\n        {b}\n{c}\n", ""),
        ("match [_K, _K]:\n    case [{a}, *{b}]:\n        ({a}, {b})\n    case _:\n        {c}\n{c}\n", ""),
        ("match {{'k': _K}}:\n    case {{'k': {a}, **{b}}}:\n        ({a}, {b}, {c})\n", ""),
        ("match _K:\n    case {r}.{m} as {a}:\n        {a}\n    case Exception():\n        {c}\n    case {b}:\n        ({b}, {c})\n", ""),
        ("def f({p}):\n    match {p}:\n        case ({a}, {b}) | [{a}, {b}, _]:\n            return {a}\n        case str() | None:\n"
         "            return {c}\n    return {b}\n", "f(_K)\n"),
        ("match ({a}, {b}):\n    case ({r}.{m}, {c}) if {c}:\n        pass\n    case (_, *_):\n        {c}\n", ""),
    ],
    "walrus": [
        ("({a} := {b})\n{a}\n", ""),
        ("[({a} := {b}) for {b} in [_K]]\n({a}, {b})\n", ""),
        ("def f():\n    if ({a} := {c}):\n        return {a}\n    return [{b} for {b} in [_K] if ({c} := {b})]\n", "f()\n"),
        ("{a} = [{b} for {b} in [_K] if ({c} := {b})]\n{c}\n", ""),
        ("(lambda: ({a} := _K))()\n{a}\n", ""),
        ("class C:\n    {a} = ({b} := _K)\n{b}\n", ""),
        ("while ({a} := {b}):\n    break\n({a}, {c})\n", ""),
    ],
    "typealias": [
        ("type A = {b}\n(A, {c})\n", ""),
        ("type A[T: {b}] = list[T]\n{c}\n", ""),
        ("def f():\n    type A[T, *Ts, **P] = {r}.{m}\n    return (A, {c})\n", "f()\n"),
    ],
    "pep695": [
        ("def f[T: {a}, *Ts, **P]({p}: T = {b}) -> T:\n    return ({c}, {p})\n", "f()\n"),
        ("class C[T: ({a}, {b})](_K):\n    {c}: T = _K\n{c}\n", ""),
        ("class C[T]:\n    def m[U](self, {p}: T) -> U:\n        return (T, U, {a})\n", "C().m(_K)\n"),
        ("async def af[T]({p}: T):\n    return {b}\n", "_R(af(_K))\n"),
    ],
}
RAW_EXT_KINDS = ("match", "walrus", "typealias", "pep695")


def raw_snippets(rng, per_kind=2):
    """-> [(kind, source, marker_line)] with the holes filled at random"""
    out = []
    for kind, tpls in RAW_TEMPLATES.items():
        for body, calls in (tpls if per_kind is None else [tpls[rng.randrange(len(tpls))] for _ in range(per_kind)]):
            vs = rng.sample(VNAMES, 2) + [rng.choice(VNAMES)]
            ps = rng.sample(PNAMES, 2)
            f = dict(a=vs[0], b=vs[1], c=vs[2], p=ps[0], q=ps[1], r=rng.choice(ROOTS), m=rng.choice(MEMBERS + DYNAMIC[:1]),
                     s=rng.choice(SUBS))
            b = body.format(**f)
            try:
                compile(b + calls.format(**f), "<raw>", "exec", dont_inherit=True)
            except SyntaxError:        # e.g. a capture that is also the comprehension variable
                continue
            out.append((kind, b + calls.format(**f), b.count("\n") + 1))
    return out


def construct_bound_names(src):
    """names bound by walrus targets, match captures, PEP 695 type parameters and `type` statements (unclaimed
    extensions: not judged), and the names read only where nothing is evaluated by the run (type-parameter bounds,
    alias values: lazily evaluated)"""
    tree = ast.parse(src)
    bound, lazy = set(), set()
    for n in ast.walk(tree):
        if isinstance(n, ast.NamedExpr) and isinstance(n.target, ast.Name):
            bound.add(n.target.id)
        elif isinstance(n, (ast.MatchAs, ast.MatchStar)) and n.name:
            bound.add(n.name)
        elif isinstance(n, ast.MatchMapping) and n.rest:
            bound.add(n.rest)
        elif isinstance(n, (ast.TypeVar, ast.TypeVarTuple, ast.ParamSpec)):
            bound.add(n.name)
            b = getattr(n, "bound", None)
            if b is not None:
                lazy |= {x.id for x in ast.walk(b) if isinstance(x, ast.Name)}
        elif isinstance(n, ast.TypeAlias):
            bound.add(n.name.id)
            lazy |= {x.id for x in ast.walk(n.value) if isinstance(x, ast.Name)}
    return bound, lazy


def type_comment_names(src):
    """heads of the dotted names occurring in `# type:` comments of the source"""
    import re
    out = set()
    for m in re.finditer(r"#\s*type:(.*)$", src, re.M):
        out |= set(re.findall(r"(?<![\w.])([A-Za-z_]\w*)", m.group(1)))
    return out


def docstring_refs(src):
    """(identifier tokens of all string literals, names loaded by doctest examples of string literals, `{name}`
    references of string literals) — computed with the stdlib `doctest` parser, independently of pyflyby"""
    import doctest
    import re
    tree = ast.parse(src)
    words, loads, braces = set(), set(), set()
    for n in ast.walk(tree):
        if isinstance(n, ast.Constant) and isinstance(n.value, str):
            words |= set(re.findall(r"[A-Za-z_]\w*", n.value))
            braces |= set(re.findall(r"\{([A-Za-z_]\w*)\}", n.value))
            try:
                exs = doctest.DocTestParser().get_examples(n.value)
            except ValueError:
                continue
            for ex in exs:
                try:
                    t = ast.parse(ex.source)
                except SyntaxError:
                    continue
                stored = {x.id for x in ast.walk(t) if isinstance(x, ast.Name) and isinstance(x.ctx, ast.Store)}
                imported = {(a.asname or a.name.split(".")[0]) for x in ast.walk(t)
                            if isinstance(x, (ast.Import, ast.ImportFrom)) for a in x.names}
                loads |= {x.id for x in ast.walk(t) if isinstance(x, ast.Name) and isinstance(x.ctx, ast.Load)} \
                    - stored - imported
    return words, loads, braces


# ----------------------------------------------------------------------------
# syntactic facts about a mini-AST program (used by the known-finding family predicates)
# ----------------------------------------------------------------------------
def sub_exprs(e):
    """immediate sub-expressions of an expression (comprehension/lambda internals included)."""
    k = e[0]
    if k in ("name", "const", "bool"):
        return []
    if k == "attr":
        return [e[1]]
    if k == "call":
        return [e[1]] + list(e[2])
    if k == "binop":
        return [e[1], e[2]]
    if k == "lambda":
        a = e[1]
        return list(a.get("defaults", [])) + [d for d in a.get("kwdefaults", []) if d is not None] + [e[2]]
    if k in ("listComp", "setComp", "genExp"):
        return [e[1]] + [x for g in e[2] for x in [g[0], g[1]] + list(g[2])]
    if k == "dictComp":
        return [e[1], e[2]] + [x for g in e[3] for x in [g[0], g[1]] + list(g[2])]
    if k == "ifExp":
        return [e[1], e[2], e[3]]
    if k in ("tuple", "list"):
        return list(e[1])
    if k == "subscript":
        return [e[1], e[2]]
    if k == "dict":
        return [x for kk, v in e[1] for x in ([v] if kk is None else [kk, v])]
    if k in ("await", "run"):
        return [e[1]]
    return []


def names_read(e, store=False):
    """names occurring in load position inside expression/target `e`."""
    k = e[0]
    if k == "name":
        return set() if store else {e[1]}
    if k == "tuple" and store:
        out = set()
        for x in e[1]:
            out |= names_read(x, True)
        return out
    out = set()
    for x in sub_exprs(e):
        out |= names_read(x)
    if k in ("listComp", "setComp", "genExp", "dictComp"):
        pass
    return out


def target_names(t):
    if t is None:
        return set()
    if t[0] == "name":
        return {t[1]}
    if t[0] == "tuple":
        out = set()
        for x in t[1]:
            out |= target_names(x)
        return out
    return set()


def target_attr_heads(t):
    """heads n of attribute-chain targets `n.a.b = …`."""
    if t is None:
        return set()
    if t[0] == "attr":
        e = t
        while e[0] == "attr":
            e = e[1]
        return {e[1]} if e[0] == "name" else set()
    if t[0] == "tuple":
        out = set()
        for x in t[1]:
            out |= target_attr_heads(x)
        return out
    return set()


def stmt_exprs(s):
    """expressions evaluated by statement `s` itself (not by nested statements), and its targets."""
    k = s[0]
    if k == "expr":
        return [s[1]], []
    if k == "assign":
        return [s[2]], list(s[1])
    if k == "augAssign":
        return [s[2]], [s[1]]
    if k == "annAssign":
        return [s[2]] + ([s[3]] if s[3] is not None else []), [s[1]]
    if k == "funcDef":
        a = s[2]
        es = list(s[4]) + list(a.get("defaults", [])) + [d for d in a.get("kwdefaults", []) if d is not None]
        es += [p[1] for p in a.get("args", []) + a.get("kwonly", []) if p[1] is not None]
        if s[5] is not None:
            es.append(s[5])
        return es, []
    if k == "classDef":
        return list(s[2]) + list(s[4]), []
    if k == "for":
        return [s[2]], [s[1]]
    if k in ("while", "if"):
        return [s[1]], []
    if k == "with":
        return [e for e, t in s[1]], [t for e, t in s[1] if t is not None]
    if k == "try":
        return [h[0] for h in s[2] if h[0] is not None], []
    if k == "return":
        return [s[1]] if s[1] is not None else [], []
    if k == "raise":
        return [s[1]], []
    if k == "delete":
        return [], list(s[1])
    return [], []


def sub_bodies(s):
    k = s[0]
    if k in ("funcDef", "classDef"):
        return [s[3]]
    if k == "for":
        return [s[3], s[4]]
    if k in ("while", "if"):
        return [s[2], s[3]]
    if k == "with":
        return [s[2]]
    if k == "try":
        return [s[1]] + [h[2] for h in s[2]] + [s[3], s[4]]
    return []


def walk_stmts(body):
    for s in body:
        yield s
        for b in sub_bodies(s):
            yield from walk_stmts(b)


def walk_exprs(e):
    yield e
    for x in sub_exprs(e):
        yield from walk_exprs(x)


# ----------------------------------------------------------------------------
# which of the proposed repairs does the code under test carry?  (probed by behaviour, not by name)
# ----------------------------------------------------------------------------
_FIX_PROBES = {
    "exceptUnbind": ("try:\n    pass\nexcept Exception as zq:\n    pass\nzq\n", "zq"),
    "augLoad": ("zq += 1\n", "zq"),
    "forIterFirst": ("for zq in [zq]:\n    pass\n", "zq"),
    "annValueFirst": ("zq: int = zq\n", "zq"),
    "compScope": ("class C:\n    zq = 1\n    b = [zq for i in [1]]\n", "zq"),
    "paramAnnOuter": ("def f(zq, y: zq):\n    pass\n", "zq"),
    "delDotted": ("import zq.a\ndel zq\nzq.a.b\n", "zq.a.b"),
    "classModuleOnly": ("zq\ndef f():\n    class zq:\n        pass\n", "zq"),
    "returnsOuter": ("def f(zq) -> zq:\n    pass\n", "zq"),
}
# flags that only show in unused-import mode: true iff scan_for_import_issues reports no unused import for the probe
_UNUSED_PROBES = {
    "allUseMark": "from zqa import x as zq\n__all__ = ['zq']\nfrom zqb import x as zq\n",
    "condStore": "import zqa as zq\nif 1:\n    import zqb as zq\nzq\n",
    "deferredNames": "def f():\n    return zq\nimport zqa as zq\nimport zqb as zq\nzq\n",
}
_FIXES_CACHE = {}


def probe_unmodelled():
    """Mechanisms of the code under test that the Lean model of the unused-import mode does not have: none at present
    (the shadowed `_UseChecker` chains of c9ece75/66151d3 are modelled).  Kept as the hook for the next such change:
    while the list is non-empty the harness skips the `unused` correspondence and says so."""
    return []


def probe_fixes():
    """-> {"exceptUnbind": bool, ...}: flag true iff find_missing_imports reports the probe's name."""
    from pyflyby import find_missing_imports
    import pyflyby
    key = pyflyby.__file__
    if key not in _FIXES_CACHE:
        out = {}
        for k, (src, name) in _FIX_PROBES.items():
            try:
                out[k] = name in [str(x) for x in find_missing_imports(src, [{}])]
            except Exception:
                out[k] = False
        for k, src in _UNUSED_PROBES.items():
            try:
                from pyflyby._autoimp import scan_for_import_issues
                from pyflyby._parse import PythonBlock
                _, unused = scan_for_import_issues(PythonBlock(src), find_unused_imports=True, parse_docstrings=False)
                out[k] = len(unused) == 0
            except Exception:
                out[k] = False
        _FIXES_CACHE[key] = out
    return dict(_FIXES_CACHE[key])
