"""C06 — Auto-import adds only needed names and never clobbers."""
from __future__ import annotations

import gen_c06 as G


def fam_d14(case, failure):
    """D14: the head of a missing dotted name is bound in an OUTER given namespace to the very object the import
    yields (the registry module); the code copies that same object into the target namespace."""
    return (failure.get("what") == "added a name that was bound in another given namespace (shadowing)"
            and failure.get("same_object") is True)


class C06(G.AutoImpBase):
    id = "C06"
    driver = "C06"
    lean_modules = ["Pfb.C06.Props"]
    theorems = []
    rule = ("histories from harness/gen_c06.py: synthetic on-disk import universe (packages, submodules, members, raising modules, "
            "modules rebinding attributes / replacing sys.modules entries) x database text (unique/ambiguous/missing/dotted/alias/"
            "forget) x namespace stacks of 1-3 dicts (registry modules, other modules under a package name, non-module objects, "
            "objects equal to everything, None) x 1-4 calls (auto_import / auto_import_symbol / _try_import / new cell) sharing "
            "one `autoimported` map; a case is non-trivial when at least one import statement was really executed")
    trusted_base = ["CPython's import system (importlib) defines what an import statement yields; the Lean universe model is "
                    "validated against it by the correspondence check only",
                    "the list of missing dotted names is an input of the model, taken from the real find_missing_imports (C05)",
                    "ScopeStack normalisation (builtins first, duplicates dropped) is not modelled: the namespaces given are distinct dicts"]
    assumptions = ["namespace dict keys are identifiers (no dotted keys)",
                   "module bodies do not import other universe modules and raise only Exception subclasses"]
    families = {"D14": fam_d14}

    def oracle(self, case, obs):
        return G.oracle_c06(case, obs)


PROP = C06()
