"""C06 — Auto-import adds only needed names and never clobbers."""
from __future__ import annotations

import gen_c06 as G


SHADOW = "added a name that was bound in another given namespace (shadowing)"


def fam_d14(case, failure):
    """D14: the head of a missing dotted name is bound in an OUTER given namespace to the module registered under
    that name (the negated hypothesis of C06_only_needed_unbound_partial); the code copies the object the import
    yields — the very same object — into the target namespace."""
    return (failure.get("what") == SHADOW and failure.get("outer_is_registry_module") is True
            and failure.get("same_object") is True)


def fam_d14b(case, failure):
    """D14b: as D14, but the import REPLACED sys.modules[name] while it ran (a module of the universe assigns
    sys.modules[<that name>]), so the object copied into the target differs from the outer binding."""
    if not (failure.get("what") == SHADOW and failure.get("outer_is_registry_module") is True
            and failure.get("same_object") is False):
        return False
    name = failure.get("name")
    return any(e.get("k") == "sysmod" and e.get("target") == name for m in case["universe"] for e in m["effects"])


class C06(G.AutoImpBase):
    id = "C06"
    driver = "C06"
    lean_modules = ["Pfb.C06.Props"]
    theorems = [
        "Pfb.C06.C06_frame",
        "Pfb.C06.C06_frame_every_attempt",
        "Pfb.C06.C06_only_needed",
        "Pfb.C06.C06_shadow_only_registry",
        "Pfb.C06.C06_only_needed_unbound_partial",
        "Pfb.C06.Witness.D14_witness",
        "Pfb.C06.Witness.C06_only_needed_unbound_everywhere_fails",
        "Pfb.C06.C06_failure_untouched",
        "Pfb.C06.C06_tryImport_refused",
        "Pfb.C06.C06_refused_not_retried",
        "Pfb.C06.C06_refusal_recorded",
        "Pfb.C06.C06_unparsable",
        "Pfb.C06.C06_unparsable_history",
        "Pfb.AutoImp.Reach.invariants",
        "Pfb.AutoImp.reach_run",
        "Pfb.AutoImp.tryImport_spec",
    ]
    rule = ("histories from harness/gen_c06.py: synthetic on-disk import universe (packages, submodules, members, raising modules, "
            "modules rebinding attributes / replacing sys.modules entries) x database text (unique/ambiguous/missing/dotted/alias/"
            "forget) x namespace stacks of 1-3 dicts (registry modules, other modules under a package name, non-module objects, "
            "objects equal to everything, None) x 1-4 calls (auto_import / auto_import_symbol / _try_import / new cell) sharing "
            "one `autoimported` map; a case is non-trivial when at least one import statement was really executed")
    trusted_base = ["CPython's import system (importlib) defines what an import statement yields; the Lean universe model is "
                    "validated against it by the correspondence check only",
                    "the list of missing dotted names is an input of the model, taken from the real find_missing_imports (C05)",
                    "ScopeStack normalisation (builtins first, duplicates dropped) is not modelled: the namespaces given are distinct dicts"]
    assumptions = ["namespace dict keys are identifiers (no dotted keys)",
                   "module bodies do not import other universe modules and raise Exception subclasses or SystemExit (sys.exit())"]
    families = {"D14": fam_d14, "D14b": fam_d14b, "N1": G.fam_n1, "N2": G.fam_n2, "N3": G.fam_n3}

    def oracle(self, case, obs):
        return G.oracle_c06(case, obs)


PROP = C06()
