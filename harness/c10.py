"""C10 — Statement splitting is a lossless, syntax-aligned partition."""
from __future__ import annotations

import ast
import glob
import io
import os
import re
import sys
import sysconfig
import tokenize

from vcommon import Prop, REPO
import gen_source
import gen_c10
import rewriters as R


def _blank_or_comment_line(l: str) -> bool:
    # independent of pyflyby: a physical line with only whitespace and an optional comment
    s = l.lstrip(" \t\f\v\r")
    return s == "" or s.startswith("#")


def true_pos(text, start, off):
    """(line, col) of character offset `off` of `text` whose first char is at `start`."""
    pre = text[:off]
    nl = pre.count("\n")
    if nl == 0:
        return [start[0], start[1] + len(pre)]
    return [start[0] + nl, 1 + len(pre) - (pre.rfind("\n") + 1)]


class C10(Prop):
    id = "C10"
    driver = "C10"
    lean_modules = ["Pfb.C10.Props", "Pfb.C10.Cols"]
    theorems = [
        "Pfb.C10.C10_col_prefix",
        "Pfb.C10.C10_col_le_length",
        "Pfb.C10.C10_col_mono",
        "Pfb.C10.C10_col_ascii",
        "Pfb.C10.C10_lossless",
        "Pfb.C10.C10_statements_lossless",
        "Pfb.C10.C10_total",
        "Pfb.C10.C10_positions",
        "Pfb.C10.C10_one_node",
        "Pfb.C10.C10_noncode",
        "Pfb.C10.normalize_lossless",
        "Pfb.C10.normalize_node_untouched",
        "Pfb.C10.C10_statements_keep_nodes",
        "Pfb.C10.wellPlacedB_sound",
        "Pfb.slice_joined",
        "Pfb.slice_append",
        "Pfb.Pos.add_true",
    ]
    anchors = [
        ("lib/python/pyflyby/_parse.py", "_split_code_lines"),
        ("lib/python/pyflyby/_parse.py", "_is_comment_or_blank"),
        ("lib/python/pyflyby/_parse.py", "_annotate_ast_startpos"),
        ("lib/python/pyflyby/_parse.py", "_char_col_offset"),
        ("lib/python/pyflyby/_parse.py", "_iter_child_nodes_in_order_internal_1"),
        ("lib/python/pyflyby/_parse.py", "PythonBlock.statements"),
        ("lib/python/pyflyby/_parse.py", "PythonBlock.string_literals"),
        ("lib/python/pyflyby/_file.py", "FileText.__getitem__"),
        ("lib/python/pyflyby/_file.py", "FileText.endpos"),
        ("lib/python/pyflyby/_file.py", "FilePos.__add__"),
    ]
    quick_cases = 3000
    thorough_cases = 60000
    quick_deadline_s = 60
    thorough_deadline_s = 540
    rule = ("texts from harness/gen_source.py (statement grammar x comments/blank runs/form feeds/semicolons/"
            "continuations/decorators/multi-line strings/f-strings/missing final newline/non-ASCII) x start positions, "
            "mixed (harness/gen_c10.py) with type comments, match statements of every pattern kind, statements that begin "
            "with a (multi-line / concatenated / f-) string literal, string-rich expressions and decorated classes; "
            "plus an exhaustive small scope of line templates and (thorough) stdlib/site-packages files; "
            "plus direct FileText slices (FilePos / tuple / int / open start / single line) at valid and invalid "
            "positions; a case is non-trivial when the text has >= 2 pieces (a slice: a proper, successful slice); "
            "distinct by text+start(+positions)")
    trusted_base = ["CPython's parser (`ast`, `tokenize`) defines statement starts, 'parses to the same tree' and literal positions",
                    "modelled, not verified: _annotate_ast_startpos (its output, the node start positions, is an input of the model; "
                    "the oracle recomputes the positions from stdlib ast independently)"]
    assumptions = ["texts are compilable and not uniformly indented (PythonBlock dedents before parsing)",
                   "the `hasattr(node,'endpos')` branch of _split_code_lines is dead on this tree",
                   "CPython 3.12: the `sys.version_info < (3,12)` branches and the `col_offset == -1` tail of "
                   "_annotate_ast_startpos are not executed"]

    TEMPLATES = ["x = 1", "import os", "# c", "", "   ", "x = '''a\n# n\n'''", "y = (1 +\n 2)", "z = 1 + \\\n 2",
                 "def f():\n    pass", "@d\ndef g():\n    pass\n    # tail", "if x:\n    pass\n# after", "# bs \\"]

    # second scope: the constructs of harness/gen_c10.py (type comments, match, statements beginning with a string)
    TEMPLATES2 = ["def f(a):\n    # type: (int) -> str\n    pass", "for i in x:  # type: int\n    pass", "x = []  # type: list",
                  "# type: ignore", "match x:\n    case {'a': p, 'b': q}:\n        pass\n    case [u, *v] as w:\n        pass",
                  "match x:\n    case 'a' 'b' | None:\n        pass\n    # mid\n    case _:\n        pass\n    # tail",
                  "'''a\nb''' + x", "'a' 'b'", "('a'\n 'b').join(x)", "f'{x}' 'lit'", "f'''m\n{x}\n''' % y", "'''a\n#''' '''#\nb'''",
                  "'a' \\\n 'b'", "@dec('s')\nclass C(B, k='v'):\n    'doc'", "match = 1", "x = 1"]

    def exhaustive_cases(self, tier, rng):
        out = []
        seps = ["\n", "; ", "\n\n", "\n# k\n", "  # t\n"]
        import itertools
        combos = []
        for n in (1, 2, 3):
            for items in itertools.product(range(len(self.TEMPLATES)), repeat=n):
                combos.append((self.TEMPLATES, items))
        combos2 = []
        for n in (1, 2):
            for items in itertools.product(range(len(self.TEMPLATES2)), repeat=n):
                combos2.append((self.TEMPLATES2, items))
        if tier != "thorough":
            combos = rng.sample(combos, 250) + rng.sample(combos2, 120)
        else:
            combos = combos + combos2
        for T, items in combos:
            seplist = [rng.choice(seps) for _ in items] if tier != "thorough" else None
            variants = [seplist] if seplist else [[s] * len(items) for s in seps]
            for sl in variants:
                for fn in (True, False):
                    text = ""
                    for it, sp in zip(items, sl):
                        text += T[it] + sp
                    if not fn:
                        text = text.rstrip("\n")
                    elif not text.endswith("\n"):
                        text += "\n"
                    try:
                        compile(text + "\n", "<t>", "exec", dont_inherit=True)
                    except SyntaxError:
                        continue
                    if text.strip():
                        out.append(dict(text=text, start=[1, 1]))
        if tier == "thorough":
            out.extend(self._file_corpus(4000))
        else:
            out.extend(self._file_corpus(25, rng))
        return out

    def _file_corpus(self, limit, rng=None):
        std = sysconfig.get_paths()["stdlib"]
        files = sorted(glob.glob(os.path.join(std, "*.py")) + glob.glob(os.path.join(std, "*", "*.py")))
        files = [f for f in files if "/test/" not in f and "lib2to3/tests" not in f and "site-packages" not in f]
        sp = sysconfig.get_paths()["purelib"]
        files += sorted(glob.glob(os.path.join(sp, "*", "*.py")))[:1500]
        if rng is not None:
            files = rng.sample(files, min(limit, len(files)))
        out = []
        for f in files[:limit]:
            try:
                text = open(f, encoding="utf-8").read()
                if len(text) > 200000 or not text.strip():
                    continue
                compile(text, f, "exec", dont_inherit=True)
            except Exception:
                continue
            out.append(dict(text=text, start=[1, 1], file=f))
        return out

    def gen_case(self, rng, i, tier):
        k = rng.random()
        if k < 0.08:
            return gen_c10.gen_slice_case(rng)
        if k < 0.40:
            text, info = gen_c10.gen_module(rng, max_items=rng.choice([1, 3, 5]))
        else:
            text, info = gen_source.gen_module(rng, max_items=rng.choice([2, 4, 7]))
        r = rng.random()
        if r < 0.7:
            start = [1, 1]
        elif r < 0.85:
            start = [rng.randint(2, 40), 1]
        else:
            start = [rng.randint(1, 40), rng.randint(2, 30)]
        c = dict(text=text, start=start)
        if start != [1, 1] and rng.random() < 0.4:
            c["via_filetext"] = True
        return c

    # unrelated texts parsed between the split of a case's text and the look at its pieces (see run_impl)
    INTERLEAVED = ["y = 1\n# type: only a remark about y\nz = 2\n", "print(1)  # type: int\n", "    x = 1\n    y = 2\n",
                   "x = = 1\n", "def f(a):\n    # type: (int) -> str\n    return 'é'  # type: ignore\n"]

    # -- implementation ------------------------------------------------------
    def run_impl(self, case):
        from pyflyby._parse import PythonBlock
        from pyflyby._file import FilePos
        if case.get("kind") == "slice":
            return self._run_slice(case)
        text, start = case["text"], case["start"]
        obs = {}
        try:
            if case.get("via_filetext"):
                # the same FileText object is split once at (1,1) (which caches its derived positions) and is then
                # given the case's start position: nothing cached for the first may leak into the second
                from pyflyby._file import FileText
                ft = FileText(text)
                ft.endpos
                try:
                    PythonBlock(ft).statements
                except Exception:
                    pass
                blk = PythonBlock(FileText(ft, startpos=FilePos(start[0], start[1])))
            else:
                blk = PythonBlock(text, startpos=FilePos(start[0], start[1]))
            blk.ast_node            # parse now ...
            # ... then parse and split the same text at another start position (as get_doctests does for a
            # repeated example): the first block's answers must not depend on it
            other = PythonBlock(text, startpos=FilePos(start[0] + 7, 1 if start[1] > 1 else 5))
            try:
                other.statements
                list(other.string_literals())
            except Exception:
                pass
            sts = blk.statements
            # was the whole text parsed with type comments?  (pyflyby tries that when the text holds a '# type:' and falls
            # back to a parse without them when one sits where it is only an ordinary comment)
            tc = bool(int(blk.flags) & ast.PyCF_TYPE_COMMENTS)
            obs["pieces"] = [dict(text=s.text.joined, start=[s.startpos.lineno, s.startpos.colno],
                                  node=(s.ast_node is not None),
                                  dump=(ast.dump(s.ast_node) if s.ast_node is not None else None))
                             for s in sts]
            # "each piece parses on its own to the same tree": pyflyby's own parse of the piece alone against the
            # statement's node in the parse of the whole text (type comments aside: whether they are parsed depends
            # on the rest of the text)
            def _dump(n, tc=False):
                # (no deepcopy: pyflyby's annotated nodes carry FilePos objects, whose (1,1) instance is shared)
                if isinstance(n, ast.AST):
                    return "%s(%s)" % (type(n).__name__, ", ".join(
                        "%s=%s" % (f, _dump(getattr(n, f, None), tc)) for f in n._fields if tc or f != "type_comment"))
                if isinstance(n, list):
                    return "[%s]" % ", ".join(_dump(x, tc) for x in n)
                return repr(n)
            first = [_dump(n, True) for n in blk.ast_node.body]
            # Between splitting the text and looking at its pieces the process parses unrelated texts that take the
            # parser's fallback / error paths (a '# type:' remark that is an ordinary comment, an indented snippet, a
            # syntax error, ...), as any long-running use does (many files, IPython cells): the answers for THIS text
            # must not depend on what else was parsed.
            for _t in self.INTERLEAVED:
                try:
                    PythonBlock(_t).statements
                except Exception:
                    pass
            again = [_dump(n, True) for n in PythonBlock(text, startpos=FilePos(start[0], start[1])).ast_node.body]
            if again != first:
                k = next((i for i, (x, y) in enumerate(zip(first, again)) if x != y), min(len(first), len(again)))
                obs["repeat_mismatch"] = dict(index=k, first=first[k][:300] if k < len(first) else None,
                                              again=again[k][:300] if k < len(again) else None)
            # When the whole text was parsed with type comments, every piece holds only type comments that are legal
            # where they stand, so its own parse has them too and the trees are compared with their type_comment
            # fields; otherwise those fields are left out (the whole text's parse has none, a piece's may).
            for i, s in enumerate(sts):
                if s.ast_node is None:
                    continue
                try:
                    alone = PythonBlock(s.text.joined, flags=s.flags).ast_node.body
                    if len(alone) != 1 or _dump(alone[0], tc) != _dump(s.ast_node, tc):
                        obs["alone_mismatch"] = dict(index=i, piece=s.text.joined[:200], type_comments=tc,
                                                     alone=[_dump(a, tc)[:300] for a in alone], whole=_dump(s.ast_node, tc)[:300])
                        break
                except Exception as e:
                    obs["alone_mismatch"] = dict(index=i, piece=s.text.joined[:200], err=type(e).__name__ + ": " + str(e)[:120])
                    break
        except Exception as e:
            obs["err"] = type(e).__name__
            obs["errmsg"] = str(e)[:200]
        # byte-offset -> character-column conversion (the glue between `ast` columns and FilePos columns), on the
        # first non-ASCII lines of the text, at every byte offset
        try:
            from pyflyby._parse import _char_col_offset
            from pyflyby._file import FileText
            import types
            cc = []
            ft = FileText(text)
            for ln, line in enumerate(ft.lines, 1):
                if not line.isascii() and len(line) <= 400:
                    nb = len(line.encode("utf-8"))
                    offs = list(range(nb + 1))
                    cc.append(dict(line=line, offsets=offs,
                                   got=[_char_col_offset(ft, types.SimpleNamespace(col_offset=b, lineno=ln)) for b in offs]))
                    if len(cc) >= 2:
                        break
            if cc:
                obs["charcol"] = cc
        except Exception as e:
            obs["charcol_err"] = type(e).__name__ + ": " + str(e)[:150]
        try:
            blk2 = PythonBlock(text, startpos=FilePos(start[0], start[1]))
            blk2.ast_node
            list(PythonBlock(text, startpos=FilePos(start[0] + 3, 1)).string_literals())
            obs["strings"] = [[n.startpos.lineno, n.startpos.colno] for n in blk2.string_literals()]
        except Exception as e:
            obs["strings_err"] = type(e).__name__ + ": " + str(e)[:150]
        return obs

    # -- direct FileText slicing ----------------------------------------------
    @staticmethod
    def _run_slice(case):
        from pyflyby._file import FilePos, FileText
        text, start, form, a, b = case["text"], case["start"], case["form"], case["a"], case["b"]
        try:
            ft = FileText(text, startpos=FilePos(start[0], start[1]))
            if form == "pos":
                r = ft[FilePos(a[0], a[1]):FilePos(b[0], b[1])]
            elif form == "tuple":
                r = ft[(a[0], a[1]):(b[0], b[1])]
            elif form == "int":
                r = ft[a[0]:b[0]]
            elif form == "open":
                r = ft[:FilePos(b[0], b[1])]
            elif form == "openint":
                r = ft[:b[0]]
            elif form == "line":
                r = ft[a[0]]
                return dict(line=r) if isinstance(r, str) else dict(slice_err="not a str: " + type(r).__name__)
            else:
                raise KeyError(form)
            if not isinstance(r, FileText):
                return dict(slice_err="not a FileText: " + type(r).__name__)
            return dict(slice=dict(text=r.joined, start=[r.startpos.lineno, r.startpos.colno], lines=list(r.lines),
                                   end=[r.endpos.lineno, r.endpos.colno], same=(r is ft)))
        except Exception as e:
            return dict(slice_err=type(e).__name__)

    @staticmethod
    def _slice_bounds(case):
        """The two (line, col) bounds that the slice expression denotes.  An int bound n is column index 0 of line n,
        i.e. the first character of that line: (n, 1), or (n, start column) on the text's first line; an omitted start
        is the text's start position.  (`text[a:]`, an omitted stop, is not generated: on this tree it raises
        AssertionError for every text — stop_lineindex = len(lines) fails the range assert — and nothing in pyflyby
        uses it.)"""
        start, form, a, b = case["start"], case["form"], list(case["a"]), list(case["b"])
        col0 = lambda ln: start[1] if ln == start[0] else 1
        if form in ("int", "line"):
            a = [a[0], col0(a[0])]
        if form in ("int", "openint"):
            b = [b[0], col0(b[0])]
        if form in ("open", "openint"):
            a = list(start)
        return a, b

    @staticmethod
    def _offset(text, start, pos):
        """character offset of an existing position of the text, else None (independent of pyflyby: str.split)"""
        lines = text.split("\n")
        i = pos[0] - start[0]
        if not 0 <= i < len(lines):
            return None
        c = pos[1] - (start[1] if i == 0 else 1)
        if not 0 <= c <= len(lines[i]):
            return None
        return sum(len(l) + 1 for l in lines[:i]) + c

    def _oracle_slice(self, case, obs):
        text, start = case["text"], case["start"]
        if case["form"] == "line":
            i = case["a"][0] - start[0]
            lines = text.split("\n")
            if 0 <= i < len(lines) and obs.get("line") != lines[i]:
                return [dict(what="FileText[lineno] is not that line", got=obs.get("line", obs.get("slice_err")), want=lines[i],
                             text=text[:300], start=start, lineno=case["a"][0])]
            return []
        a, b = self._slice_bounds(case)
        oa, ob = self._offset(text, start, a), self._offset(text, start, b)
        if oa is None or ob is None or oa > ob:
            return []           # not a range of the text: what happens then is the model's business (K), not the property's
        if "slice_err" in obs:
            return [dict(what="slicing a FileText between two of its positions raised", err=obs["slice_err"], a=a, b=b,
                         form=case["form"], text=text[:300], start=start)]
        r = obs["slice"]
        fails = []
        if r["text"] != text[oa:ob]:
            fails.append(dict(what="FileText slice does not hold the characters between its bounds", got=r["text"][:120],
                              want=text[oa:ob][:120], a=a, b=b, form=case["form"], text=text[:300], start=start))
        if r["start"] != a:
            fails.append(dict(what="FileText slice reports a start position other than its first character's", got=r["start"],
                              want=a, b=b, form=case["form"], text=text[:300], start=start))
        if r["end"] != b or "\n".join(r["lines"]) != r["text"]:
            fails.append(dict(what="FileText slice: end position / line tuple inconsistent with its text", got=r["end"], want=b,
                              a=a, form=case["form"], text=text[:300], start=start))
        return fails

    # -- independent facts about the input -----------------------------------
    def _starts(self, case):
        text, start = case["text"], case["start"]
        rel, tree = gen_source.toplevel_starts(text)
        out = []
        for ln, cc in rel:
            if ln == 1:
                out.append([start[0], start[1] + cc])
            else:
                out.append([start[0] + ln - 1, 1 + cc])
        return out, tree

    def _string_starts(self, case):
        """start positions of string literal *nodes* as CPython's tokenizer sees them:
        the first STRING / FSTRING_START token of each maximal run of adjacent string tokens
        corresponds to one ast Constant/JoinedStr node."""
        text, start = case["text"], case["start"]
        src = text if text.endswith("\n") else text + "\n"
        toks = list(tokenize.generate_tokens(io.StringIO(src).readline))
        return toks

    # -- oracle --------------------------------------------------------------
    def oracle(self, case, obs):
        if case.get("kind") == "slice":
            return self._oracle_slice(case, obs)
        fails = []
        text, start = case["text"], case["start"]
        if "err" in obs:
            return [dict(what="statements raised", err=obs["err"], msg=obs.get("errmsg"), text=text[:300], start=start)]
        pieces = obs["pieces"]
        cat = "".join(p["text"] for p in pieces)
        if cat != text:
            fails.append(dict(what="concatenation of pieces differs from input", text=text[:300], start=start))
            return fails
        try:
            starts, tree = self._starts(case)
        except Exception as e:
            return [dict(what="harness: cannot compute starts", err=str(e))]
        if "alone_mismatch" in obs:
            fails.append(dict(what="a piece parsed on its own differs from its statement in the whole text",
                              text=text[:300], start=start, **obs["alone_mismatch"]))
        if "repeat_mismatch" in obs:
            fails.append(dict(what="a second parse of the same text (after unrelated texts were parsed) gives a different tree",
                              text=text[:300], start=start, **obs["repeat_mismatch"]))
        body = tree.body
        node_pieces = [p for p in pieces if p["node"]]
        if len(node_pieces) != len(body):
            fails.append(dict(what="number of statement pieces != number of top-level statements",
                              got=len(node_pieces), want=len(body), text=text[:300], start=start))
            return fails
        off = 0
        k = 0
        for p in pieces:
            tp = true_pos(text, start, off)
            if p["node"]:
                # true position of first character
                if p["start"] != tp:
                    fails.append(dict(what="piece reports wrong start position", got=p["start"], want=tp,
                                      piece=p["text"][:80], text=text[:300], start=start))
                if tp != starts[k]:
                    fails.append(dict(what="statement piece does not begin at its statement", got=tp, want=starts[k],
                                      piece=p["text"][:80], text=text[:300], start=start))
                # parses on its own to the same tree
                try:
                    import textwrap
                    sub = ast.parse(p["text"] if p["text"].endswith("\n") else p["text"] + "\n")
                    ok = len(sub.body) == 1 and ast.dump(sub.body[0]) == ast.dump(body[k])
                except SyntaxError:
                    ok = False
                if not ok:
                    fails.append(dict(what="piece does not parse to the same tree as its statement",
                                      piece=p["text"][:120], text=text[:300], start=start))
                k += 1
            else:
                if not all(_blank_or_comment_line(l) for l in p["text"].split("\n")):
                    fails.append(dict(what="non-statement piece holds something other than comments/blank lines",
                                      piece=p["text"][:120], text=text[:300], start=start))
            off += len(p["text"])
        # string literal positions
        if "strings_err" in obs:
            fails.append(dict(what="string_literals raised", err=obs["strings_err"], text=text[:300]))
        else:
            want, must = self._literal_positions(case, tree)
            got = list(map(tuple, obs["strings"]))
            import collections
            cw = collections.Counter(map(tuple, want))
            cg = collections.Counter(got)
            if (cg - cw):  # every *reported* literal sits at a true first character (completeness is not claimed)
                fails.append(dict(what="string literal positions differ from true first characters",
                                  got=obs["strings"][:12], want=want[:12], text=text[:300], start=start))
        return fails[:4]

    def _literal_positions(self, case, tree):
        text, start = case["text"], case["start"]
        src = text if text.endswith("\n") else text + "\n"
        lines = src.split("\n")
        out, must = [], []
        # Every str/bytes Constant node in the tree (pyflyby yields those, f-string fragments included).
        # True first character = node.(lineno, col_offset) as characters.  `must`: plain literals (not inside
        # an f-string) — these must all be reported; fragments inside format specs need not be.
        inside = set()
        for n in ast.walk(tree):
            if isinstance(n, ast.JoinedStr):
                for m in ast.walk(n):
                    if m is not n:
                        inside.add(id(m))
        for n in ast.walk(tree):
            if isinstance(n, ast.Constant) and isinstance(n.value, (str, bytes)):
                ln, cc = n.lineno, gen_source.char_col(lines[n.lineno - 1], n.col_offset)
                pos = [start[0], start[1] + cc] if ln == 1 else [start[0] + ln - 1, 1 + cc]
                out.append(pos)
                if id(n) not in inside:
                    must.append(pos)
        return out, must

    # -- model ---------------------------------------------------------------
    def model_requests(self, case, obs):
        if case.get("kind") == "slice":
            if case["form"] == "line":
                return []       # O-only: a single line is not a slice of the model (FText.slice); judged by _oracle_slice
            a, b = self._slice_bounds(case)
            return [dict(op="slice", text=case["text"], start=case["start"], a=a, b=b)]
        if len(case["text"]) > 20000 or R.layout_family(case["text"]):
            return []        # (listed findings D59/D60: the implementation's line structure is wrong on these layouts)
        try:
            starts, tree = self._starts(case)
        except Exception:
            return []
        ends = [case["start"][0] + n.end_lineno - 1 for n in tree.body]
        reqs = [dict(op="statements", text=case["text"], start=case["start"], starts=starts, ends=ends)]
        for c in obs.get("charcol", []):
            reqs.append(dict(op="charcol", line=c["line"], offsets=c["offsets"]))
        return reqs

    def compare(self, case, obs, resps):
        if case.get("kind") == "slice":
            r = resps[0]
            if "slice_err" in obs:
                return None if r.get("err") == obs["slice_err"] else f"slice: impl raised {obs['slice_err']}, model {r}"
            if "err" in r:
                return f"slice: model error {r['err']}, impl returned {obs['slice']['text'][:60]!r}"
            if (r.get("ok"), r.get("start")) != (obs["slice"]["text"], obs["slice"]["start"]):
                return f"slice: impl=({obs['slice']['text'][:60]!r}, {obs['slice']['start']}) model=({r.get('ok', '')[:60]!r}, {r.get('start')})"
            return None
        if "charcol_err" in obs:
            return "column conversion raised: " + obs["charcol_err"]
        for c, rr in zip(obs.get("charcol", []), resps[1:]):
            if rr.get("ok") != c["got"]:
                bad = [(b, g, w) for b, g, w in zip(c["offsets"], c["got"], rr.get("ok", [])) if g != w][:3]
                return f"byte->char column: line={c['line']!r} (byte offset, impl, model)={bad}"
            if rr.get("len") != len(c["line"].encode("utf-8")):
                return f"utf-8 length of {c['line']!r}: model {rr.get('len')}"
        r = resps[0]
        if not r.get("wp") and "err" not in obs:
            return "hypothesis WellPlaced of the C10 theorems does not hold for this input (positions from stdlib ast)"
        if "err" in obs:
            if "err" in r:
                return None
            return f"impl raised {obs['err']}, model returned pieces"
        if "err" in r:
            return f"model error {r['err']}, impl returned pieces"
        got = [(p["text"], tuple(p["start"]), p["node"]) for p in obs["pieces"]]
        want = [(p["text"], tuple(p["start"]), p["node"] is not None) for p in r["ok"]]
        if got != want:
            for i, (g, w) in enumerate(zip(got, want)):
                if g != w:
                    return f"piece {i}: impl={g!r} model={w!r}"
            return f"piece count impl={len(got)} model={len(want)}"
        return None

    def nontrivial_key(self, case, obs):
        if case.get("kind") == "slice":
            if ("slice" in obs and not obs["slice"]["same"]) or "line" in obs:
                return (case["text"], tuple(case["start"]), case["form"], tuple(case["a"]), tuple(case["b"]))
            return None
        if "pieces" in obs and len(obs["pieces"]) >= 2:
            return (case["text"], tuple(case["start"]))
        return None

    def sample_repr(self, case, obs):
        if case.get("kind") == "slice":
            return dict(text=case["text"][:200], start=case["start"], form=case["form"], a=case["a"], b=case["b"],
                        result={k: v for k, v in obs.items()})
        return dict(text=case["text"][:200], start=case["start"],
                    pieces=[[p["text"][:40], p["start"], p["node"]] for p in obs.get("pieces", [])][:8])

    def stats(self, case, obs, acc):
        acc["cases_from_" + case.get("_src", "?")] = acc.get("cases_from_" + case.get("_src", "?"), 0) + 1
        t = case["text"]
        if case.get("kind") == "slice":
            k = "slice_" + case["form"] + ("_err" if "slice_err" in obs else "")
            acc[k] = acc.get(k, 0) + 1
            return
        for k, cond in (("type_comment", re.search(r"#\s*type:", t) is not None), ("match_stmt", re.search(r"(^|\n)match .*:", t) is not None),
                        ("string_first", re.search(r"(^|\n)[rbfuRBFU]{0,2}['\"]", t) is not None)):
            if cond:
                acc[k] = acc.get(k, 0) + 1
        for k, cond in (("no_final_newline", not t.endswith("\n")), ("nonascii", any(ord(c) > 127 for c in t)),
                        ("semicolon", ";" in t), ("backslash", "\\\n" in t), ("triple_quote", "'''" in t or '"""' in t),
                        ("decorator", "\n@" in t or t.startswith("@")), ("formfeed", "\f" in t),
                        ("start_not_1_1", case["start"] != [1, 1])):
            if cond:
                acc[k] = acc.get(k, 0) + 1
        n = len(obs.get("pieces", []))
        b = "pieces_%s" % ("1" if n <= 1 else "2-5" if n <= 5 else "6-20" if n <= 20 else ">20")
        acc[b] = acc.get(b, 0) + 1

    # known-finding families
    families = {"lone_cr": R.fam_lone_cr, "backslash_line": R.fam_backslash_line, "deep_nesting": R.fam_deep_nesting}


PROP = C10()
