"""C13 — The interactive hooks are fail-safe."""
from __future__ import annotations

import json
import os
import re

from vcommon import Prop, REPO, load_corpus
import gen_c14
import gen_c13
from gen_c13 import SITE_KIND, is_interrupt

JP_ORDER = [n for n, _ in gen_c14.JOINPOINTS]
MARK = "INJECTED#"


def case_key(case):
    return json.dumps({k: v for k, v in case.items() if not k.startswith("_")}, sort_keys=True)


def _names_of(stmts):
    out = set()
    for s in stmts:
        m = re.match(r"import (\S+) as (\S+)$", s) or re.match(r"from \S+ import (\S+)$", s) or re.match(r"import (\S+)$", s)
        if m:
            out.add(m.groups()[-1].split(".")[0])
    return out


def by_design_local(site, exc):
    """Faults the code handles locally *by its stated design* (anchors: `_try_import` catches the import's own
    exception and caches the failure; `auto_import` treats a SyntaxError of the scan as the user's syntax error)."""
    if site == "import_exec":
        return True
    if exc in ("SyntaxError", "natural:SyntaxError") and site in ("scan", "scan_sym", "scan_scope"):
        return True
    return False


def strip_pf_frames(text):
    """IPython prints one blank-line separated block per traceback frame; drop the blocks of pyflyby's files"""
    blocks = text.split("\n\n")
    return "\n\n".join(b for b in blocks if not (b.lstrip().startswith("File ") and "/pyflyby/_" in b.split("\n", 1)[0]))


def redisplay_failure(r):
    txt = (r.get("stdout") or "") + (r.get("stderr") or "")
    if "has no attribute 'pt_cli'" in txt:
        return "pt_cli"
    if "assert self._pre_log_function is None" in txt:
        return "wedged"
    return None


_LOGERR = re.compile(r"--- Logging error ---\n.*?\nArguments: [^\n]*\n", re.S)


def without_logging_error(r):
    """copy of a cell observation with the blocks logging.Handler.handleError printed removed from stderr"""
    err = r.get("stderr") or ""
    if "self.handleError(record)\nMessage: " not in err:
        return r, False
    r2 = dict(r)
    err = _LOGERR.sub("", err)
    if "self.handleError(record)\nMessage: " in err:       # a block whose first line was cut off by the tail limit
        err = re.sub(r"\A.*?self\.handleError\(record\)\nMessage: [^\n]*\nArguments: [^\n]*\n", "", err, flags=re.S)
    r2["stderr"] = err
    return r2, True


def pyflyby_in_output(r):
    txt = (r.get("stdout") or "") + (r.get("stderr") or "")
    return MARK in txt or "pyflyby/_" in txt


class C13(Prop):
    id = "C13"
    driver = "C13"
    lean_modules = ["Pfb.C13.Props"]
    theorems = [
        "Pfb.C13.C13_no_escape",
        "Pfb.C13.C13_no_escape_run",
        "Pfb.C13.C13_withdraw",
        "Pfb.C13.C13_stays_withdrawn",
        "Pfb.C13.C13_enable_failure_withdraws",
        "Pfb.C13.C13_repaired_all_protected",
        "Pfb.C13.D23_witness_escape",
        "Pfb.C13.redisplay_witness_escape",
    ]
    anchors = [
        ("lib/python/pyflyby/_interactive.py", "AutoImporter._safe_call"),
        ("lib/python/pyflyby/_interactive.py", "AutoImporter.auto_import"),
        ("lib/python/pyflyby/_interactive.py", "AutoImporter.complete_symbol"),
        ("lib/python/pyflyby/_interactive.py", "AutoImporter.disable"),
        ("lib/python/pyflyby/_interactive.py", "AutoImporter.enable"),
        ("lib/python/pyflyby/_interactive.py", "AutoImporter._enable_ofind_hook"),
        ("lib/python/pyflyby/_interactive.py", "AutoImporter._enable_ast_hook"),
        ("lib/python/pyflyby/_interactive.py", "AutoImporter._enable_prun_hook"),
        ("lib/python/pyflyby/_interactive.py", "AutoImporter._enable_completer_hooks"),
        ("lib/python/pyflyby/_interactive.py", "AutoImporter._enable_run_hook"),
        ("lib/python/pyflyby/_interactive.py", "AutoImporter._enable_debugger_hook"),
        ("lib/python/pyflyby/_interactive.py", "InterceptPrintsDuringPromptCtx"),
        ("lib/python/pyflyby/_interactive.py", "complete_symbol"),
        ("lib/python/pyflyby/_autoimp.py", "_try_import"),
        ("lib/python/pyflyby/_autoimp.py", "auto_import"),
        ("lib/python/pyflyby/_log.py", "_PyflybyHandler.HookCtx"),
    ]
    parallel = False
    BATCH = 320
    quick_cases = 600
    thorough_cases = 14000
    quick_deadline_s = 55
    thorough_deadline_s = 780
    rule = ("fault plans on a fresh real IPython 9 shell per plan: 4 cells from a generator of 20 cell kinds (known-name reads, "
            "from-imports, pinfo, %prun, %run, %debug, multi-line defs, syntax errors, user exceptions, global/attribute "
            "completions) x up to 3 faults, each = (site in {db_load, parse, scan, import_exec, complete} x class in "
            "{Exception, ValueError, OSError, SyntaxError, AttributeError, RecursionError} x message shape in {marker, '', no args, "
            "multi-line, blank first line, __str__ raises} x n-th call in 1..3 x once|persistent), %run of scripts whose paths "
            "contain blanks, parentheses, non-ASCII, quotes, '#', '+', '~', "
            "x log level INFO|ERROR x database good|malformed|unreadable; every plan is compared with a pyflyby-free run of the "
            "same cells in which the names pyflyby imported successfully are pre-bound; exhaustive part: every site x class on "
            "a fixed 4-cell script; non-trivial when at least one fault fired or the database is bad.  Round 4: shells whose user "
            "namespace is not their module's globals (user_module + user_ns), `name?` / `name??` / real autocall triggers, imports "
            "interrupted by KeyboardInterrupt / SystemExit, host code without `__name__`, a third party wrapping "
            "Completer.global_matches on top of pyflyby's advice (O-only)")
    trusted_base = [
        "IPython 9.17 internals (run_cell, the completer's matcher loop which swallows and prints matcher exceptions, "
        "transform_ast) — observed, not modelled",
        "fault injection replaces ImportDB.get_default, _parse._parse_ast_nodes, _autoimp.find_missing_imports, the `exec` "
        "used by _try_import and _interactive.complete_symbol; faults elsewhere in pyflyby are not exercised",
        "the hook that was running when a fault fired is read off the Python stack",
    ]
    assumptions = [
        "BaseException (SystemExit, KeyboardInterrupt) is not caught by _safe_call — by design, outside the property",
        "debug mode (PYFLYBY_LOG_LEVEL=DEBUG) re-raises by design, outside the property",
        "an import statement that itself raises is reported per import and cached (_try_import); a SyntaxError raised while "
        "parsing/scanning code is treated as the user's syntax error: neither is an 'internal error' that must withdraw the hooks",
        "pdb-prompt hooks (_getval/default inside an interactive debugger session) are not exercised (no terminal)",
    ]

    def __init__(self):
        self.lab = None
        self._planned = []
        self._cache = {}
        self._variant = None

    def setup(self, tier, rng):
        self.lab = gen_c14.Lab(REPO)
        self._planned = []
        self._cache = {}
        self._variant = None

    def teardown(self):
        if self.lab is not None:
            self.lab.close()
            self.lab = None

    # -- cases ---------------------------------------------------------------------
    def _mods(self):
        return "@MODS@"          # replaced by the lab's module directory when the job is built

    def _plan(self, case):
        self._planned.append(case)
        return case

    FIXED_SCRIPT = ["known", "complete_global", "pinfo", "known"]

    def exhaustive_cases(self, tier, rng):
        out = []
        scripts = [self.FIXED_SCRIPT]
        if tier == "thorough":
            scripts += [["complete_attr", "run", "known", "debug"], ["prun", "multi", "complete_attr_bound", "two_known"],
                        ["known_fn", "bad", "complete_global", "run_plain"]]
        for sc in scripts:
            cells = [gen_c13.make_cell(k, 3 + i, 3 + i, self._mods()) for i, k in enumerate(sc)]
            for site in gen_c13.SITES:
                for exc in gen_c13.EXC:
                    for nth in ((1, 2) if tier == "thorough" else (1,)):
                        for persist in ((False, True) if tier == "thorough" else (True,)):
                            out.append(dict(config="terminal", loglevel="ERROR", db="good", cells=cells,
                                            faults=[dict(site=site, exc=exc, nth=nth, persist=persist)]))
        # every message shape of the injected exception at every site (empty, no args, multi-line, blank first line,
        # __str__ that raises)
        cells = [gen_c13.make_cell(k, 7 + i, 7 + i, self._mods()) for i, k in enumerate(self.FIXED_SCRIPT)]
        for site in gen_c13.SITES:
            for msg in gen_c13.MSGS[1:]:
                for exc in (("ValueError", "KeyError") if tier == "thorough" else ("ValueError",)):
                    out.append(dict(config="terminal", loglevel="ERROR", db="good", cells=cells,
                                    faults=[dict(site=site, exc=exc, nth=1, persist=True, msg=msg)]))
        # round 3: the log level is part of the session state and changes during it; the clauses hold under the level in force
        mk = lambda kind, k: gen_c13.make_cell(kind, k % gen_c14.N_MODS, k, self._mods())
        for hookcell in ("pinfo", "complete_global", "prun", "debug", "known", "run"):
            for sched in (("DEBUG", ["level_INFO"]), ("DEBUG", ["level_ERROR"]), ("INFO", ["level_DEBUG", "level_INFO"]),
                          ("ERROR", ["level_DEBUG", "level_WARNING"])):
                lv0, changes = sched
                cells = [mk("known", 1)] + [mk(changes[0], 0)] + ([mk("plain", 2), mk(changes[1], 0)] if len(changes) > 1 else []) \
                    + [mk(hookcell, 3), mk("plain", 4), mk("known", 5)]
                for site in ("db_load", "scan"):
                    out.append(dict(config="terminal", loglevel=lv0, db="good", cells=cells,
                                    faults=[dict(site=site, exc="ValueError", nth=2 if site == "db_load" else (3 + len(changes)), persist=True)]))
        # round 3: a third party registers hooks AFTER enable and BEFORE the fault; they must survive the withdrawal
        for f in ("f_add_ast", "f_add_cleanup", "f_set_hook", "f_rebind_ast"):
            for hookcell in ("known", "pinfo", "complete_global", "probe_known"):
                cells = [mk(f, 0), mk("probe", 1), mk(hookcell, 2), mk("probe", 3), mk("probe_known", 4)]
                out.append(dict(config="terminal", loglevel="ERROR", db="good", cells=cells, faults=[]))
                for site, nth in (("db_load", 1), ("scan", 2), ("sym", 3)):
                    out.append(dict(config="terminal", loglevel="ERROR", db="good", cells=cells,
                                    faults=[dict(site=site, exc="OSError", nth=nth, persist=True)]))
            out.append(dict(config="terminal", loglevel="ERROR", db="malformed",
                            cells=[mk(f, 0), mk("probe", 1), mk("known", 2), mk("probe", 3)], faults=[]))
        # round 2: faults INSIDE the analysis while the cell's binding targets are attributes / subscripts / names
        ntc = len(gen_c13.TARGET_CELLS)
        tsel = range(ntc) if tier == "thorough" else range(0, ntc, 1)
        for t in tsel:
            tc = [gen_c13.make_cell("target", 3, t, self._mods()), gen_c13.make_cell("plain", 1, 1, self._mods())]
            out.append(dict(config="terminal", loglevel="ERROR", db="good", cells=tc, faults=[]))
            for site, nths in (("sym", (1, 2, 3, 5) if tier == "thorough" else (1, 2)), ("scope", (1,)), ("db_lookup", (1,)),
                               ("scan", (1,))):
                for nth in nths:
                    out.append(dict(config="terminal", loglevel="ERROR", db="good", cells=tc,
                                    faults=[dict(site=site, exc="ValueError", nth=nth, persist=False)]))
        # round 2: the module enumeration of the first global-name completion is hit (Exception / Ctrl-C), then a
        # module that lives in the working directory is imported
        seq = [gen_c13.make_cell("complete_global", 1, 1, self._mods()), gen_c13.make_cell("import_local", 1, 1, self._mods()),
               gen_c13.make_cell("complete_global", 2, 2, self._mods()), gen_c13.make_cell("known", 2, 2, self._mods())]
        for exc in ("Exception", "KeyboardInterrupt", "OSError"):
            for persist in (False, True):
                out.append(dict(config="terminal", loglevel="ERROR", db="good", cells=seq,
                                faults=[dict(site="modlist", exc=exc, nth=1, persist=persist)]))
        out.append(dict(config="terminal", loglevel="ERROR", db="good", cells=seq, faults=[]))
        # %run of scripts under unusual paths, healthy importer and one fault
        n = len(gen_c14.ODD_PATHS)
        for lo in range(0, n, 3):
            odd = [gen_c13.make_cell("run_odd", j, j, self._mods()) for j in range(lo, min(n, lo + 3))]
            odd.append(gen_c13.make_cell("run_odd_needs", lo, lo, self._mods()))
            out.append(dict(config="terminal", loglevel="ERROR", db="good", cells=odd, faults=[]))
            out.append(dict(config="terminal", loglevel="INFO", db="good", cells=odd,
                            faults=[dict(site="parse", exc="OSError", nth=2, persist=False)]))
        # round 4: every trigger of an auto-import (cell, `name?`, `name??`, autocall, %prun, %run, completion) on a shell
        # built with a module AND a separate local namespace: which namespace receives the binding is observed
        for sc in (["pinfo", "known", "pinfo_fn", "autocall_on"], ["pinfo2", "autocall_on", "prun", "known_fn"],
                   ["complete_attr", "run", "multi", "pinfo"], ["assign_use", "target", "two_known", "pinfo_fn"]):
            cells = [mk(kk, 9 + j) for j, kk in enumerate(sc)]
            for config in ("usermod", "terminal"):
                out.append(dict(config=config, loglevel="ERROR", db="good", cells=cells, faults=[]))
                out.append(dict(config=config, loglevel="INFO", db="good", cells=cells,
                                faults=[dict(site="scan", exc="ValueError", nth=3, persist=False)]))
        # round 4: the auto-import is interrupted (KeyboardInterrupt / SystemExit raised by the imported module, or arriving
        # at the import-execution site), then ordinary cells
        for first in ("known_int", "known_exit"):
            cells = [mk(first, 1), mk("known", 2), mk("pinfo", 3), mk("complete_global", 4), mk(first, 5), mk("known_fn", 6)]
            out.append(dict(config="terminal", loglevel="ERROR", db="good", cells=cells, faults=[]))
            out.append(dict(config="terminal", loglevel="ERROR", db="good", cells=cells,
                            faults=[dict(site="db_load", exc="OSError", nth=4, persist=True)]))
        cells = [mk("known", 1), mk("pinfo", 2), mk("plain", 3), mk("autocall_on", 4), mk("known", 5)]
        for exc in gen_c13.BASE_EXC:
            for nth in (1, 2, 3):
                out.append(dict(config="terminal", loglevel="ERROR", db="good", cells=cells,
                                faults=[dict(site="import_exec", exc=exc, nth=nth, persist=False)]))
        # round 4: the shell is driven from host code whose globals have no `__name__`; no fault at all, and one fault
        for sc in (self.FIXED_SCRIPT, ["complete_attr", "run", "prun", "debug"]):
            cells = [mk(kk, 5 + j) for j, kk in enumerate(sc)]
            out.append(dict(config="terminal", host="noname", loglevel="ERROR", db="good", cells=cells, faults=[]))
            out.append(dict(config="terminal", host="noname", loglevel="INFO", db="good", cells=cells,
                            faults=[dict(site="db_load", exc="OSError", nth=2, persist=True)]))
        # round 4: another extension wraps Completer.global_matches on top of pyflyby's advice, then an internal error,
        # then completions (pyflyby's layer cannot be taken out any more: it must fall through to the original)
        for db, faults in (("malformed", []), ("good", [dict(site="db_load", exc="OSError", nth=2, persist=True)]),
                           ("good", [dict(site="complete", exc="ValueError", nth=2, persist=False)]), ("good", [])):
            cells = [mk("complete_global", 1), mk(gen_c14.F_WRAP_GM, 0), mk("complete_global", 2), mk("known", 3),
                     mk("complete_global", 4), mk("complete_attr_bound", 5), mk("complete_global", 6)]
            out.append(dict(config="terminal", loglevel="ERROR", db=db, cells=cells, faults=faults))
        for c in load_corpus(self.id):
            self._plan(c)
        return [self._plan(c) for c in out]

    def gen_case(self, rng, i, tier):
        k0 = rng.randrange(0, 20)
        cells = [gen_c13.gen_cell(rng, k0 + j, self._mods()) for j in range(4)]
        r = rng.random()
        db = "good" if r < 0.86 else ("malformed" if r < 0.93 else "unreadable")
        cells, level0 = gen_c13.add_session_events(rng, cells, self._mods())
        # round 4: 15 % of the plans run on a shell whose user namespace is not its module's globals
        config = "usermod" if rng.random() < 0.15 else "terminal"
        if rng.random() < 0.12:
            # another extension wraps the completer's global_matches on top of pyflyby's advice (O-only, see notes/C13.md)
            cells.insert(rng.randint(0, 2), gen_c13.make_cell(gen_c14.F_WRAP_GM, 0, 0, self._mods()))
            cells.append(gen_c13.make_cell("complete_global", rng.randrange(8), rng.randrange(8), self._mods()))
        if rng.random() < 0.12:
            # the host program that drives the shell runs in a namespace without `__name__`
            return self._plan(dict(config=config, host="noname", loglevel=level0 or rng.choice(["ERROR", "ERROR", "INFO"]), db=db,
                                   cells=cells, faults=gen_c13.gen_faults(rng)))
        return self._plan(dict(config=config, loglevel=level0 or rng.choice(["ERROR", "ERROR", "INFO"]), db=db, cells=cells,
                               faults=gen_c13.gen_faults(rng)))

    # -- implementation ---------------------------------------------------------------
    def _job(self, case, pf, preseed=None):
        mods = self.lab.env["mods"]
        cells = [dict(c, text=c["text"].replace("@MODS@", mods)) for c in case["cells"]]
        j = dict(kind="c13", config=case.get("config", "terminal"), pf=pf, loglevel=case.get("loglevel", "ERROR"),
                 db=case.get("db", "good"), cells=cells, faults=case.get("faults", []))
        if case.get("host"):
            j["host"] = case["host"]
        if preseed is not None:
            j["preseed"] = preseed
        return j

    def _prefetch(self):
        # one batch at a time, in planning order, so that the deadline of the framework can cut the run short
        todo = {}
        while self._planned and len(todo) < self.BATCH:
            c = self._planned.pop(0)
            k = case_key(c)
            if k not in self._cache:
                todo.setdefault(k, c)
        if not todo:
            return
        keys = list(todo)
        pf = self.lab.run_mixed([self._job(todo[k], True) for k in keys])
        refjobs = []
        for k, r in zip(keys, pf):
            pre = [c.get("auto_imported", []) for c in r.get("cells", [])] if "lab_error" not in r else []
            refjobs.append(self._job(todo[k], False, pre))
        # the pyflyby-free run: same shell configuration, pyflyby never enabled
        ref = self.lab.run_mixed(refjobs)
        for k, a, b in zip(keys, pf, ref):
            self._cache[k] = dict(pf=a, ref=b)
        if self._variant is None:
            probe = dict(config="terminal", loglevel="ERROR", db="malformed",
                         cells=[gen_c13.make_cell("debug", 1, 1, "@MODS@"), gen_c13.make_cell("complete_global", 1, 1, "@MODS@")],
                         faults=[dict(site="complete", exc="ValueError", nth=1, persist=False)])
            r = self.lab.run("terminal", [self._job(probe, True)])[0]
            c0, c1 = r["cells"]
            self._variant = dict(debugHookSafe=not pyflyby_in_output(c0) and c0["err"] is None,
                                 redisplayGuard=not pyflyby_in_output(c1))
            r2 = self.lab.run("terminal", [dict(kind="c14", config="terminal", ops=gen_c14.fill_args(["enable", "disable"]))])[0]
            cl = r2["steps"][-1]["mv"]["hl"]["input_transformers_cleanup"]
            self._variant["resetDisabler"] = not any(e[0] == "pf" for e in cl)

    def run_impl(self, case):
        if self.lab is None:
            self.setup("quick", None)
        k = case_key(case)
        if k not in self._cache:
            self._planned.insert(0, case)
            self._prefetch()
        obs = self._cache[k]
        for side in ("pf", "ref"):
            if "lab_error" in obs[side]:
                raise RuntimeError("lab(%s): %s %s" % (side, obs[side]["lab_error"], obs[side].get("tb", "")[-300:]))
        return obs

    # -- oracle ------------------------------------------------------------------------
    def oracle(self, case, obs):
        fails = []
        pf, ref = obs["pf"], obs["ref"]
        cells = case["cells"]

        def F(what, i, **kw):
            c = cells[i] if i is not None else {}
            fails.append(dict(what=what, cell=i, ck=c.get("ck"), text=c.get("text", "")[:80], config=case.get("config"),
                              db=case.get("db"), loglevel=case.get("loglevel"), faults=case.get("faults"), **kw))

        if pf["enable"]["escaped"]:
            F("an exception escaped enable()", None, escaped=pf["enable"]["escaped"])
        withdrawn_at = None
        if pf["enable"]["importer"]["state"] != "ENABLED":
            # the enable itself hit an error (e.g. use_jedi=True): the importer must have withdrawn completely
            withdrawn_at = -1
            self._check_withdrawn(F, None, pf["enable"])
        for i, (a, b) in enumerate(zip(pf["cells"], ref["cells"])):
            a, logerr = without_logging_error(a)
            if logerr:
                F("pyflyby's logger printed a 'Logging error' traceback", i,
                  msgs=sorted({f.get("msg", "marker") for f in case.get("faults", [])}))
            # ---- third-party hook entries: present, untouched and in order, exactly as without pyflyby
            ha, hb = a.get("hlnames"), b.get("hlnames")
            if ha is not None and hb is not None:
                for lname, want in hb.items():
                    got = [n for n in ha.get(lname, []) if n != "PF"]
                    if got != want:
                        F("a third party's hook entries differ from the pyflyby-free run", i, list=lname, got=got[-5:], want=want[-5:],
                          trace=[t for t in a.get("trace", []) if t[2]][:3])
            if a["kind"] in ("level", "foreign"):
                if a["escaped"]:
                    F("a harness step failed", i, escaped=a["escaped"])
                continue
            if a.get("level_before") == "DEBUG":
                # debug mode (PYFLYBY_LOG_LEVEL=DEBUG / set_level("DEBUG")) re-raises and prints tracebacks by design:
                # the fail-safe clauses are evaluated under the level in force at the time; only the state checks apply
                ga, gb = a.get("gstate"), b.get("gstate")
                if ga is not None and gb is not None and ga != gb:
                    F("process-global state differs from the pyflyby-free run", i, keys=sorted(k for k in ga if ga[k] != gb.get(k)))
                if withdrawn_at is None and a["importer"]["state"] == "DISABLED":
                    withdrawn_at = i
                continue
            fired = [t for t in a["trace"] if t[2]]
            interrupted = any(is_interrupt(t[2]) for t in fired)
            # ---- which namespace received bindings: the module globals of a shell with a separate user namespace change
            # exactly as without pyflyby (auto-imports go to the user namespace, never there)
            if (a.get("gns_new"), a.get("gns_gone")) != (b.get("gns_new"), b.get("gns_gone")):
                F("the globals of the shell's module differ from the pyflyby-free run", i, got=a.get("gns_new"), want=b.get("gns_new"),
                  gone=a.get("gns_gone"), auto=a.get("auto_imported"))
            # ---- process-global state (sys.path, cwd, zzq_* modules, builtins, hooks, warning filters ...)
            ga, gb = a.get("gstate"), b.get("gstate")
            if ga is not None and gb is not None and ga != gb:
                keys = sorted(k for k in ga if ga[k] != gb.get(k))
                F("process-global state differs from the pyflyby-free run", i, keys=keys,
                  got={k: _clip(ga[k]) for k in keys[:3]}, want={k: _clip(gb.get(k)) for k in keys[:3]},
                  trace=[t for t in fired][:3])
            if interrupted:
                # KeyboardInterrupt / SystemExit are BaseExceptions: _safe_call lets them through by design; only the
                # state checks apply to the interrupted cell itself
                fired = [t for t in fired if not is_interrupt(t[2])]
                a = dict(a, escaped=None)
                if a["kind"] == "complete":
                    a = dict(a, matches=b["matches"], stdout=b["stdout"], stderr=b["stderr"])
                else:
                    # the cell ends with the interrupt instead of whatever it would have done; names imported before the
                    # interrupt stay (they were successfully auto-imported)
                    auto = _names_of(a.get("auto_imported", []))
                    keep = {k: v for k, v in a["ns_new"].items() if k not in auto}
                    a = dict(a, result=b.get("result"), err=b.get("err"), err_before=b.get("err_before"), stdout=b["stdout"],
                             stderr=b["stderr"], ns_new=dict(b["ns_new"], **{k: v for k, v in a["ns_new"].items() if k in auto}),
                             ns_gone=b["ns_gone"]) if keep == {k: v for k, v in b["ns_new"].items() if k in keep} else a
            internal = [t for t in fired if t[1] is not None and not by_design_local(t[0], t[2])]
            reported = any("Disabling pyflyby auto importer" in l for l in a["pf_log"])
            # hunt 2 (C13-H3): an internal error that needs no injection: pyflyby cannot read a validly encoded script
            if cells[i].get("ck") == "run_enc" and a["importer"]["state"] == "ENABLED" and not fired \
                    and any(("While parsing" in l or "UnicodeDecodeError" in l) for l in a["pf_log"]):
                F("pyflyby reported an internal error for a valid script and did not withdraw", i, pf_log=a["pf_log"][:3])
            relevant = [t for t in fired if not by_design_local(t[0], t[2])]
            # ---- no pyflyby exception reaches the shell
            if a["escaped"]:
                F("an exception propagated out of run_cell/complete", i, escaped=a["escaped"])
            inj_err = [e for e in (a.get("err"), a.get("err_before")) if e and MARK in e[1]]
            if inj_err:
                F("a pyflyby exception is the cell's error", i, err=inj_err[0], trace=relevant[:3])
            elif a["kind"] == "run" and pyflyby_in_output(a) and not pyflyby_in_output(b) and MARK not in a["stdout"] + a["stderr"] \
                    and strip_pf_frames(a["stdout"]) == b["stdout"] and strip_pf_frames(a["stderr"]) == b["stderr"] \
                    and all(a.get(k) == b.get(k) for k in ("result", "err", "err_before")):
                F("the traceback of the user's own exception shows pyflyby's wrapper frames", i, err=a.get("err"))
            elif pyflyby_in_output(a) and not pyflyby_in_output(b):
                F("a pyflyby exception was printed by the shell", i, tail=(a["stderr"] or a["stdout"])[-400:], trace=relevant[:3],
                  pf_log=a["pf_log"][:3], via=redisplay_failure(a))
            # ---- same result / output / namespace as without pyflyby
            elif a["kind"] == "run":
                auto = _names_of(a.get("auto_imported", []))
                diffs = []
                for k in ("result", "err", "err_before", "stdout", "stderr", "ns_gone"):
                    if a.get(k) != b.get(k):
                        diffs.append(k)
                na = {k: v for k, v in a["ns_new"].items() if k not in auto}
                if na != b["ns_new"]:
                    diffs.append("namespace")
                if diffs:
                    F("the cell's outcome differs from the pyflyby-free run", i, fields=diffs,
                      got={k: _clip(a.get(k)) for k in diffs if k != "namespace"},
                      want={k: _clip(b.get(k)) for k in diffs if k != "namespace"},
                      ns_got=na if "namespace" in diffs else None, ns_want=b["ns_new"] if "namespace" in diffs else None,
                      auto=sorted(auto), trace=relevant[:3])
            else:
                before = pf["cells"][i - 1]["importer"] if i else pf["enable"]["importer"]
                healthy = before["state"] == "ENABLED" and not fired
                if healthy:
                    missing = [m for m in b["matches"] if m not in a["matches"]]
                    if missing:
                        F("completion lost candidates plain IPython offers", i, missing=missing[:5], got=a["matches"][:8])
                elif a["matches"] != b["matches"]:
                    F("after an internal error completions differ from the pyflyby-free run", i, got=a["matches"][:8],
                      want=b["matches"][:8], trace=relevant[:3])
                if a["stdout"] != b["stdout"] or (a["stderr"] != b["stderr"]):
                    F("completion printed something plain IPython does not", i, stdout=a["stdout"][-200:], stderr=a["stderr"][-300:])
            # ---- withdrawal
            if withdrawn_at is not None and withdrawn_at < i:
                if a["site_calls"] or a["pf_log"]:
                    ever_debug = case.get("loglevel") == "DEBUG" or any(c.get("kind") == "level" and c.get("text") == "DEBUG" for c in cells[:i])
                    F("pyflyby still works / reports after it withdrew", i, site_calls=a["site_calls"], pf_log=a["pf_log"][:3],
                      withdrawn_at=withdrawn_at, ever_debug=ever_debug, level=a.get("level_before"),
                      wrapped=any(c.get("text") == gen_c14.F_WRAP_GM for c in cells[:i]))
            if internal or reported:
                wrapped_gm = any(c.get("text") == gen_c14.F_WRAP_GM for c in cells[:i])
                if self._check_withdrawn(F, i, a, internal[:2], foreign_on=("global_matches",) if wrapped_gm else ()) \
                        and withdrawn_at is None:
                    withdrawn_at = i
        return fails[:6]

    def _check_withdrawn(self, F, i, a, internal=None, foreign_on=()):
        imp = a["importer"]
        bad = []
        if imp["state"] != "DISABLED":
            bad.append("state=" + imp["state"])
        if imp["ndisablers"]:
            bad.append("disablers=%d" % imp["ndisablers"])
        for name in JP_ORDER:
            if name in foreign_on and a["mv"]["jp"][name] == ["ext"]:
                continue        # the slot holds the third party's wrapper (Aspect.unadvise: "seems modified; not unadvising it")
            if a["mv"]["jp"][name] != "unset":
                bad.append("joinpoint " + name)
        if any(e[0] == "pf" for e in a["mv"]["hl"]["ast_transformers"]):
            bad.append("ast_transformer")
        if bad:
            F("after an internal error the importer did not withdraw", i, left=bad[:6], internal=internal)
        return not bad

    # -- model -------------------------------------------------------------------------
    def _invocations(self, a):
        """hook invocations of one cell, read off the site-call trace: [(hook, 'ok'|kind)]"""
        out = []
        for site, hook, fired in a["trace"]:
            if hook is None:
                continue
            if not out or out[-1][0] != hook:
                out.append([hook, "ok"])
            if fired and out[-1][1] == "ok" and not is_interrupt(fired):
                out[-1][1] = "scanSyntax" if (site in ("scan", "scan_sym", "scan_scope") and fired.endswith("SyntaxError")) \
                    else SITE_KIND[site]
        rd = redisplay_failure(a)
        if rd == "pt_cli" and out and out[-1][0] in ("globalMatches", "attrMatches"):
            if out[-1][1] == "ok":
                out[-1][1] = "redisplay"
            else:       # a locally handled failure was logged, then the redisplay failed
                out.append([out[-1][0], "redisplay"])
        return out

    def _cell_mops(self, pf):
        """model ops of every cell: hook invocations read off the trace; third-party registrations as foreign steps"""
        import c14
        fids = c14.ForeignIds()
        out = []
        for a in pf["cells"]:
            a, _ = without_logging_error(a)
            if a["kind"] == "foreign":
                out.append(fids.map(a["text"]))
            else:
                out.append([["invoke", hook, oc] for hook, oc in self._invocations(a)])
        return out

    def model_requests(self, case, obs):
        pf = obs["pf"]
        fail = 4 if case.get("config", "terminal") == "jedi" else None
        if self._variant is None:
            return []
        if any(c.get("text") == gen_c14.F_WRAP_GM for c in case["cells"]):
            return []          # O-only: the model's joinpoint values have no "foreign wrapper around pyflyby's advice"
        if any(f.get("exc") in gen_c13.BASE_EXC and f.get("site") != "import_exec" for f in case.get("faults", [])):
            return []          # BaseException is outside the model (and the property)
        # (an import interrupted by KeyboardInterrupt / SystemExit: the invocation is sent as `ok` — no internal error,
        # the state trajectory is that of a healthy invocation; the escape comparison is skipped for that cell)
        mops = [["enable", False, fail]]
        marks = []
        for seg in self._cell_mops(pf):
            mops.extend(seg)
            marks.append(len(mops) - 1)
        mcfg = dict(resetDisabler=self._variant["resetDisabler"], debugHookSafe=self._variant["debugHookSafe"],
                    redisplayGuard=self._variant["redisplayGuard"], debug=False)
        return [dict(op="trace", cfg=mcfg, ops=mops, marks=marks)]

    def compare(self, case, obs, resps):
        pf = obs["pf"]
        steps = resps[0]["steps"]
        # position of the last model op of each cell
        pos = 0
        m = steps[0]
        imp = pf["enable"]["importer"]
        if (imp["state"], imp["errored"], imp["ndisablers"]) != (m["state"], m["errored"], m["ndis"]):
            return f"after enable: impl={imp} model={(m['state'], m['errored'], m['ndis'])}"
        cell_mops = self._cell_mops(pf)
        for i, a in enumerate(pf["cells"]):
            a, _ = without_logging_error(a)
            inv = cell_mops[i]
            seg = steps[pos + 1: pos + 1 + len(inv)]
            pos += len(inv)
            m = steps[pos]
            imp = a["importer"]
            got = (imp["state"], imp["errored"], imp["ndisablers"])
            want = (m["state"], m["errored"], m["ndis"])
            if got != want:
                return f"cell {i} {a['text'][:40]!r} invocations={inv}: importer impl={got} model={want}"
            gj = ["adv" if isinstance(a["mv"]["jp"][n], list) and a["mv"]["jp"][n][0] == "adv" else a["mv"]["jp"][n] for n in JP_ORDER]
            wj = [x[2] for x in m["jp"]]
            if gj != wj:
                return f"cell {i}: joinpoints impl={gj} model={wj}"
            ga = [e[0] for e in a["mv"]["hl"]["ast_transformers"]]
            wa = [e[0] for e in m["ast"]]
            if ga != wa:
                return f"cell {i}: ast_transformers impl={ga} model={wa}"
            # escapes: the model says `exception` for some invocation of the cell  <=>  the shell saw a pyflyby exception.
            # (the prompt-redisplay failure is an environment-triggered extra escape; it is compared separately below)
            if a.get("level_before") == "DEBUG" or a["kind"] in ("level", "foreign"):
                continue      # debug mode re-raises by design; the state trajectory above does not depend on it
            if any(is_interrupt(t[2]) for t in a["trace"]):
                continue      # BaseException: outside the model; the state trajectory above is compared
            m_esc = any(s["delivered"] == "exception" for s in seg)
            o_esc = bool(a["escaped"]) or any(e and MARK in e[1] for e in (a.get("err"), a.get("err_before"))) \
                or (MARK in (a["stdout"] + a["stderr"])) or redisplay_failure(a) == "pt_cli" \
                or bool(a.get("err") and a["err"] != obs["ref"]["cells"][i].get("err")
                        and ("While parsing" in a["err"][1] or any(t[2] for t in a["trace"])))
            if redisplay_failure(a) == "wedged":
                continue      # the logger's HookCtx state is not part of the model (see notes/C13.md)
            if m_esc != o_esc:
                return f"cell {i} {a['text'][:40]!r} invocations={inv}: escape impl={o_esc} model={m_esc}"
            # work: pyflyby code ran in this cell  <=>  some invocation of the model did work
            m_work = any(s["work"] for s in seg)
            o_work = bool(a["site_calls"])
            if m_work != o_work:
                return f"cell {i}: pyflyby work impl={o_work} model={m_work}"
        return None

    # -- bookkeeping ----------------------------------------------------------------------
    def nontrivial_key(self, case, obs):
        pf = obs["pf"]
        if any(t[2] for a in pf["cells"] for t in a["trace"]) or case.get("db") != "good" or case.get("config") != "terminal":
            return case_key(case)
        return None

    def sample_repr(self, case, obs):
        return dict(cells=[c["text"][:40] for c in case["cells"]], faults=case.get("faults"), db=case.get("db"),
                    states=[a["importer"]["state"] for a in obs["pf"]["cells"]],
                    fired=[[t for t in a["trace"] if t[2]][:2] for a in obs["pf"]["cells"]])

    def stats(self, case, obs, acc):
        def inc(k, n=1):
            acc[k] = acc.get(k, 0) + n
        inc("cases_from_" + case.get("_src", "?"))
        inc("db_" + case.get("db", "good"))
        inc("loglevel_" + case.get("loglevel", "?"))
        inc("nfaults_%d" % len(case.get("faults", [])))
        for c in case["cells"]:
            inc("cell_" + c.get("ck", "?"))
        for a in obs["pf"]["cells"]:
            for site, hook, fired in a["trace"]:
                if fired:
                    inc("fired_%s_in_%s" % (site, hook))
                    inc("fired_class_" + fired)
        if any(a["importer"]["state"] == "DISABLED" for a in obs["pf"]["cells"]):
            inc("cases_with_withdrawal")

    # -- known-finding families --------------------------------------------------------------
    @staticmethod
    def fam_d23(case, failure):
        """%debug <statement> with a database problem / fault in its own db load or scan"""
        if failure.get("ck") != "debug":
            return False
        w = failure.get("what", "")
        if w in ("a pyflyby exception is the cell's error", "a pyflyby exception was printed by the shell",
                 "the cell's outcome differs from the pyflyby-free run", "after an internal error the importer did not withdraw"):
            tr = failure.get("trace") or failure.get("internal") or []
            if tr:
                return all(t[1] == "runWithDebugger" and t[0] in ("db_load", "db_parse", "scan") for t in tr)
            return failure.get("db") in ("malformed", "unreadable")
        return False

    @staticmethod
    def fam_redisplay(case, failure):
        """completion during which pyflyby logged something: the prompt redisplay needs ip.pt_cli"""
        if failure.get("ck") not in ("complete_global", "complete_attr", "complete_attr_bound"):
            return False
        w = failure.get("what", "")
        if w == "a pyflyby exception was printed by the shell":
            return failure.get("via") in ("pt_cli", "wedged")
        if w == "completion printed something plain IPython does not":
            return "pt_cli" in failure.get("stderr", "") or failure.get("stdout", "") in ("\n", "\n\n")
        return False

    @staticmethod
    def fam_run_parse(case, failure):
        """%run: an internal error while parsing the script for auto-import is logged, not treated as an internal error"""
        if failure.get("ck") == "run_enc" and \
                failure.get("what") == "pyflyby reported an internal error for a valid script and did not withdraw":
            return True         # the same local try/except, reached without injection (UTF-8 BOM, PEP 263 cookie)
        if failure.get("ck") not in ("run", "run_plain", "run_odd", "run_odd_needs", "run_enc"):
            return False
        if failure.get("what") != "after an internal error the importer did not withdraw":
            return False
        tr = failure.get("internal") or []
        return bool(tr) and all(t[0] == "parse" and t[1] == "safeExecfile" for t in tr)

    @staticmethod
    def fam_frames(case, failure):
        return failure.get("what") == "the traceback of the user's own exception shows pyflyby's wrapper frames" \
            and failure.get("ck") in ("prun", "run", "run_plain", "run_odd", "run_odd_needs", "debug")

    @staticmethod
    def fam_attr_local(case, failure):
        """dotted completion: auto_eval runs inside `try/except Exception: return []`"""
        if failure.get("ck") not in ("complete_attr", "complete_attr_bound"):
            return False
        w = failure.get("what", "")
        if w == "after an internal error the importer did not withdraw":
            tr = failure.get("internal") or []
            return bool(tr) and all(t[0] in ("parse", "scan", "sym", "scan_sym", "scan_scope", "db_lookup")
                                    and t[1] in ("globalMatches", "attrMatches") for t in tr)
        if w == "after an internal error completions differ from the pyflyby-free run":
            tr = failure.get("trace") or []
            return bool(tr) and all(t[0] in ("parse", "scan", "import_exec", "sym", "scan_sym", "scan_scope", "db_lookup")
                                    and t[1] in ("globalMatches", "attrMatches") for t in tr) \
                and failure.get("got") == []
        return False

    @staticmethod
    def fam_logging(case, failure):
        """an exception whose __str__ raises cannot be formatted by the logger"""
        return failure.get("what") == "pyflyby's logger printed a 'Logging error' traceback" \
            and "badstr" in failure.get("msgs", [])

    @staticmethod
    def fam_midloop(case, failure):
        """the AST transformer withdraws while IPython iterates over ip.ast_transformers: the next (third-party)
        transformer is skipped for that one cell"""
        if failure.get("ck") not in ("probe", "probe_known") or failure.get("what") != "the cell's outcome differs from the pyflyby-free run":
            return False
        tr = failure.get("trace") or []
        got, want = failure.get("got") or {}, failure.get("want") or {}
        return bool(tr) and all(t[1] == "astVisit" for t in tr) and set(failure.get("fields", [])) <= {"result", "stdout"} \
            and "+seen_by_" in str(want.get("result")) and "+seen_by_" not in str(got.get("result"))

    @staticmethod
    def fam_stale_debug(case, failure):
        """C13-D7: PyflybyLogger.set_level does not clear the logger's isEnabledFor cache (the logger is not registered with
        logging's manager), so after DEBUG -> quieter level `logger.debug` lines keep being printed.  Visible after a withdrawal
        only through a layer a third party wrapped (it cannot be removed and passes through): debug lines, no work."""
        if failure.get("what") != "pyflyby still works / reports after it withdrew":
            return False
        if failure.get("site_calls") or not failure.get("wrapped") or not failure.get("ever_debug") or failure.get("level") == "DEBUG":
            return False
        return all(l.startswith(("global_matches_with_autoimport(", "attr_matches_with_autoimport(", "_get_pdb_if_is_in_pdb()"))
                   for l in failure.get("pf_log", []))

    @staticmethod
    def fam_debug_kw(case, failure):
        """C13-H4: the user's code constructs a debugger with keyword arguments while HookPdbCtx is in force"""
        if failure.get("ck") != "debug_kw":
            return False
        w = failure.get("what", "")
        if w == "a pyflyby exception was printed by the shell":
            return "unexpected keyword argument" in str(failure.get("tail", ""))
        return w == "the cell's outcome differs from the pyflyby-free run" and not (failure.get("trace") or failure.get("internal"))

    families = {"debugger_ctor_rejects_keywords": fam_debug_kw.__func__,
                "stale_debug_lines_after_set_level": fam_stale_debug.__func__,
                "D23_debug_statement_hook_unprotected": fam_d23.__func__,
                "withdrawal_inside_transformer_loop_skips_next": fam_midloop.__func__,
                "unprintable_exception_logging_error": fam_logging.__func__,
                "user_traceback_shows_wrapper_frames": fam_frames.__func__,
                "dotted_completion_swallows_internal_errors": fam_attr_local.__func__,
                "run_hook_parse_error_logged_only": fam_run_parse.__func__,
                "completion_prompt_redisplay_needs_pt_cli": fam_redisplay.__func__}


def _clip(v):
    s = json.dumps(v, default=str)
    return v if len(s) < 300 else s[-300:]


PROP = C13()
