"""
gen_c10 — statement kinds for C10 that harness/gen_source.py (shared with C01, not edited here) does not produce,
aimed at the lines of the anchored functions that no gen_source text reaches (harness/covgap.py C10):

  * type comments (PEP 484): function signature type comments (`def f(a):\n    # type: (int) -> str`), per-argument
    type comments, `for`/`with`/assignment type comments, `# type: ignore` lines.  With a `# type:` in the text pyflyby
    parses with the type_comments flag, and FunctionDef.type_comment — a *str* — is visited as a child
    (_iter_child_nodes_in_order_internal_1 lines 131-135, _flatten_ast_nodes line 104-106).
  * `match` statements with every pattern kind (MatchAs with and without sub-pattern, MatchMapping with several
    literal keys / `**rest`, MatchSequence, MatchStar, MatchClass, MatchOr, MatchValue, MatchSingleton, guards),
    on one line and spread over several (the match alternative of gen_source never compiles: its or-pattern binds
    different names in its alternatives).
  * statements whose FIRST token is a string literal that is part of a larger expression (implicit concatenation,
    multi-line string as the left operand, f-string first, string method calls, ...), also as the first statement
    of the text, followed by `;`-joined statements and comments.
  * string-rich expressions whose sub-nodes are not in field order in the source (Dict, IfExp, Call with keywords and
    starred arguments, lambda / def defaults, decorated classes with bases).

`gen_module(rng)` mixes these items with small gen_source modules; every text returned compiles.
`gen_slice_case(rng)` produces direct FileText slicing cases (FilePos / tuple / int / open start / single line).
All random choices come from the `rng` passed in.
"""
from __future__ import annotations

import gen_source as G

STRS = ["'s'", '"t"', "'é'", "b'by'", "'#'", '"# no comment"', "'\U0001f389'", "'a' 'b'", "'''m\nl'''", '"""x\n# y\n"""',
        "f'{x}'", "f'a{x!r}b'", "r'\\d'", "''", "'a\\\nb'", "'# type: int'"]
SIMPLE = ["pass", "x = 1", "y = 's'", "return_ = x", "foo(x)", "z = '''a\nb'''", "'doc'", "import os", "x = f'{y}'",
          "del x", "w = {'k': 'v'}"]


def _str(rng):
    return rng.choice(STRS)


def _flat(s):
    """the literal on one line (annotations / defaults in a position that is followed by a comment)"""
    return s.replace("\\\n", "").replace("\n", " ")


def _body(rng, ind, doc=False):
    out = []
    if doc and rng.random() < 0.5:
        out.append(ind + rng.choice(["'doc'", '"""Doc.\n\n%s    more\n%s"""' % (ind, ind), "'''d'''  # dc"]))
    for _ in range(rng.randint(1, 2)):
        s = rng.choice(SIMPLE)
        out.append(ind + s + rng.choice(["", "", "  # c", "  # type: ignore"]))
        if rng.random() < 0.15:
            out.append(rng.choice(["", ind + "# body comment", "# col0"]))
    return "\n".join(out)


def _deco(rng):
    if rng.random() < 0.7:
        return ""
    return "".join(rng.choice(["@dec", "@dec('s')", "@a.b(k='v')", "@ dec", "@dec(\n    's',\n)"]) + rng.choice(["\n", "  # dc\n"])
                   for _ in range(rng.randint(1, 2)))


# --- type comments -------------------------------------------------------------------------------------------

def gen_typecomment(rng):
    ind = rng.choice(["    ", "  ", "\t"])
    k = rng.randrange(9)
    asy = rng.choice(["", "", "async "])
    sig = rng.choice(["(int, str) -> None", "(...) -> 'T'", "(int, *str, **bool) -> List[int]", "(int, str) -> Dict[str, 'é']"])
    if k == 0:
        return (_deco(rng) + "%sdef f(a, b):%s\n%s# type: %s\n%s" % (asy, rng.choice(["", "  # hc"]), ind, sig, _body(rng, ind, True)))
    if k == 1:
        return (_deco(rng) + "%sdef g(a,  # type: int\n      b=%s,  # type: str\n      *args,  # type: int\n      **kw  # type: bool\n      ):\n"
                % (asy, _flat(_str(rng))) + rng.choice(["", ind + "# type: (...) -> None\n"]) + _body(rng, ind, True))
    if k == 2:
        return "%sdef h(a, b): # type: %s\n%s" % (asy, sig, _body(rng, ind, True))
    if k == 3:
        s = "for i in %s:  # type: int\n%s" % (rng.choice(["x", "[1, 2]", "('a',\n 'b')"]), _body(rng, ind))
        if rng.random() < 0.3:
            s += "\nelse:\n" + _body(rng, ind)
        return s
    if k == 4:
        return "with %s as b:  # type: T\n%s" % (rng.choice(["a", "open('f')", "a as c, d"]), _body(rng, ind))
    if k == 5:
        return "async def co(x):\n%s# type: (int) -> None\n%sasync for i in x:  # type: int\n%s\n%sasync with x as y:  # type: int\n%s" % (
            ind, ind, _body(rng, ind * 2), ind, _body(rng, ind * 2))
    if k == 6:
        return "%s = %s  # type: %s" % (rng.choice(["x", "x = y", "a, b", "x.attr", "é"]),
                                        rng.choice(["[]", "{}", "'''a\nb'''", "f(1,\n  2)", "None"]),
                                        rng.choice(["List[int]", "str", "ignore", "ignore[attr-defined]", "'é'"]))
    if k == 7:
        return rng.choice(["# type: ignore", "import os  # type: ignore", "# type: ignore[misc]\nx = 1", "x = 1  # type:ignore",
                           "#type: ignore\n\ny = 2  #  type: int"])
    # a class whose methods carry signature type comments
    return (_deco(rng) + "class K(%s):\n" % rng.choice(["B", "B, metaclass=M", "B, k='v'", "*Bs, **kw"])
            + ind + "def m(self, a):\n" + ind * 2 + "# type: (int) -> None\n" + _body(rng, ind * 2, True) + "\n"
            + ind + "x = 1  # type: int")


# --- match statements ----------------------------------------------------------------------------------------

class _Pat:
    def __init__(self, rng):
        self.rng = rng
        self.n = 0

    def name(self):
        self.n += 1
        return "v%d" % self.n

    def lit(self):
        return self.rng.choice(["1", "-1", "1+2j", "'s'", "b'by'", "'a' 'b'", "'''m\nl'''", "None", "True", "os.sep", "E.A.b",
                                "'é'", '"\U0001f389"', "-2.5", "'#'"])

    def join(self, items, depth, open_, close):
        rng = self.rng
        if depth == 0 and len(items) > 1 and rng.random() < 0.35:
            sep = rng.choice([",\n        ", ",  # c\n      ", ",\n"])
            return open_ + rng.choice(["", "\n    "]) + sep.join(items) + rng.choice(["", ",", ",\n"]) + close
        return open_ + ", ".join(items) + close

    def pat(self, depth=0, bind=True, top=False):
        rng = self.rng
        r = rng.random()
        if depth > 2 or r < 0.18:
            return self.lit()
        if r < 0.28:
            if top:
                return self.lit()
            return self.name() if bind and rng.random() < 0.7 else "_"
        if r < 0.45:
            items = [self.pat(depth + 1, bind) for _ in range(rng.randint(0, 3))]
            if rng.random() < 0.4:
                items.insert(rng.randint(0, len(items)), "*" + (self.name() if bind and rng.random() < 0.6 else "_"))
            if rng.random() < 0.5:
                return self.join(items, depth, "[", "]")
            if len(items) == 1:
                return "(" + items[0] + ",)"
            return self.join(items, depth, "(", ")")
        if r < 0.65:
            keys = rng.sample(["'a'", "'b'", '"k"', "1", "os.sep", "b'k'", "None", "'é'", "'x' 'y'", "-1"], rng.randint(0, 3))
            items = ["%s: %s" % (k, self.pat(depth + 1, bind)) for k in keys]
            if bind and rng.random() < 0.35:
                items.append("**" + self.name())
            return self.join(items, depth, "{", "}")
        if r < 0.78:
            cls = rng.choice(["C", "str", "a.B", "int"])
            items = [self.pat(depth + 1, bind) for _ in range(rng.randint(0, 2))]
            items += ["%s=%s" % (k, self.pat(depth + 1, bind)) for k in rng.sample(["x", "y", "k"], rng.randint(0, 2))]
            return self.join(items, depth, cls + "(", ")")
        if r < 0.88:
            alts = [self.pat(depth + 1, False) for _ in range(rng.randint(2, 3))]
            alts = [a for a in alts if a != "_"] or ["1"]
            return rng.choice([" | ", "|"]).join(alts)
        if r < 0.96 and bind:
            p = self.pat(depth + 1, bind)
            if "|" in p or p == "_" and False:
                p = "(" + p + ")"
            return "%s as %s" % (p, self.name())
        return "(" + self.pat(depth + 1, bind) + ")"


def gen_match(rng):
    ind = rng.choice(["    ", "  ", "\t"])
    ind2 = ind + rng.choice(["    ", "  "])
    subj = rng.choice(["x", "x, y", "f(x)", "'s'", "(x,\n   y)", "x.a['k']", "'''a\nb'''", "[x, *y]", "é"])
    out = ["match %s:%s" % (subj, rng.choice(["", "", "  # mc"]))]
    n = rng.randint(1, 4)
    for i in range(n):
        pg = _Pat(rng)
        p = pg.pat(0, True, top=True)
        if rng.random() < 0.08:
            # an open sequence pattern (no brackets)
            p = "%s, %s" % (pg.pat(1), pg.pat(1))
        guard = rng.choice(["", "", "", " if x", " if 's' in x", " if (y :=\n        x)"])
        if rng.random() < 0.2:
            out.append(rng.choice([ind + "# between cases", "", "# col0 between cases"]))
        out.append(ind + "case %s%s:%s" % (p, guard, rng.choice(["", "", "  # cc"])))
        out.append(_body(rng, ind2))
    if rng.random() < 0.5:
        out.append(ind + rng.choice(["case _:", "case other:", "case _ as w:", "case [*_]:", "case {**rest}:"]))
        out.append(_body(rng, ind2))
    return "\n".join(out)


SOFT_KW = ["match = 1", "case = 's'", "match(x)", "match[0] = 1", "print(match, case)", "type = 1", "match, case = 1, 2",
           "match.case('s')", "_ = 'u'"]


# --- statements that begin with a string literal --------------------------------------------------------------

def gen_leftstr(rng):
    ml = rng.choice(["'''a\nb'''", '"""x\n# not a comment\n"""', "'''\n\n'''", "'''é\n\U0001f389 ü'''", "b'''by\ntes'''",
                     "r'''raw\n\\d'''", "'''# hash\n#'''", "'''a\n   \nb'''"])
    fs = rng.choice(["f'{x}'", 'f"a{x!r:>{w}}b"', "f'''m\n{x}\nn'''", 'f"{x=}"', "f'{{lit}}{x}'", "f''", "f'{x}{y}'",
                     "f'{\"q\" + f\"{y}\"}'", "f'''{\n x\n}'''", "f'{x:%Y-%m}'", "f\"{'''a\nb'''}\"", "rf'\\d{x}'", "f'{x!r}' f'{y}'",
                     "f'a' 'b' f'{c}'", "f'''{x}\n''' 'tail'", "f'é{x}ü{y}'", "f'\U0001f389{x}' '\U0001f389'"])
    sq = rng.choice(["'a'", '"b"', "'é'", "b'by'", "'\U0001f389'", "u'x'"])
    forms = [
        "%s + x" % ml, "%s %s" % (ml, sq), "%s %s %s" % (sq, ml, ml), "%s \\\n    %s" % (sq, sq), "(%s\n %s)" % (sq, sq),
        "(%s\n %s).join(x)" % (sq, sq), "%s.strip().split()" % ml, "%s %% x" % ml, "%s %% (x,\n    y)" % sq, "%s[0]" % ml,
        "%s.join(y for y in z)" % ml, "%s if x else %s" % (sq, ml), "%s if %s else %s" % (ml, sq, sq), "%s, %s" % (ml, sq),
        "%s.x = 1" % ml, "%s in d and f()" % sq, "%s.format(%s,\n    k=%s)" % (ml, sq, sq), "%s < x < %s" % (ml, ml),
        "%s %s" % (fs, sq), "%s + y" % fs, "%s %s" % (sq, fs), "%s %s" % (fs, ml), "%s.upper()" % fs, fs, "%s, %s" % (fs, fs),
        "(%s\n %s\n %s)" % (fs, sq, fs), "%s [0]" % fs, "%s %% %s" % (sq, fs), "[%s,\n %s][0]" % (ml, sq), "{%s: %s}[x]" % (ml, fs),
        "(%s)" % ml, "(\n%s\n)" % ml, "-x if %s else y" % ml, "%s or %s" % (ml, fs), "%s; %s" % (ml, sq), "%s;%s" % (fs, ml),
        "x = %s %s" % (ml, sq), "x = (%s\n     %s)" % (sq, fs), "f(%s, %s,\n  %s)" % (sq, ml, fs), "x[%s] = %s" % (ml, fs),
    ]
    s = rng.choice(forms)
    if rng.random() < 0.3:
        s += rng.choice(["; x = 1", ";y = 's'", " ; import os", "; " + sq, ";"])
    return s


# --- string-rich expressions whose children are not in field order -------------------------------------------

def gen_strexpr(rng):
    a, b, c, d = (_str(rng) for _ in range(4))
    forms = [
        "x = {%s: %s, %s: %s}" % (a, b, c, d), "x = {%s: %s,\n     **y, %s: %s}" % (a, b, c, d), "x = %s if %s else %s" % (a, b, c),
        "f(%s, k=%s, *[%s], **{%s: 1})" % (a, b, c, d), "f(k=%s, *%s)" % (a, b), "f(%s,\n  k=%s,\n  j=%s)" % (a, b, c),
        "g = lambda p=%s, *q, r=%s, **s: p + %s" % (a, b, c), "g = lambda o, p=%s, q=%s, /, r=%s: o" % (a, b, c), "x = [%s for i in %s if %s]" % (a, b, c),
        "x = {%s: %s for k in %s}" % (a, b, c), "x = %s[%s:%s]" % (a, b, c), "x = (%s < %s\n     < %s)" % (a, b, c),
        "x = not %s and (%s or %s)" % (a, b, c), "assert %s, %s" % (a, b), "x: %s = %s" % (a, b), "del x[%s], y[%s]" % (a, b),
        "x = (y := %s), %s" % (a, b), "x = *%s, %s" % (a, b), "print(%s, sep=%s, end=%s)" % (a, b, c), "raise E(%s) from F(%s)" % (a, b),
        "x = f(%s)(%s)[%s].y" % (a, b, c), "x = {%s, %s,\n     %s}" % (a, b, c), "x = %s %% (%s, %s)" % (a, b, c),
    ]
    return rng.choice(forms)


def gen_decorated(rng):
    ind = rng.choice(["    ", "  ", "\t"])
    a, b = _str(rng), _str(rng)
    k = rng.randrange(4)
    deco = "".join(d + rng.choice(["\n", "  # dc\n", "\n# between\n"]) for d in
                   rng.sample(["@dec(%s)" % a, "@a.b", "@dec(k=%s,\n     j=1)" % b, "@ dec", "@(\n  dec\n)", "@d[%s]" % a], rng.randint(1, 3)))
    if k == 0:
        return deco + "class C(B, metaclass=M, k=%s):\n%s" % (b, _body(rng, ind, True))
    if k == 1:
        return deco + "class C(f(%s), *Bs, **kw):\n%s" % (b, _body(rng, ind, True))
    if k == 2 and rng.random() < 0.5:
        return deco + "def f(a, b: %s = %s, c=%s, *, d=%s, e, f=%s):\n%s" % (_flat(a), b, a, b, a, _body(rng, ind, True))
    if k == 2:
        return deco + "def f(a, b=%s, *args, c: %s = %s, **kw) -> %s:\n%s" % (a, b, a, _flat(b), _body(rng, ind, True))
    return deco + "async def f(a: %s, /, b, *, c=%s):\n%s" % (_flat(a), b, _body(rng, ind, True))


ITEMS = [(gen_typecomment, 0.24, True), (gen_match, 0.26, True), (gen_leftstr, 0.24, False), (gen_strexpr, 0.12, False),
         (gen_decorated, 0.09, True), (lambda rng: rng.choice(SOFT_KW), 0.05, False)]


def gen_item(rng):
    r = rng.random()
    for fn, w, compound in ITEMS:
        if r < w:
            return fn(rng), compound
        r -= w
    return gen_leftstr(rng), False


def gen_module(rng, max_items=5):
    """(text, info): a compilable module text mixing the items above with small gen_source modules."""
    for _attempt in range(25):
        parts = []
        n = rng.randint(1, max_items)
        kinds = []
        for i in range(n):
            if rng.random() < 0.25:
                chunk, _ = G.gen_module(rng, max_items=2, prologue=(None if i == 0 else False), final_newline=True)
                if "\r" in chunk or not chunk.endswith("\n"):
                    continue
                parts.append(chunk)
                kinds.append("gs")
                continue
            if i > 0 or rng.random() < 0.5:
                parts.append(G.gen_filler(rng))
            item, compound = gen_item(rng)
            if not compound and rng.random() < 0.2:
                item += rng.choice(["  # trailing", " #c", "  # é", "  # type: int", "  # type: ignore"])
            parts.append(item + rng.choice(["\n", "\n", "\n\n"]))
            kinds.append("item")
        parts.append(G.gen_filler(rng))
        text = "".join(parts)
        if rng.random() < 0.2:
            while text.endswith("\n"):
                text = text[:-1]
            if rng.random() < 0.15 and "\n" in text:
                text += "\n# last comment no newline"
        if not text.strip():
            continue
        try:
            compile(text + ("" if text.endswith("\n") else "\n"), "<gen_c10>", "exec", dont_inherit=True)
        except (SyntaxError, ValueError):
            continue
        return text, dict(kinds=kinds)
    return "match x:\n    case {'a': v, 'b': w}:\n        pass\n", dict(kinds=["fallback"])


# --- direct FileText slicing ---------------------------------------------------------------------------------

def _pos_of(text, start, off):
    pre = text[:off]
    nl = pre.count("\n")
    if nl == 0:
        return [start[0], start[1] + len(pre)]
    return [start[0] + nl, 1 + len(pre) - (pre.rfind("\n") + 1)]


def gen_slice_case(rng):
    """A FileText slicing case: dict(kind='slice', text, start, form, a, b).
       form 'pos'   text[FilePos(a):FilePos(b)]      'tuple' text[(l,c):(l,c)]
            'int'   text[a_line:b_line]              'open'  text[:FilePos(b)]      'openint' text[:b_line]
            'line'  text[a_line] (a single line, a str)."""
    if rng.random() < 0.7:
        text, _ = G.gen_module(rng, max_items=3)
    else:
        text = rng.choice(["a\nb\nc\nd", "x = 1\n", "one line", "\n", "\n\nabc\n\n", "é\U0001f389\nü", "a\n", "ab\ncd\nef\n", "  \n\t\n"])
    if len(text) > 600:
        text = text[:600]
    r = rng.random()
    start = [1, 1] if r < 0.4 else [rng.randint(2, 30), 1] if r < 0.6 else [rng.randint(1, 30), rng.randint(2, 20)]
    n = len(text)
    o1, o2 = sorted((rng.randint(0, n), rng.randint(0, n)))
    if rng.random() < 0.15:
        o1 = 0
    if rng.random() < 0.15:
        o2 = n
    a, b = _pos_of(text, start, o1), _pos_of(text, start, o2)
    form = rng.choice(["pos", "pos", "pos", "tuple", "int", "int", "open", "openint", "line"])
    k = rng.random()
    if k < 0.08:
        a, b = b, a                                   # reversed
    elif k < 0.14:
        b = [b[0] + rng.randint(1, 3), b[1]]          # line past the end (or a column that does not exist there)
    elif k < 0.20:
        a = [a[0], a[1] + rng.randint(1, 40)]         # column possibly past the end of its line
    elif k < 0.24 and a[0] > 1:
        a = [max(1, a[0] - rng.randint(1, 3)), a[1]]  # possibly before the first line
    elif k < 0.28 and b[1] > 1:
        b = [b[0], max(1, b[1] - rng.randint(1, 5))]  # possibly left of the start column of the first line
    return dict(kind="slice", text=text, start=start, form=form, a=a, b=b)
