"""C11 — Import formatting round-trips under every style configuration."""
from __future__ import annotations

import ast
import collections
import json
import os
import re
import subprocess
import sys


def _pin_hash_seed():
    """The iteration order of Python sets of str-keyed objects depends on the per-process string hash seed.  A check
    run and its replays must see the same layout, so the entry points run under a pinned PYTHONHASHSEED (re-exec once
    when none is set); every generated case records the seed it was evaluated under (`phs`) and run_impl re-executes a
    case in a sub-process when the current seed differs."""
    if os.environ.get("PYTHONHASHSEED") in (None, "", "random") and os.path.basename(sys.argv[0]) in ("run.py", "dbg.py"):
        env = dict(os.environ)
        env["PYTHONHASHSEED"] = str(100 + int(os.environ.get("VERIF_SEED", "0") or 0))
        sys.stdout.flush()
        sys.stderr.flush()
        os.execve(sys.executable, [sys.executable] + sys.argv, env)


_pin_hash_seed()
PHS = os.environ.get("PYTHONHASHSEED")

import vcommon
from vcommon import Prop
import gen_c11


# ---------------------------------------------------------------------------------------------
# independent facts about the input (no pyflyby involved)
# ---------------------------------------------------------------------------------------------

def _nfkc(x):
    import unicodedata
    return unicodedata.normalize("NFKC", x) if isinstance(x, str) else x


def _nfkc_deep(x):
    if isinstance(x, list):
        return [_nfkc_deep(y) for y in x]
    return _nfkc(x)


def nfkc_import(i):
    """the import with its identifiers NFKC-normalised: what the parser reads, and what every constructor of
    `Import` must therefore hold (repair cf6ff00)"""
    return dict(i, mod=_nfkc(i["mod"]), name=_nfkc(i["name"]), **{"as": _nfkc(i["as"])})


def canon_import(i):
    i = nfkc_import(i)
    """Canonical (kind, module, level, name, asname) that the statement-level import `i` denotes, as a
    formatter must re-emit it.  Two documented canonicalisations of pyflyby (Import docstring):
    `x as x` drops the alias, and `import a.b as c` is `from a import b as c`."""
    k, mod, lvl, name, a = i["k"], i["mod"], i["lvl"], i["name"], i["as"]
    if k == "imp":
        if a is None or a == name:
            return ("imp", "", 0, name, None)
        if "." in name:
            m, _, last = name.rpartition(".")
            return ("from", m, 0, last, None if a == last else a)
        return ("imp", "", 0, name, a)
    if a == name:
        a = None
    return ("from", mod, lvl, name, a)


def local_name(c):
    """the key pyflyby's conflict test uses: the local name an import binds (a plain dotted import is
    keyed by its full dotted name); star imports bind no single name."""
    k, mod, lvl, name, a = c
    if name == "*":
        return None
    return a if a is not None else name


def is_conflicting(canon_set):
    by = collections.defaultdict(set)
    for c in canon_set:
        ln = local_name(c)
        if ln is not None:
            by[ln].add(c)
    return any(len(v) > 1 for v in by.values())


def ast_statements(text):
    """[[fromname|None, [[name, asname], ...]], ...] or the string 'SyntaxError' / 'NotImport'."""
    try:
        tree = ast.parse(text)
    except (SyntaxError, ValueError):
        return "SyntaxError"
    out = []
    for st in tree.body:
        if isinstance(st, ast.Import):
            out.append([None, [[a.name, a.asname] for a in st.names]])
        elif isinstance(st, ast.ImportFrom):
            out.append(["." * st.level + (st.module or ""), [[a.name, a.asname] for a in st.names]])
        else:
            return "NotImport"
    return out


def ast_imports(text):
    """Counter of (kind, module, level, name, asname), plus alias positions [(lineno, col, end_lineno)]."""
    tree = ast.parse(text)
    cnt = collections.Counter()
    pos = []
    for st in tree.body:
        if isinstance(st, ast.Import):
            for a in st.names:
                cnt[("imp", "", 0, a.name, a.asname)] += 1
                pos.append((a.lineno, a.col_offset, a.end_lineno, "imp"))
        elif isinstance(st, ast.ImportFrom):
            for a in st.names:
                cnt[("from", st.module or "", st.level, a.name, a.asname)] += 1
                pos.append((a.lineno, a.col_offset, a.end_lineno, "star" if a.name == "*" else "from"))
        else:
            raise ValueError("non-import statement in output: " + type(st).__name__)
    return cnt, pos


_D2_PLAIN = re.compile(r"^import \(([^()]*)\)$", re.M)
_D2_STAR = re.compile(r"import \(\s*\*\s*\)$", re.M)


def d2_repair(out):
    """Undo exactly the two illegal shapes of D2: a parenthesised plain `import (...)` and `import (*)`.
    Returns (repaired text, number of repairs)."""
    n = 0

    def plain(m):
        nonlocal n
        n += 1
        return "import " + ", ".join(x.strip() for x in m.group(1).split(","))

    def star(m):
        nonlocal n
        n += 1
        return "import *"
    out = _D2_PLAIN.sub(plain, out)
    out = _D2_STAR.sub(star, out)
    return out, n


# ---------------------------------------------------------------------------------------------

def mk_params(case):
    return mk_params_p(case["params"], case.get("align_kind", "tuple"))


def params_json(p, d2fix):
    al = p["align"]
    if al is True or al is False:
        alj = dict(t="bool", b=al)
    elif isinstance(al, int):
        alj = dict(t="col", n=al)
    else:
        alj = dict(t="cols", l=list(al))
    return dict(width=p["width"], align=alj, from_spaces=p["from_spaces"], hanging=p["hanging"], indent=p["indent"],
                sep_from=p["sep_from"], align_future=p["align_future"], d2fix=d2fix)


DEFAULT_PARAMS = dict(width=None, align=True, from_spaces=1, hanging="never", indent=4, sep_from=True, align_future=False)


def mk_params_p(p, kind="tuple"):
    from pyflyby._importstmt import ImportFormatParams
    al = p["align"]
    if isinstance(al, list):
        al = tuple(al) if kind == "tuple" else set(al) if kind == "set" else list(al)
    return ImportFormatParams(max_line_length=p["width"], align_imports=al, from_spaces=p["from_spaces"],
                              hanging_indent=p["hanging"], indent=p["indent"],
                              separate_from_imports=p["sep_from"], align_future=p["align_future"])


def split_of(i):
    """(module_name, member_name, import_as) as ImportStatement._from_ast_node builds it"""
    if i["k"] == "imp":
        return (None, i["name"], i["as"])
    return ("." * i["lvl"] + i["mod"], i["name"], i["as"])


def text_of(imports):
    """source text: consecutive imports of the same `from` module are written as one statement"""
    out = []
    prev = None
    for i in imports:
        key = (i["k"], i["mod"], i["lvl"])
        tok = i["name"] + ((" as " + i["as"]) if i["as"] is not None else "")
        if prev == key and i["k"] == "from" and i["name"] != "*" and not out[-1].endswith("*"):
            out[-1] += ", " + tok
        else:
            out.append(gen_c11.render_stmt(i))
        prev = key
    return "".join(l + "\n" for l in out)


def expected_flags(imports):
    """OR of the compiler flags of the __future__ features imported (from the stdlib's own table)"""
    import __future__
    f = 0
    for i in imports:
        if i["k"] == "from" and i["lvl"] == 0 and i["mod"] == "__future__" and i["name"] != "*":
            f |= getattr(__future__, i["name"]).compiler_flag
    return f


def observe_flags(S, out):
    """the compiler flags pyflyby itself computes for the set and for the formatted text parsed back (every path)"""
    from pyflyby._importclns import ImportSet
    from pyflyby._parse import PythonBlock
    from pyflyby._flags import CompilerFlags
    res = {}
    for name, fn in (("ImportSet.flags", lambda: S.flags),
                     ("ImportSet(text).flags", lambda: ImportSet(out).flags),
                     ("PythonBlock(text).flags", lambda: PythonBlock(out).flags),
                     ("PythonBlock(text).statements", lambda: len(PythonBlock(out).statements) * 0),
                     ("CompilerFlags.from_ast", lambda: CompilerFlags.from_ast(ast.parse(out))),
                     ("statement flags", lambda: CompilerFlags(*[st.flags for st in ImportSet(out).statements]))):
        try:
            res[name] = int(fn())
        except Exception as e:
            res[name] = "raised " + type(e).__name__ + ": " + str(e)[:120]
    return res


def run_sub(case, hashseed):
    """run_impl of `case` in a fresh interpreter under PYTHONHASHSEED=hashseed"""
    c = {k: v for k, v in case.items() if k not in ("phs", "hashseeds")}
    env = dict(os.environ)
    env["PYTHONHASHSEED"] = str(hashseed)
    p = subprocess.run([sys.executable, os.path.abspath(__file__), "--sub"], input=json.dumps(c), env=env,
                       stdout=subprocess.PIPE, stderr=subprocess.PIPE, text=True, timeout=120)
    if p.returncode != 0:
        raise RuntimeError("sub-process under PYTHONHASHSEED=%s failed: %s" % (hashseed, p.stderr[-400:]))
    return json.loads(p.stdout)


def build_set(imports, via):
    """a brand-new ImportSet made of brand-new Import objects"""
    from pyflyby._importclns import ImportSet
    from pyflyby._importstmt import Import
    if via == "text" and imports:
        return ImportSet(text_of(imports))
    return ImportSet([Import.from_split(split_of(i)) for i in imports])


def stmts_json(sts):
    return [[s.fromname, [list(a) for a in s.aliases]] for s in sts]


def run_step(S, step):
    """apply one step of a "seq" case to the ImportSet object S; canonical JSON result"""
    op = step["op"]
    try:
        if op == "pp":
            return dict(out=S.pretty_print(params=mk_params_p(step["params"], step.get("align_kind", "tuple"))))
        if op == "stmts":
            return dict(stmts=stmts_json(S.get_statements(separate_from_imports=step["sep_from"])))
        if op == "repr":
            return dict(out=repr(S))
        if op == "statements":
            return dict(stmts=stmts_json(S.statements), imports=[[i.fullname, i.import_as] for i in S.imports],
                        n=len(S), conflicts=sorted(S.conflicting_imports))
        if op == "stmt_pp":
            sts = S.get_statements(separate_from_imports=step["sep_from"])
            if not sts:
                return dict(none=True)
            st = sts[step["idx"] % len(sts)]
            outs = []
            for c in step["calls"]:
                outs.append(st.pretty_print(params=mk_params_p(c["params"]), import_column=c["col"], from_spaces=c["fs"]))
                outs.append(str(st))
            return dict(stmt=stmts_json([st])[0], outs=outs, imports=[[i.fullname, i.import_as] for i in st.imports])
        if op in ("with", "union"):
            O = build_set(step["other"], "split")
            R = S.with_imports(O) if op == "with" else (S | O)
        elif op == "without":
            R = S.without_imports(build_set(step["remove"], "split"))
        else:
            raise KeyError(op)
        res = dict(imports=sorted([i.fullname, i.import_as] for i in R))
        try:
            res["out"] = R.pretty_print(params=mk_params_p(step["params"]))
        except Exception as e:
            res["err"] = err_enum(e)
        return res
    except Exception as e:
        return dict(err=err_enum(e), msg=str(e)[:150])


def step_brief(step):
    op = step["op"]
    if op == "pp":
        return "pretty_print(%s)" % ", ".join("%s=%r" % kv for kv in sorted(step["params"].items()))
    if op == "stmts":
        return "get_statements(separate_from_imports=%r)" % step["sep_from"]
    if op == "repr":
        return "repr()"
    if op == "statements":
        return ".statements/.imports/len()/.conflicting_imports"
    if op == "stmt_pp":
        return "get_statements(%r)[%d].pretty_print x%d, str()" % (step["sep_from"], step["idx"], len(step["calls"]))
    if op in ("with", "union"):
        return "%s(%s).pretty_print(sep_from=%r)" % (op, "; ".join(gen_c11.render_stmt(i) for i in step["other"]), step["params"]["sep_from"])
    return "without_imports(%s).pretty_print(sep_from=%r)" % ("; ".join(gen_c11.render_stmt(i) for i in step["remove"]), step["params"]["sep_from"])


def err_enum(e):
    n = type(e).__name__
    return n if n in ("ConflictingImportsError", "AssertionError", "ValueError", "TypeError", "SyntaxError") else "Other:" + n


class C11(Prop):
    id = "C11"
    driver = "C11"
    lean_modules = ["Pfb.C11.Props"]
    theorems = [
        "Pfb.C11.fill_tokens",
        "Pfb.C11.fill_width",
        "Pfb.C11.C11_width",
        "Pfb.C11.C11_width_physical",
        "Pfb.C11.C11_roundtrip_core",
        "Pfb.C11.C11_roundtrip",
        "Pfb.C11.C11_roundtrip_unrepaired",
        "Pfb.C11.readBack_imports",
        "Pfb.C11.getStatements_imports",
        "Pfb.C11.split_roundtrip",
        "Pfb.C11.C11_imports_exact",
        "Pfb.C11.C11_set_only",
        "Pfb.C11.C11_fixpoint",
        "Pfb.C11.D2_witness_plain",
        "Pfb.C11.D2_witness_star",
    ]
    anchors = [
        ("lib/python/pyflyby/_format.py", "fill"),
        ("lib/python/pyflyby/_format.py", "pyfill"),
        ("lib/python/pyflyby/_format.py", "FormatParams"),
        ("lib/python/pyflyby/_importstmt.py", "Import.split"),
        ("lib/python/pyflyby/_importstmt.py", "Import.from_split"),
        ("lib/python/pyflyby/_importstmt.py", "ImportStatement.pretty_print"),
        ("lib/python/pyflyby/_importstmt.py", "ImportStatement._from_imports"),
        ("lib/python/pyflyby/_importstmt.py", "ImportFormatParams"),
        ("lib/python/pyflyby/_importclns.py", "ImportSet.pretty_print"),
        ("lib/python/pyflyby/_importclns.py", "ImportSet.get_statements"),
        ("lib/python/pyflyby/_importclns.py", "ImportSet._by_module_name"),
        ("lib/python/pyflyby/_importclns.py", "ImportSet.conflicting_imports"),
        ("lib/python/pyflyby/_importclns.py", "ImportSet._from_imports"),
        ("lib/python/pyflyby/_importclns.py", "ImportSet.imports"),
        ("lib/python/pyflyby/_importclns.py", "ImportSet.flags"),
        ("lib/python/pyflyby/_flags.py", None),
    ]
    quick_cases = 2400
    thorough_cases = 100000
    quick_deadline_s = 60
    thorough_deadline_s = 600
    rule = ("import sets from harness/gen_c11.py (plain / dotted / aliased / relative 1-3 dots / star / __future__; identifier "
            "lengths 1..60, low-entropy names so that grouping, sort ties and conflicts occur; 1..39 imports) x width None|10..200 "
            "(35 % placed within +-2 of a statement's one-line length) x align False/True/int/sets x from_spaces 1..8 x hanging x indent "
            "x separate_from_imports x align_future; exhaustive: all sets of <= 3 imports over an 8-import alphabet x 96-point grid "
            "(quick: seed-chosen 5 %); plus free-layout import statements for the reference grammar vs ast.parse; plus (25 % of the generated cases "
            "and a small scope of 736 points) call SEQUENCES on one ImportSet object: 2-6 of pretty_print with changing parameters "
            "(separate_from_imports flips, width/align changes), get_statements, repr(), .statements/.imports, ImportStatement.pretty_print "
            "several times + str(), with_imports / | / without_imports followed by formatting - every call must equal the same call on a "
            "fresh equal object and the model's answer; __future__ imports range over all of __future__.all_feature_names (alone, several, all, "
            "aliased) and the flags pyflyby computes when it parses its own output back (ImportSet(text).flags, PythonBlock(text).flags, "
            "CompilerFlags.from_ast, statement flags) must equal the stdlib's flags of the imported features; ~10 % of the sets import one "
            "fullname under 2-6 local names; every set is also built in the opposite order (same text required) and a share is formatted "
            "again in sub-processes under three PYTHONHASHSEED values (same text required); the check runs under a pinned PYTHONHASHSEED, "
            "every case records it and a replay re-executes the case under the recorded seed; "
            "non-trivial = output has a wrapped statement (more physical lines than statements); distinct by case")
    trusted_base = ["CPython's parser (`ast.parse`) defines 'valid Python' and which imports a text denotes",
                    "the Lean reference grammar `parseBlock` (subset of import syntax the formatter can emit) is a model of CPython's "
                    "parser validated by correspondence on outputs and on free-layout statements, not derived from it"]
    assumptions = ["names are NFKC-stable identifiers that are not keywords (ast normalises identifiers)",
                   "use_black=False; max_line_length is None or 10..200; alignment columns are naturals",
                   "sets that pyflyby itself calls conflicting (two different imports with one import_as) are outside the claim: "
                   "pretty_print refuses them (ConflictingImportsError), which the model reproduces"]

    d2fix = False

    def setup(self, tier, rng):
        # which tree is this?  (the model carries both: Params.d2fix)
        from pyflyby._importclns import ImportSet
        try:
            self.d2fix = "(" not in ImportSet("import " + "a" * 100).pretty_print()
        except Exception:
            self.d2fix = False

    # -- cases ---------------------------------------------------------------------------------
    def gen_case(self, rng, i, tier):
        if i % 8 == 7:
            t, bad = gen_c11.gen_stmt_text(rng)
            return dict(kind="parse", text=t)
        if i % 4 == 1:
            return dict(gen_c11.gen_seq_case(rng), phs=PHS)
        c = dict(gen_c11.gen_case(rng), phs=PHS)
        # sub-process budget: the in-process order/round-trip checks run on every case, the three extra interpreters on a share
        if "hashseeds" in c and rng.random() > (0.03 if tier == "thorough" else 0.25):
            del c["hashseeds"]
        return c

    def exhaustive_cases(self, tier, rng):
        sets, grid = gen_c11.small_scope()
        pts = [(s, g) for s in sets for g in grid]
        if tier != "thorough":
            pts = rng.sample(pts, len(pts) // 20)
        return [dict(c, phs=PHS) for c in
                [gen_c11.small_case(s, g, rng) for s, g in pts] + gen_c11.small_seq_cases(rng, tier == "thorough")] + self.cli_cases()

    # -- implementation ------------------------------------------------------------------------
    def run_cli(self, case):
        """the command-line glue around the formatter: bin/<tool> in a scratch directory that may hold a pyproject.toml"""
        import subprocess, tempfile, shutil
        d = tempfile.mkdtemp(prefix="pfbc11cli_")
        try:
            os.mkdir(os.path.join(d, ".git"))
            if case.get("pyproject") is not None:
                open(os.path.join(d, "pyproject.toml"), "w").write(case["pyproject"])
            open(os.path.join(d, "db.py"), "w").write(case.get("db", ""))
            open(os.path.join(d, "m.py"), "w").write(case.get("text", ""))
            env = dict(os.environ, PYTHONPATH=os.path.join(vcommon.REPO, "lib", "python"), PYFLYBY_PATH=os.path.join(d, "db.py"),
                       PYFLYBY_LOG_LEVEL="ERROR")
            p = subprocess.run([sys.executable, os.path.join(vcommon.REPO, "bin", case["tool"])] + list(case["args"]), cwd=d, env=env,
                               stdout=subprocess.PIPE, stderr=subprocess.PIPE, text=True, timeout=120)
            return dict(rc=p.returncode, out=p.stdout, err=p.stderr[-400:])
        finally:
            shutil.rmtree(d, ignore_errors=True)

    @staticmethod
    def cli_cases():
        text = "from os.path import join, dirname\nimport sys, os\nprint(join, dirname, sys, os)\n"
        out = [dict(kind="cli", tool="find-import", args=["os", "sys", "defaultdict"], db="import os\nimport sys\nfrom collections import defaultdict\n",
                    want=[("imp", "", 0, "os", None), ("imp", "", 0, "sys", None), ("from", "collections", 0, "defaultdict", None)])]
        for v in ("8", "[8, 40]", "true", "false", '"16"', '"24,32"'):
            out.append(dict(kind="cli", tool="tidy-imports", args=["--print", "m.py"], text=text, db="",
                            pyproject="[tool.pyflyby]\nalign_imports = %s\n" % v,
                            want=[("from", "os.path", 0, "dirname", None), ("from", "os.path", 0, "join", None),
                                  ("imp", "", 0, "os", None), ("imp", "", 0, "sys", None)]))
        return out

    def run_impl(self, case):
        if case.get("kind") == "cli":
            return self.run_cli(case)
        if case.get("kind") == "parse":
            return dict(ast=ast_statements(case["text"]))
        phs = case.get("phs")
        if phs is not None and str(phs) != (PHS or ""):
            # evaluated under another string hash seed when it was generated: reproduce that interpreter state
            obs = run_sub(case, phs)
        else:
            obs = self.run_local(case)
        if case.get("hashseeds"):
            obs["by_hashseed"] = {str(h): run_sub(case, h) for h in case["hashseeds"]}
        return obs

    def run_local(self, case):
        if case.get("kind") == "seq":
            return self.run_seq(case)
        from pyflyby._importclns import ImportSet
        from pyflyby._importstmt import Import
        obs = {}
        params = mk_params(case)
        try:
            if case.get("via") == "text":
                S = ImportSet(text_of(case["imports"]))
            else:
                S = ImportSet([Import.from_split(split_of(i)) for i in case["imports"]])
        except Exception as e:
            obs["err"] = "construct:" + err_enum(e)
            obs["errmsg"] = str(e)[:200]
            return obs
        try:
            obs["stmts"] = [[s.fromname, [list(a) for a in s.aliases]]
                            for s in S.get_statements(separate_from_imports=case["params"]["sep_from"])]
        except Exception as e:
            obs["stmts_err"] = err_enum(e)
        try:
            out = S.pretty_print(params=params)
        except Exception as e:
            obs["err"] = err_enum(e)
            obs["errmsg"] = str(e)[:200]
            return obs
        obs["out"] = out
        try:
            # "parsed again, denotes exactly the same imports" in pyflyby's own terms: the set read back is EQUAL to
            # the set that was formatted (whatever way that set was built)
            obs["reparse_equal"] = bool(ImportSet(out) == S)
        except Exception as e:
            obs["reparse_equal"] = "exc:" + err_enum(e)
        try:
            obs["refmt"] = ImportSet(out).pretty_print(params=mk_params(case))
        except Exception as e:
            obs["refmt_err"] = err_enum(e) + ": " + str(e)[:150]
        # every case with a __future__ import, and a deterministic quarter of the others
        if any(i["mod"] == "__future__" for i in case["imports"]) or len(out) % 4 == 0:
            obs["flags"] = observe_flags(S, out)
        # an equal set built in the opposite order
        try:
            R = build_set(list(reversed(case["imports"])), "split")
            obs["rev"] = dict(equal=(R == S), out=R.pretty_print(params=mk_params(case)))
        except Exception as e:
            obs["rev"] = dict(err=err_enum(e))
        return obs

    def run_seq(self, case):
        """every step on ONE object, in order; and every step alone on a fresh equal object"""
        try:
            S = build_set(case["imports"], case.get("via"))
        except Exception as e:
            return dict(err="construct:" + err_enum(e))
        same = [run_step(S, st) for st in case["steps"]]
        fresh = [run_step(build_set(case["imports"], case.get("via")), st) for st in case["steps"]]
        # and the same object once more with the first step (earlier calls must not have changed it)
        again = run_step(S, case["steps"][0]) if case["steps"] else None
        return dict(same=same, fresh=fresh, again=again)

    def oracle_seq(self, case, obs):
        if "err" in obs:
            return [dict(what="constructing the set raised", err=obs["err"])]
        fails = []
        steps = case["steps"]
        imports = [gen_c11.render_stmt(i) for i in case["imports"]][:14]
        want = collections.Counter(set(canon_import(i) for i in case["imports"]))
        for k, (a, b) in enumerate(zip(obs["same"], obs["fresh"])):
            if a != b:
                diff = [key for key in sorted(set(a) | set(b)) if a.get(key) != b.get(key)]
                fails.append(dict(what="a call on an ImportSet that was used before gives a different result than on a fresh equal set",
                                  step=k, call=step_brief(steps[k]), sequence=[step_brief(s) for s in steps[:k + 1]],
                                  differs_in=diff, same_object=str(a.get(diff[0]))[:400], fresh_object=str(b.get(diff[0]))[:400],
                                  imports=imports))
                break
            if steps[k]["op"] == "pp" and "out" in a:
                try:
                    got, _ = ast_imports(a["out"])
                    if got != want:
                        fails.append(dict(what="re-parsed imports differ from the input set", step=k, call=step_brief(steps[k]),
                                          sequence=[step_brief(s) for s in steps[:k + 1]], out=a["out"][:400], imports=imports))
                except (SyntaxError, ValueError) as e:
                    fails.append(dict(what="output is not valid Python", step=k, call=step_brief(steps[k]), err=str(e)[:100],
                                      sequence=[step_brief(s) for s in steps[:k + 1]], out=a["out"][:400], imports=imports))
        if not fails and obs.get("again") is not None and obs["again"] != obs["fresh"][0]:
            fails.append(dict(what="a call on an ImportSet that was used before gives a different result than on a fresh equal set",
                              step=len(steps), call=step_brief(steps[0]) + " (repeated after the whole sequence)",
                              sequence=[step_brief(s) for s in steps] + [step_brief(steps[0])],
                              same_object=str(obs["again"])[:400], fresh_object=str(obs["fresh"][0])[:400], imports=imports))
        return fails[:3]

    def oracle_hashseed(self, case, obs, brief):
        """the result must not depend on PYTHONHASHSEED"""
        out = []
        keys = ("out", "err", "stmts", "refmt", "same", "fresh")
        for h, o in sorted((obs.get("by_hashseed") or {}).items(), key=lambda kv: int(kv[0])):
            d = [k for k in keys if o.get(k) != obs.get(k)]
            if d:
                out.append(dict(what="the formatted text depends on PYTHONHASHSEED", hashseed=int(h), reference_hashseed=case.get("phs", PHS),
                                differs_in=d, under_hashseed=str(o.get(d[0]))[:400], reference=str(obs.get(d[0]))[:400], **brief))
                break
        return out

    # -- oracle --------------------------------------------------------------------------------
    def oracle(self, case, obs):
        if case.get("kind") == "cli":
            if obs["rc"] != 0:
                return [dict(what="the command-line tool failed on a valid formatting configuration", tool=case["tool"], args=case["args"],
                             pyproject=case.get("pyproject"), rc=obs["rc"], err=obs["err"])]
            try:
                tree = ast.parse(obs["out"])
            except (SyntaxError, ValueError) as e:
                return [dict(what="output is not valid Python", tool=case["tool"], args=case["args"], err=str(e)[:120], out=obs["out"][:300])]
            got = collections.Counter()
            for st in tree.body:
                if isinstance(st, ast.Import):
                    for a in st.names:
                        got[("imp", "", 0, a.name, a.asname)] += 1
                elif isinstance(st, ast.ImportFrom):
                    for a in st.names:
                        got[("from", st.module or "", st.level, a.name, a.asname)] += 1
            if got != collections.Counter(tuple(w) for w in case["want"]):
                return [dict(what="re-parsed imports differ from the input set", tool=case["tool"], args=case["args"], out=obs["out"][:300])]
            return []
        if case.get("kind") == "parse":
            return []
        if case.get("kind") == "seq":
            return self.oracle_seq(case, obs)
        imps, p = case["imports"], case["params"]
        want = set(canon_import(i) for i in imps)
        brief = dict(imports=[gen_c11.render_stmt(i) for i in imps][:12], params=p)
        if "err" in obs:
            if obs["err"] == "ConflictingImportsError" and is_conflicting(want):
                return []            # outside the claimed domain ("non-conflicting imports")
            return [dict(what="pretty_print raised on a non-conflicting set", err=obs["err"], msg=obs.get("errmsg"), **brief)]
        out = obs["out"]
        fails = []
        try:
            got, pos = ast_imports(out)
        except (SyntaxError, ValueError) as e:
            f = dict(what="output is not valid Python", err=str(e)[:120], out=out[:400], **brief)
            rep, n = d2_repair(out)
            if n:
                try:
                    g2, _ = ast_imports(rep)
                    if g2 == collections.Counter(want):
                        f["d2_only"] = True     # the only thing wrong is a parenthesised plain import / star
                except (SyntaxError, ValueError):
                    pass
            return [f]
        if got != collections.Counter(want):
            lost = sorted(map(str, set(want) - set(got)))[:5]
            extra = sorted(map(str, set(got) - set(want)))[:5]
            dup = sorted(str(k) for k, v in got.items() if v > 1)[:5]
            fails.append(dict(what="re-parsed imports differ from the input set", lost=lost, extra=extra, duplicated=dup,
                              out=out[:400], **brief))
        if not fails and obs.get("reparse_equal") is not True and "reparse_equal" in obs:
            fails.append(dict(what="the set parsed back from the formatted text is not equal to the set that was formatted",
                              got=obs.get("reparse_equal"), out=out[:400], **brief))
        if "refmt_err" in obs:
            fails.append(dict(what="re-formatting the re-parsed set raised", err=obs["refmt_err"], out=out[:400], **brief))
        elif obs["refmt"] != out:
            fails.append(dict(what="re-formatting the re-parsed set gives different text", out=out[:400],
                              refmt=obs["refmt"][:400], **brief))
        # the compiler flags pyflyby computes for the text it wrote (every path that parses the block back)
        wf = expected_flags(imps)
        for path, v in sorted((obs.get("flags") or {}).items()):
            if path == "PythonBlock(text).statements":
                if v != 0:
                    fails.append(dict(what="parsing the formatted block back with pyflyby raised", path=path, got=v, out=out[:400], **brief))
            elif v != wf:
                fails.append(dict(what="__future__ flags of the formatted block differ from the features imported", path=path, got=v,
                                  want=wf, out=out[:400], **brief))
        rev = obs.get("rev")
        if rev is not None and (rev.get("out") != out or not rev.get("equal")):
            fails.append(dict(what="an equal set built in the opposite order formats differently", out=out[:400],
                              other=str(rev)[:400], **brief))
        fails.extend(self.oracle_hashseed(case, obs, brief))
        # line-length rule
        N = p["width"] or 79
        lines = out.split("\n")
        per_line = collections.defaultdict(list)
        for (ln, col, eln, kind) in pos:
            per_line[ln].append((col, kind))
            if eln != ln:
                fails.append(dict(what="an imported name (with its alias) is split across lines", out=out[:400], **brief))
        for n, l in enumerate(lines, 1):
            if len(l) <= N:
                continue
            names = per_line.get(n, [])
            if len(names) >= 2:
                fails.append(dict(what="a line longer than the width carries more than one imported name",
                                  line=l[:250], width=N, out=out[:400], **brief))
            elif len(names) == 1 and p["hanging"] in ("auto", "always") and names[0][1] == "from":
                # with hanging indent allowed, a single from-imported name can always be put on its own line at `indent`
                if names[0][0] != p["indent"] or not l.startswith(" " * p["indent"]):
                    fails.append(dict(what="a line longer than the width carries a name that could be wrapped further",
                                      line=l[:250], width=N, out=out[:400], **brief))
        return fails[:4]

    # -- model ---------------------------------------------------------------------------------
    def model_requests(self, case, obs):
        if case.get("kind") == "cli":
            return []          # command-line glue: judged by the oracle only
        if case.get("kind") == "parse":
            return [dict(op="parse", text=case["text"])]
        if case.get("kind") == "seq":
            return [r for _, r in self.seq_requests(case, obs)]
        p = case["params"]
        reqs = [dict(op="pretty", splits=[list(split_of(nfkc_import(i))) for i in case["imports"]], **params_json(p, self.d2fix))]
        if "out" in obs:
            reqs.append(dict(op="parse", text=obs["out"]))
        return reqs

    def seq_requests(self, case, obs):
        """[(tag, request)]: what the model says each step must return (independent of call history by construction)"""
        if "err" in obs:
            return []
        out = []
        splits = [list(split_of(nfkc_import(i))) for i in case["imports"]]
        for k, st in enumerate(case["steps"]):
            op = st["op"]
            if op == "pp":
                out.append(((k, "pp"), dict(op="pretty", splits=splits, **params_json(st["params"], self.d2fix))))
            elif op == "stmts":
                out.append(((k, "stmts"), dict(op="pretty", splits=splits, **params_json(dict(DEFAULT_PARAMS, sep_from=st["sep_from"]), self.d2fix))))
            elif op in ("repr", "statements"):
                out.append(((k, op), dict(op="pretty", splits=splits, **params_json(DEFAULT_PARAMS, self.d2fix))))
            elif op == "stmt_pp":
                f = obs["fresh"][k]
                if "stmt" in f:
                    for j, c in enumerate(st["calls"]):
                        out.append(((k, "stmt_pp", j), dict(op="stmt_pretty", fromname=f["stmt"][0], aliases=f["stmt"][1], col=c["col"], fs=c["fs"],
                                                             **params_json(c["params"], self.d2fix))))
            elif op in ("with", "union"):
                out.append(((k, "set"), dict(op="pretty", splits=splits + [list(split_of(nfkc_import(i))) for i in st["other"]],
                                             **params_json(st["params"], self.d2fix))))
            elif op == "without":
                gone = set(canon_import(i) for i in st["remove"])
                rest = [list(split_of(nfkc_import(i))) for i in case["imports"] if canon_import(i) not in gone]
                out.append(((k, "set"), dict(op="pretty", splits=rest, **params_json(st["params"], self.d2fix))))
        return out

    def compare_seq(self, case, obs, resps):
        tags = [t for t, _ in self.seq_requests(case, obs)]
        for tag, r in zip(tags, resps):
            k = tag[0]
            for who in ("same", "fresh"):
                o = obs[who][k]
                call = step_brief(case["steps"][k])
                if tag[1] in ("pp", "set"):
                    if "err" in o or "err" in r:
                        if o.get("err") != r.get("err"):
                            return f"step {k} {call} on the {who} object: impl={str(o)[:200]} model={str(r)[:200]}"
                    elif o["out"] != r["ok"]:
                        return f"step {k} {call} on the {who} object: text impl={o['out']!r} model={r['ok']!r}"
                elif tag[1] in ("stmts", "statements"):
                    if "stmts" in o and o["stmts"] != r.get("stmts"):
                        return f"step {k} {call} on the {who} object: statements impl={o['stmts']!r} model={r.get('stmts')!r}"
                elif tag[1] == "repr":
                    if "ok" in r and "out" in o:
                        w = "ImportSet('''\n%s''')" % "".join("  " + l for l in r["ok"].splitlines(True))
                        if o["out"] != w:
                            return f"step {k} repr() on the {who} object: impl={o['out']!r} model={w!r}"
                elif tag[1] == "stmt_pp":
                    if "outs" in o:
                        got = o["outs"][2 * tag[2]]
                        if "ok" not in r or got != r["ok"]:
                            return f"step {k} {call} call {tag[2]} on the {who} object: impl={got!r} model={str(r)[:200]}"
        return None

    def compare(self, case, obs, resps):
        if case.get("kind") == "cli":
            return None
        if case.get("kind") == "seq":
            return self.compare_seq(case, obs, resps)
        if case.get("kind") == "parse":
            r = resps[0]
            a = obs["ast"]
            if isinstance(a, str):
                return None if "err" in r else f"ast.parse rejects ({a}) but the reference grammar accepts: {r.get('ok')!r}"
            if "err" in r:
                return f"ast.parse accepts {a!r} but the reference grammar rejects"
            # (identifiers: the reference grammar reads the characters, the compiler normalises them to NFKC)
            return None if _nfkc_deep(r["ok"]) == a else f"reference grammar parsed {r['ok']!r}, ast.parse {a!r}"
        r = resps[0]
        if "err" in obs:
            if obs["err"].startswith("construct:"):
                return None
            if r.get("err") == obs["err"]:
                return None
            return f"impl raised {obs['err']}, model gave {str(r)[:200]}"
        if "err" in r:
            return f"model error {r['err']}, impl returned text"
        if r["stmts"] != obs.get("stmts"):
            return f"get_statements differ: impl={obs.get('stmts')!r} model={r['stmts']!r}"
        if r["ok"] != obs["out"]:
            return f"text differs: impl={obs['out']!r} model={r['ok']!r}"
        # reference grammar on the output vs CPython
        r2 = resps[1]
        a = ast_statements(obs["out"])
        if isinstance(a, str):
            if "err" not in r2:
                return f"ast.parse rejects the output ({a}) but the reference grammar accepts it"
        else:
            if "err" in r2:
                return f"ast.parse accepts the output but the reference grammar rejects it: {obs['out']!r}"
            if _nfkc_deep(r2["ok"]) != a:
                return f"reference grammar parsed {r2['ok']!r}, ast.parse {a!r}"
        # hypothesis flags of the theorems: they must hold on the whole generated domain (else the theorems say nothing there)
        if not r.get("valid"):
            return "hypothesis validStmt of C11_roundtrip is false for a generated input whose names are valid Python identifiers"
        if not r.get("wf"):
            return "hypothesis wfName / split round trip of C11_imports_exact is false for a generated input"
        if r.get("valid") and r.get("noBadParen") and isinstance(a, str):
            return "hypotheses ValidSet and NoBadParen hold but the output is not valid Python (theorem C11_roundtrip_partial contradicted)"
        return None

    def nontrivial_key(self, case, obs):
        if case.get("kind") == "cli":
            return "cli" + repr(case.get("pyproject")) + case["tool"]
        if case.get("kind") == "parse":
            return None
        if case.get("kind") == "seq":
            if len(case["steps"]) >= 2 and len(case["imports"]) >= 2 and "same" in obs:
                return "seq" + repr(case["imports"]) + repr(case["steps"])
            return None
        out = obs.get("out")
        if out and out.count("\n") > len(obs.get("stmts") or []):
            return repr(sorted(case["imports"], key=str)) + repr(sorted(case["params"].items(), key=str))
        return None

    def sample_repr(self, case, obs):
        if case.get("kind") == "cli":
            return dict(tool=case["tool"], args=case["args"], pyproject=case.get("pyproject"), out=(obs.get("out") or "")[:200])
        if case.get("kind") == "parse":
            return dict(text=case["text"][:200], ast=str(obs.get("ast"))[:200])
        if case.get("kind") == "seq":
            return dict(imports=[gen_c11.render_stmt(i) for i in case["imports"]][:8], sequence=[step_brief(s) for s in case["steps"]][:6])
        return dict(imports=[gen_c11.render_stmt(i) for i in case["imports"]][:8], params=case["params"],
                    out=(obs.get("out") or obs.get("err") or "")[:300])

    def stats(self, case, obs, acc):
        def inc(k):
            acc[k] = acc.get(k, 0) + 1
        inc("cases_from_" + case.get("_src", "?"))
        if case.get("kind") == "cli":
            inc("cli_cases")
            return
        if case.get("kind") == "parse":
            inc("grammar_cases")
            inc("grammar_rejected" if isinstance(obs.get("ast"), str) else "grammar_accepted")
            return
        if case.get("kind") == "seq":
            inc("sequence_cases")
            for st in case["steps"]:
                inc("seq_step_" + st["op"])
            pps = [st["params"]["sep_from"] for st in case["steps"] if st["op"] == "pp"]
            if any(a != b for a, b in zip(pps, pps[1:])):
                inc("seq_with_separate_from_imports_flip")
            return
        if case.get("hashseeds"):
            inc("formatted_under_3_hash_seeds")
        if gen_c11.has_alias_family(case["imports"]):
            inc("one_fullname_under_several_local_names")
        for i in case["imports"]:
            if i["mod"] == "__future__":
                inc("future_" + i["name"])
        p = case["params"]
        inc("align_" + ("bool" if isinstance(p["align"], bool) else "int" if isinstance(p["align"], int) else "set"))
        inc("hanging_" + p["hanging"])
        inc("width_" + ("None" if p["width"] is None else "10-40" if p["width"] <= 40 else "41-100" if p["width"] <= 100 else "101-200"))
        n = len(case["imports"])
        inc("imports_%s" % ("0-3" if n <= 3 else "4-10" if n <= 10 else ">10"))
        if "err" in obs:
            inc("err_" + obs["err"])
            return
        out = obs["out"]
        for k, cond in (("backslash_wrap", "\\\n" in out), ("paren_wrap", "(" in out), ("hanging_used", "(\n" in out),
                        ("star", "*" in out), ("relative", "from ." in out or re.search(r"from +\.", out) is not None),
                        ("future", "__future__" in out), ("overlong_line", any(len(l) > (p["width"] or 79) for l in out.split("\n")))):
            if cond:
                inc(k)

    # -- known-finding families ------------------------------------------------------------------
    @staticmethod
    def _fam_d2(case, failure):
        """D2: the output is invalid Python *only* because a plain `import` or a star was parenthesised, and the case really
        contains a plain import / star statement whose one-line form exceeds the width."""
        if failure.get("what") != "output is not valid Python" or not failure.get("d2_only"):
            return False
        N = case["params"]["width"] or 79
        for i in case["imports"]:
            c = canon_import(i)
            if c[0] == "imp" or c[3] == "*":
                return True
        return False

    families = {"d2_paren_plain_or_star": _fam_d2.__func__}


PROP = C11()


if __name__ == "__main__" and sys.argv[1:2] == ["--sub"]:
    import vcommon
    vcommon.setup_repo_path()
    _case = json.loads(sys.stdin.read())
    sys.stdout.write(json.dumps(PROP.run_local(_case)))
