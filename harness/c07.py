"""C07 — Successful auto-import makes code runnable; ambiguity is never guessed."""
from __future__ import annotations

import gen_c06 as G


def fam_d15(case, failure):
    """D15: the deepest known prefix of a missing name has an EMPTY entry tuple (a derived parent import was
    forgotten): `assert len(imports) >= 1` in auto_import_symbol."""
    if failure.get("what") != "exception escaped instead of a result" or failure.get("exc") != "AssertionError":
        return False
    if "__forget_imports__" not in G.full_db_text(case):
        return False
    tab = G.db_lookup_table(G.full_db_text(case), keep_empty=True)
    missing = failure.get("missing")
    if not isinstance(missing, list):
        return False
    for d in missing:
        key, ents = G.deepest_candidates(tab, d)
        if key is not None and len(ents) == 0:
            return True
    return False


class C07(G.AutoImpBase):
    id = "C07"
    driver = "C07"
    lean_modules = ["Pfb.C07.Props", "Pfb.C07.Runs"]
    theorems = [
        "Pfb.C07.C07_success_heads_bound",
        "Pfb.C07.C07_success_resolves",
        "Pfb.C07.C07_success_resolves_py",
        "Pfb.AutoImp.PyW.pyUniv_sound",
        "Pfb.C07.C07_provenance",
        "Pfb.C07.C07_ambiguous_symbol",
        "Pfb.C07.C07_ambiguous",
        "Pfb.C07.C07_unknown_symbol",
        "Pfb.C07.C07_unknown",
        "Pfb.C07.D15_empty_tuple_asserts",
        "Pfb.C07.Witness.toy_sound",
        "Pfb.C07.Witness.alias_registry_witness",
        "Pfb.AutoImp.Reach.resolved_stable",
        "Pfb.AutoImp.walk_stable",
        "Pfb.AutoImp.foldSyms_true",
        "Pfb.AutoImp.autoImportSymbol_true_headBound",
        # composition with C05's soundness theorems: a reported success means the reference run raises no NameError
        "Pfb.C07.C07_runs_fragB",
        "Pfb.C07.C07_runs_fragG",
        "Pfb.C07.findMissing_mono_fragB",
        "Pfb.C07.findMissing_mono_fragG",
        "Pfb.C07.reported_head_unbound",
        "Pfb.C07.reported_head_unbound_G",
        "Pfb.C07.RunsEx.success",
        "Pfb.C07.RunsEx.successG",
    ]
    rule = ("same history stream as C06 (harness/gen_c06.py) with its own seed; the oracle executes the code in a forked child "
            "after every successful call; a case is non-trivial when at least one import statement was really executed")
    trusted_base = ["CPython's import system (importlib) and CPython's name resolution (NameError) are the reference",
                    "the list of missing dotted names is an input of the model, taken from the real find_missing_imports (C05)"]
    assumptions = ["snippets come from the fragment on which find_missing_imports is complete (C05); "
                   "namespace dict keys are identifiers"]
    families = {"D15": fam_d15, "N1": G.fam_n1, "N2": G.fam_n2, "P1": G.fam_p1, "P2": G.fam_p2}

    def oracle(self, case, obs):
        return G.oracle_c07(case, obs)


PROP = C07()
